#!/usr/bin/env python3
"""Regenerates /verif/MANIFEST.json from the table below (keeps the file valid while checks are being added)."""
import json
import os

ROOT = os.path.dirname(os.path.dirname(os.path.abspath(__file__)))

TB = ('TLC 1.8; the pure-Python stdlib threading/queue/concurrent.futures run unmodified under detsched; detsched itself '
      '(SchedLock, thread start/join substitutes, virtual clock); preemption only at synchronisation points')

CHECKS = {
    'C01': dict(
        technique='TLA+ spec FifoStream checked exhaustively by TLC + TLC trace validation (FifoStreamTrace) of real '
                  'fifo_stream/Parmapper executions under a deterministic scheduler',
        text='Design leg: TLC enumerates every interleaving of feeder, pool workers, consumer and finalizer of '
             'spec/FifoStream.tla over a grid of stream lengths, capacities, concurrency, failing/rejected elements and flags, '
             'checking order, pairing, exactly-once and how the iteration may end.  Conformance leg: the real code is run '
             'under detsched (every lock operation a scheduling decision) over random/PCT/adversarial schedules; each '
             'recorded event trace is validated by TLC against the same spec with all invariants evaluated on every state; TLC '
             'behaviours (simulation + trap goals) are steered into the real threads (spec -> code).  Process executor: real '
             'ProcessPoolExecutor runs with inverted completion orders, validated observationally (FifoStreamObsTrace: consumer '
             'events + shared-memory call counters logged, everything else silent, TLC searches for an explanation).',
        design_ref='DESIGN.md section 6 C01, 11.5', note=TB),
    'C08': dict(
        technique='TLA+ spec FifoStream (look-ahead/concurrency invariants) checked by TLC + TLC trace validation of real '
                  'executions under adversarial deterministic schedules',
        text='LookAhead, InFlightBound, QueueBound and ConcBound are invariants of spec/FifoStream.tla, checked exhaustively by '
             'TLC on the parameter grid and re-evaluated by TLC on every state of every validated trace of the real code run '
             'under schedules that starve the consumer or the workers.',
        design_ref='DESIGN.md section 6 C08', note=TB),
}

CHECKS['C05'] = dict(
    technique='TLA+ specs BufferOp and FifoStream: TLC deadlock-freedom, safety and liveness under fairness; as-found design '
              'variants must deadlock in the model; TLC trace validation of real Buffer/AsyncBuffer/fifo_stream executions '
              'under a deterministic scheduler where a hang is a detected deadlock',
    text='TLC checks on spec/BufferOp.tla and spec/FifoStream.tla that no stop position, failure position or schedule leads '
         'to a state without successor other than "iterator closed, helpers exited", that the first failure is delivered once '
         'after all earlier outputs, and (FairSpec) that every iteration ends.  The real code is run under detsched for every '
         'stop/failure position of a scenario grid x many schedules; a hang is reported exactly (no runnable thread, no timer), '
         'and every completed execution is validated by TLC against the trace specs (NoLeak, EndOK on each state).  Composed '
         'pipelines and the SyncIter / AsyncIter adapters are validated against spec/PipeOutcome.tla (what the consumer observes: '
         'elements in order, the right end, no helper thread of any stage left at close).',
    design_ref='DESIGN.md section 6 C05', note=TB)
CHECKS['C16'] = dict(
    technique='TLA+ spec FifoStream with Mode=async checked by TLC against the same invariants as Mode=sync; TLC trace '
              'validation of real async_fifo_stream / AsyncParmapperAsync executions on a virtual-time event loop, plus '
              'output comparison with fifo_stream on identical scenarios',
    text='Both flavours must refine the same abstract ordered map: TLC checks OutIsPrefix/EndOK/CalledOnce for Mode=async on '
         'the same grid as C01, and the as-found async feeder (stale/unbound task for a rejected element) must violate them in '
         'the model.  The real async functions run on an asyncio loop inside a detsched thread with virtual per-call durations '
         '(all completion orders), traces are validated by TLC, and outputs are compared with the sync flavour run on the same scenario.',
    design_ref='DESIGN.md section 6 C16', note=TB + '; asyncio pure-Python Future/Task are used instead of the C accelerators')

SRV = TB + '; the servlet tree is a ThreadServlet of harness workers (the abstract pipeline of the spec)'
CHECKS['C06'] = dict(
    technique='TLA+ spec ServerCore (ledger, capacity condition with waiter list, gather + notification thread) checked by TLC: '
              'capacity invariant, clean rejection, no lost response, liveness of slot return; TLC trace validation of the real '
              'Server/AsyncServer under a deterministic scheduler with virtual time',
    text='TLC enumerates all interleavings of up to 4 callers of every kind mix (backpressure / waiting / short deadline / '
         'abandoned stream element) with the gather and notification threads for capacity 1 and 2, sync and async flavour, and '
         'checks CapacityInv, RejectClean, NoLostResponse, IdleEmpty, deadlock-freedom and (FairSpec) SlotsReturned; the '
         'as-found variants (no re-check after wake-up; input queued before the ledger entry) must violate them.  The real '
         'servers run under detsched with the backlog logged at every ledger insert/pop and the condition traffic logged; every '
         'trace is validated by TLC, which compares the backlog with the model and evaluates the invariants on every state.',
    design_ref='DESIGN.md section 6 C06', note=SRV)
CHECKS['C07'] = dict(
    technique='TLA+ spec ServerCore with deadline / cancel / abandon actions interleaved with the gather thread\'s pop / check / '
              'set steps, checked by TLC (gather thread never dies, others answered under fairness); TLC trace validation of real '
              'executions under bounded-lag adversarial virtual time',
    text='Every relative order of {deadline expiry, cancel, early stream close} and {gather get, pop, cancelled?, set_result} is a '
         'path of spec/ServerCore.tla; TLC checks GatherAlive, OwnResult, NoLostResponse and the liveness properties '
         'OthersAnswered / AllReturn; the as-found unguarded set_result must kill the gather thread in the model.  The real '
         'Server and AsyncServer run with deadlines comparable to service times under a scheduler that may fire due timers while '
         'threads are runnable; each trace is validated by TLC and the server must exit with no thread left.',
    design_ref='DESIGN.md section 6 C07', note=SRV)

CHECKS['C10'] = dict(
    technique='TLA+ spec Tee with one action per source line of Fork.__next__, checked by TLC (prefix/ending agreement, window '
              'bound, deadlock-freedom, termination under fairness; as-found variants must wedge / spin / disagree); TLC trace '
              'validation of the real tee() under a deterministic scheduler preempting before every line of _tee.py',
    text='TLC explores every interleaving of 2 and 3 forks at line granularity for source lengths 0..6, every failure position and '
         'buffer sizes 2..4: ForkPrefix, EndAgree, Window (<= buffer_size + 2), LockSane, no deadlock, and AllEnd under weak '
         'fairness of every fork.  The real forks run in detsched line mode (scheduling point before each line of _tee.py); a '
         'wedge or a spin on a leaked lock is detected as deadlock / livelock, and each completed execution is validated by TLC.',
    design_ref='DESIGN.md section 6 C10', note=TB + '; line-mode preemption (sys.settrace) on _tee.py')

CHECKS['C17'] = dict(
    technique='TLA+ spec IterableQueue (main queue, spare/applied/used/claim tokens, suppliers, consumers, renew, stop) checked by '
              'TLC: exactly-once per round, clean start of every round, token conservation, termination under fairness; the '
              'as-found non-atomic token move must leak a marker in the model; TLC trace validation of the real IterableQueue '
              'under a deterministic scheduler with every queue operation logged under the queue mutex',
    text='TLC enumerates all interleavings of up to 3 suppliers and 3 consumers over 2-3 rounds separated by renew(), bounded and '
         'unbounded queues, with and without stop requests: NoDuplicate, RoundComplete, CleanStart (no item or marker leaks between '
         'rounds), NoInternalError, deadlock-freedom and ConsumersFinish under fairness.  The real IterableQueue over queue.Queue runs '
         'under detsched; traces are validated by TLC; stop-request scenarios run in exact virtual time so that "within the wait '
         'interval" is checked exactly.  TLC behaviours are steered into the real threads (spec -> code).  Over multiprocessing '
         'queues with suppliers and consumers in separate processes only per-process event sequences exist: IterableQueueProcTrace '
         'lets TLC search for the interleaving.',
    design_ref='DESIGN.md section 6 C17, 11.5', note=TB + '; multiprocessing queues: sampled OS schedules, per-process event order')

CHECKS['C09'] = dict(
    technique='timed TLA+ spec BatchWorker (collector thread, read lock, batch buffer, deadline-bounded consumer, competing workers; '
              'clock advances only when nothing can move) checked by TLC; TLC trace validation of the real Worker loops under a '
              'deterministic scheduler with exact virtual time',
    text='TLC enumerates every arrival schedule (up to 4 inputs, gaps 0..2 ticks, genuine / exception value / preprocess-rejected) x '
         'batch_size 0..3 x batch_wait_time 0..2 x 1-2 competing workers and checks WellFormed, AtMostOnce, ExactlyOnceAtEnd, Timely '
         '(call no later than wait after the first element was taken), Immediate (wait 0), deadlock-freedom and termination; '
         'reachability goals guard against vacuity.  The real _start_batch/_start_single loops run under detsched with arrivals at '
         'virtual times; what call() received and when is logged and every trace is validated by TLC with times compared exactly.  '
         'Full batch buffers (capacity batch_size + Extra, slow calls): WaitsOnlyWhenFull and LockHolderCanMove; the as-found room '
         'test (D26) and a lock-first collector are refuted; flood scenarios run under random / PCT schedules and under the schedule '
         'of the model\'s D26 counterexample.',
    design_ref='DESIGN.md section 6 C09', note=TB + '; exact virtual time (no tolerance windows)')

CHECKS['C02'] = dict(
    technique='TLA+ specs ServletNet (uid minting, ledger, worker loops with short-circuit and batch split, ensemble catalog with '
              'fail_fast, switch; values carry provenance) and ServerCore (ledger) checked by TLC; as-found id re-use and '
              'put-before-record must produce cross-talk / a lost response in the model; TLC trace validation of the real Server '
              'over thread servlet trees under a deterministic scheduler',
    text='TLC explores all interleavings of callers, workers, ensemble/switch threads and the gather thread for four topologies '
         '(2 workers; sequential with a batched second stage; 2-member ensemble with fail_fast on/off; switch), every subset of '
         'failing requests per stage and every routing, checking NoCrossTalk (each delivered value was computed from that '
         'request\'s own input by the configured composition), NoMiss and (FairSpec) AllAnswered.  The real Server runs those '
         'topologies under detsched with every queue get/put of the tree logged; delivered values are decoded into provenance '
         'records and each trace is validated by TLC; re-use of a request id is accepted only when nothing in the tree still carries '
         'it, and an adversarial (legal) identity allocator hands the identity of a dead future to the next one, for Server and '
         'AsyncServer.  Process and mixed servlet trees run on real processes with concurrent callers and a stream; every delivered '
         'outcome and the stream order are validated against ExpectedOK of the same spec (ServletOutcomeTrace).',
    design_ref='DESIGN.md section 6 C02', note=SRV.replace('a ThreadServlet of harness workers (the abstract pipeline of the spec)', 'thread servlet trees of harness workers'))
CHECKS['C04'] = dict(
    technique='TLA+ spec ServletNet with failure sets per stage: TLC checks that every outcome is the request\'s own success or own '
              'failure (site, batch membership, ensemble fail_fast rules); TLC trace validation of failure-injection runs of the '
              'real Server over thread servlet trees, with exception type/args/traceback checked at every delivered failure',
    text='In the model a failing call fails exactly the members of its batch, an exception value is short-circuited through later '
         'stages, and the ensemble produces EnsembleError exactly under the documented rules; NoCrossTalk compares every outcome '
         'with ExpectedOK for all subsets of failing requests; reachability goals (batch of two, late member result after fail-fast) '
         'guard against vacuity.  In the conformance leg harness workers raise ElemError(request, site); batch compositions are '
         'logged, every delivered failure is decoded (class, args, failure-site traceback: live frames for thread servlets, text '
         'after a process boundary) and the trace is validated by TLC.  Real process / mixed trees: failing batches carry their '
         'members out of the worker process, outcomes validated by TLC against ExpectedOK (ServletOutcomeTrace).',
    design_ref='DESIGN.md section 6 C04', note=SRV.replace('a ThreadServlet of harness workers (the abstract pipeline of the spec)', 'thread servlet trees of harness workers'))

CHECKS['C11'] = dict(
    technique='TLA+ spec ServerLifecycle (start handshake with failing worker, bounded pipes, onboarding and gather threads, '
              'sentinel protocol, re-entry) checked by TLC for all-or-nothing start, complete stop, deadlock-freedom and '
              'termination; as-found variants must leak / deadlock in the model; observations of real Server(ProcessServlet) '
              'runs (real processes and pipes, sizes scaled around the pipe buffer) validated by TLC',
    text='TLC explores every interleaving of starter, workers, onboarding thread, gather thread and the exit sequence for 1-3 '
         'workers, pipe capacities 1-2 units, result sizes below / above the pipe, 0..P+2 abandoned inputs and two enter/exit '
         'cycles.  The repaired design satisfies AllOrNothing, ExitComplete, no deadlock and Completes; each as-found flag is '
         'refuted.  Real servers over process servlets are entered, used (ok / failing / timed-out call, abandoned stream) and '
         'left twice with a failing worker at every position; leftovers (processes, threads) and exit are observed, validated by '
         'TLC against the spec of the code as it is; an exit hang is a 30 s bound confirmed in a fresh process.  Every fourth '
         'scenario runs on AsyncServer, each cycle under an event loop of its own (same server object).  One open '
         'finding (D11b) is reported as KNOWN-FINDING.',
    design_ref='DESIGN.md section 6 C11', note='TLC; real OS schedules (not controlled); 64 KiB pipe assumed when scaling sizes; '
    'thread-only servlet trees are covered for start/stop by the C02/C04/C06 conformance runs (every run ends with Exit, leftover = 0)')

PROCNOTE = ('TLC; real processes, pipes and signals under the OS schedule (phase-gated kills make the crash point deterministic); a hang is a '
            '20 s bound where < 0.5 s is expected, confirmed twice alone in a fresh process; Thread flavour also under detsched')
CHECKS['C12'] = dict(
    technique='TLA+ spec ProcOutcome (child phases, OS kill at every phase, parent collector with exit-code reaping, accessors as '
              'environment actions in any order; Thread flavour) checked by TLC for agreement of all accessors with one abstract '
              'outcome and bounded accessors; four as-found flags refuted; the finite scenario space executed on real Process / '
              'Thread objects with phase-gated signals and validated by TLC trace validation',
    text='TLC explores every ending kind (return / raise / SystemExit None, 0, n, str) x kill signal x delivery phase x order of '
         'join, result, exception, done, exitcode, wait, as_completed: invariants Agreement, ExitCodeRight, FutureRight; liveness '
         'BoundedAccessors.  The same product is run on real objects (boot / run / between-messages / final phase reached by parking '
         'hooks and a Finalize), each accessor under a bound, observations validated by TLC; Thread start/run/accessor interleavings '
         'additionally run under detsched.',
    design_ref='DESIGN.md section 6 C12', note=PROCNOTE)
CHECKS['C20'] = dict(
    technique='TLA+ spec ChildLog (child queue buffer, feeder threads of child and parent sharing one bounded pipe under the write '
              'lock, parent logger thread, collector) checked by TLC: handled is a prefix of emitted, no loss when the logger stops, '
              'child always exits, join returns; as-found flag refuted three ways; real children (Process, ProcessServlet worker, '
              'ProcessPoolExecutor worker) with record volumes scaled around the pipe validated by TLC trace validation',
    text='TLC checks HandledPrefix, NoLoss, PipeBound and the liveness properties ChildExits / JoinReturns / LoggerStops for up to 5 '
         'records, size classes and pipe capacities 2-4 units.  Real children log 0-300 records of 50 B - 100 kB (up to ~5x the pipe, '
         'F_GETPIPE_SZ read at run time) with a fast or a 2 ms/record parent handler, ending by return / raise / sys.exit; what a '
         'handler on the parent root logger received, join() and the exit code are recorded and validated by TLC.  The parent\'s level '
         'settings are per logger (the records\' own logger more / less verbose than root); a launching script in its own interpreter.',
    design_ref='DESIGN.md section 6 C20', note=PROCNOTE)

CHECKS['C03'] = dict(
    technique='TLA+ spec StreamOps: the documented sequential meaning of every operator and a pull automaton per operator, as TLA+ '
              'definitions; TLC enumerates the (source, program) space within bounds, checks algebraic laws on it and exports every '
              'case with its expected output / raised element / pull counts; each exported case is replayed on the real Stream '
              '(spec -> code); real outputs of random deeper programs are judged by TLC (code -> spec, StreamOpsCheck)',
    text='The oracle is the TLA+ transcription of the documented meaning, not a Python re-implementation.  Quick: sources <= 3 x '
         'programs <= 2 operators with boundary parameters {1, 2, len, len+1} = ~470k cases, each executed on the real Stream by '
         'iteration, collect() and drain(), with an instrumented source (construction pulls nothing; pull count after every k '
         'outputs compared with Need).  Shuffle and random programs (depth <= 6) are checked by TLC as permutations / against the '
         'spec.  Canary cases with wrong expectations must all be flagged.',
    design_ref='DESIGN.md section 6 C03', note='TLC; element alphabet, user functions and parameters are finite catalogues (boundary '
    'values enumerated, mid-range values only in the random leg); parmap with the thread executor; pull counts decided for '
    'failure-free non-shuffled pipelines')
CHECKS['C19'] = dict(
    technique='timed TLA+ spec EagerBatcher (arrival schedule, deadline, clock advancing only when all roles are blocked) checked by '
              'TLC: partition, batch size, emit rule, no delay; two design mutants refuted; every exported behaviour replayed on the '
              'real EagerBatcher over a virtual-clock queue with exact comparison; real queue.Queue + producer thread under detsched '
              'validated by TLC trace validation',
    text='TLC enumerates all arrival schedules up to 4-5 items (gaps 0..3), batch_size 1..3, wait 0..2, default and custom end '
         'marker, in a deterministic "eager" mode (harness queue) and a racing mode (real queue).  ~24k exported behaviours are run '
         'through the real __iter__ with time.perf_counter patched to the virtual clock; yield times and batches are compared '
         'exactly (frozen and ticking clock; the custom end marker that arrives is equal to, never identical with, the constructor\'s).  '
         '350 detsched traces with a producer thread (N <= 30) are validated by TLC.',
    design_ref='DESIGN.md section 6 C19', note=TB + '; exact virtual time')
CHECKS['C15'] = dict(
    technique='TLA+ spec RemoteExc (stack of nesting levels; Raise / Wrap / Hop / Forward / NestInEnsemble / HopEnsemble / BareHop; a '
              'traceback text abstracted to the sequence of raise sites) checked exhaustively by TLC; every maximal behaviour '
              'replayed through real pickle hops and a real Process boundary for a catalogue of 19 exception classes, comparing the '
              'projection of the real object with the TLC state after every step',
    text='The protocol dimension (hops, forwarding, re-raising, nesting depth <= 2) is exhaustive: 519 states (1,872 with bare hops), '
         'invariants ClassArgsKept, RemoteAfterHop, OriginInText, ContainsOriginal, action properties ForwardKeepsText, '
         'HopKeepsShape; three design flags refuted.  The data dimension is a catalogue: builtins with 0/1/3 args, KeyError, OSError, '
         'UnicodeDecodeError, custom __init__ / __reduce__ / __slots__, __cause__ / __context__, SystemExit, ExceptionGroup ...; '
         '8,280 replays in the quick tier.',
    design_ref='DESIGN.md section 6 C15', note='TLC; pickle byte-level fidelity is exercised, not modelled; exception classes are a catalogue')
CHECKS['C18'] = dict(
    technique='TLA+ specs SocketMux (pending queue, K connection senders, per-connection task FIFO with head-only responder, id-matched '
              'client receiver, stream order) and FifoPipe (two bounded FIFO channels) checked by TLC; TLC trace validation of a real '
              'SocketServer/SocketClient over a unix socket with gated handler completions and payload classes, and of real '
              'mpservice.pipe processes',
    text='TLC checks RightRequest, AtMostOnce, ClientAlive, StreamOrder and AllAnswered for K in {1,2}, backlog and pending sizes, '
         'R <= 3-4; three design flags refuted, four trap states reachable.  Real client/server runs with handler completions '
         'released out of order, payloads empty / newline-rich / header-like / 3 MiB / nested / raising; events recorded at the '
         'linearization points (read_record/write_record wrappers, logging active dict) and validated by TLC; pipe transport with '
         'messages beyond the 64 KiB buffer in both directions; an exception out of the transport\'s own send/recv ends the trace with '
         'an event no action explains.',
    design_ref='DESIGN.md section 6 C18', note='TLC; real asyncio loop, sockets and processes under the OS schedule; byte framing is '
    'exercised by the payload catalogue (thorough: hypothesis payloads), not modelled; asyncio runs a sender\'s continuation before '
    'dispatching that record\'s response (stated environment assumption LoopOrder)')

MGRNOTE = ('TLC; a real ServerProcess with real client processes driven by a command interpreter over pipes; quiescence polling (the server '
           'drops temporaries asynchronously) with the corresponding internal actions in the spec; argument/value catalogues')
CHECKS['C13'] = dict(
    technique='TLA+ spec RefCount (refcounts, proxies per holder, pickles in transit with a two-step rebuild, server temporaries, '
              'containers, process exit, shared memory) checked by TLC for Count, NoPrematureDestroy, ShmSafe and the liveness '
              'properties NoLeak / ShmReleased / AllGone; two as-found flags refuted; TLC-generated histories executed on a real '
              'ServerProcess with refcounts / live handles / shm files compared after every step (spec -> code) and random long '
              'histories validated by TLC trace validation (code -> spec)',
    text='Histories over create, pickle, rebuild (normal / in-server / inheriting), store in and remove from hosted containers, '
         'managed() returns, delete, process exit for 2-3 client processes and up to 7 object ids are explored exhaustively by TLC. '
         'Trap goals, simulated histories (depth 40) and the two as-found counterexamples (as probes the real server must not follow) '
         'are executed against a fresh real ServerProcess each; after every external action debug_info refcounts, usability of every '
         'live proxy, container keys and /dev/shm/<name> must equal the spec state.  Histories include re-wrapping an already hosted '
         'object (managed() of the same object again), client processes that drop everything and stay alive and idle, and a client whose '
         'handle table lives inside a second server process (every proxy it holds lives in a foreign server).',
    design_ref='DESIGN.md section 6 C13', note=MGRNOTE)
CHECKS['C14'] = dict(
    technique='TLA+ spec ProxyCall (hosted list / dict / Namespace / Value / custom class as sequential objects, every generated '
              'proxy operation defined as (new state, result | error); callers in two threads, a child process and inside the '
              'server; managed() aliasing) checked by TLC (SameAsDirect, ErrorsAreNoOps, AliasView, ConnUsable); three as-found '
              'flags refuted; TLC histories replayed on the real ServerProcess against a local shadow object; concurrent histories '
              'linearized by TLC trace validation',
    text='Every call made through a proxy is compared with the spec result and with the same call made directly on a local shadow '
         'object (exact values, exception class and args, is_remote_exception, server traceback text, next call on the same proxy '
         'works); managed() results must alias the contained value.  Concurrent callers under the OS schedule are validated by a '
         'trace spec that searches a linearization respecting per-caller and real-time order.  Callers: two threads, a child process, '
         'hosted code inside the server, hosted code inside a SECOND server process.',
    design_ref='DESIGN.md section 6 C14', note=MGRNOTE)

ALL = ['C%02d' % i for i in range(1, 21)]


# round 7 additions (appended to the texts above)
SL = ('  The hand-off queue underneath (mpservice._queues.SingleLane), which these specifications treat as an atomic bounded FIFO, '
      'is itself modelled (spec/SingleLane.tla: mutex, two conditions, if-waits, notify, timed-out waiters swallowing a '
      'notification) and TLC checks that it refines that FIFO (AtomicQ, Bound, Fifo, no lost wake-up); the real class runs with one '
      'writer and one reader under detsched in line mode (+ preemption-bounded exhaustive DFS of tiny programs) and every lock / '
      'wait / notify / append / popleft is validated by TLC against SingleLaneTrace.')
for _pid in ('C01', 'C05', 'C08', 'C09'):
    CHECKS[_pid]['text'] += SL
    CHECKS[_pid]['technique'] += '; component spec SingleLane (refinement of the atomic FIFO) with TLC trace validation of the real class'
CHECKS['C03']['text'] += ('  The enumerated cases run a second time with a StopIteration object behind the failure token (PEP 479: '
                          'the stream must still FAIL there, never just end early).')
CHECKS['C14']['text'] += ('  managed(obj) without a typeid called concurrently in several server threads is modelled separately '
                          '(spec/ManagedReg.tla: look-up / register / create on the shared registry; deleting the made-up entry '
                          '"after this single use" - the TODO in the code - is refuted by TLC) and 2-3 clients of a real server '
                          'process whose Server.create is delayed are validated against ManagedRegTrace.')
CHECKS['C14']['technique'] += '; spec ManagedReg for concurrent managed() calls with TLC trace validation of real clients'
CHECKS['C17']['text'] += ('  Process leg: also a single consumer that calls renew() on its own the moment its iteration ends, with '
                          'helper queues that deliver slowly (tokens still in flight); what renew() does on the helper queues is recorded '
                          'and validated against spec/RenewTokens.tla (a put is counted at once, delivered later; recycling "until empty()" is '
                          'refuted by TLC).')
CHECKS['C07']['text'] += ('  TLC behaviours reaching "cancel inside the check/set window while another request waits for a slot" are '
                          'steered into the real threads (scripted timer expiry, requests enter when the behaviour lets them).')


def main():
    checks = []
    for pid in ALL:
        if pid not in CHECKS:
            continue
        c = CHECKS[pid]
        checks.append({
            'property_id': pid,
            'quick_cmd': f'./check {pid} --tier quick',
            'thorough_cmd': f'./check {pid} --tier thorough',
            'evidence_file': f'/verif/evidence/{pid}.json',
            'replay_cmd_template': f'./check {pid} --replay {{path}}',
            'engine': 'mbt',
            'level_claimed': {'category': c.get('category', 'model_checking'), 'text': c['text'],
                              'design_ref': c['design_ref']},
            'level_note': c['note'],
            'technique': c['technique'],
        })
    na = [{'property_id': pid, 'reason': 'check not built yet (work in progress; the design claims it, see DESIGN.md section 6)'}
          for pid in ALL if pid not in CHECKS]
    m = {
        'version': 1,
        'setup_cmd': 'true',
        'hooks': {
            'guard': 'MPSERVICE_VERIF',
            'enable': 'none needed: all observation is through harness-owned objects and wrappers installed in the harness '
                      'process; the guard name is reserved',
            'baseline_off_cmd': 'cd /repo && /venv/bin/python -m pytest -ra -q -p no:cacheprovider --timeout=900 '
                                '--continue-on-collection-errors',
            'source_commits': [],
            'add_only': True,
        },
        'engines': [
            {'name': 'mbt', 'path': '/verif/mbt', 'serves_properties': sorted(CHECKS),
             'kind_free_text': 'TLA+ specifications (spec/*.tla) checked by TLC; conformance by TLC trace validation of '
                               'executions of the real code under a deterministic thread scheduler (detsched) or gated real '
                               'processes, and by replay of TLC behaviours into the real code'},
        ],
        'checks': checks,
        'not_applicable': na,
        'notes': 'exit 2 = machinery failure (never a verdict). Replay files are written to /verif/out/replays/.',
    }
    with open(os.path.join(ROOT, 'MANIFEST.json'), 'w') as f:
        json.dump(m, f, indent=1)
    print('MANIFEST.json:', len(checks), 'checks,', len(na), 'not_applicable')


if __name__ == '__main__':
    main()
