#!/usr/bin/env python3
"""Regenerates /verif/MANIFEST.json from the table below (keeps the file valid while checks are being added)."""
import json
import os

ROOT = os.path.dirname(os.path.dirname(os.path.abspath(__file__)))

TB = ('TLC 1.8; the pure-Python stdlib threading/queue/concurrent.futures run unmodified under detsched; detsched itself '
      '(SchedLock, thread start/join substitutes, virtual clock); preemption only at synchronisation points')

CHECKS = {
    'C01': dict(
        technique='TLA+ spec FifoStream checked exhaustively by TLC + TLC trace validation (FifoStreamTrace) of real '
                  'fifo_stream/Parmapper executions under a deterministic scheduler',
        text='Design leg: TLC enumerates every interleaving of feeder, pool workers, consumer and finalizer of '
             'spec/FifoStream.tla over a grid of stream lengths, capacities, concurrency, failing/rejected elements and flags, '
             'checking order, pairing, exactly-once and how the iteration may end.  Conformance leg: the real code is run '
             'under detsched (every lock operation a scheduling decision) over random/PCT/adversarial schedules; each '
             'recorded event trace is validated by TLC against the same spec with all invariants evaluated on every state.',
        design_ref='DESIGN.md section 6 C01', note=TB),
    'C08': dict(
        technique='TLA+ spec FifoStream (look-ahead/concurrency invariants) checked by TLC + TLC trace validation of real '
                  'executions under adversarial deterministic schedules',
        text='LookAhead, InFlightBound, QueueBound and ConcBound are invariants of spec/FifoStream.tla, checked exhaustively by '
             'TLC on the parameter grid and re-evaluated by TLC on every state of every validated trace of the real code run '
             'under schedules that starve the consumer or the workers.',
        design_ref='DESIGN.md section 6 C08', note=TB),
}

ALL = ['C%02d' % i for i in range(1, 21)]


def main():
    checks = []
    for pid in ALL:
        if pid not in CHECKS:
            continue
        c = CHECKS[pid]
        checks.append({
            'property_id': pid,
            'quick_cmd': f'./check {pid} --tier quick',
            'thorough_cmd': f'./check {pid} --tier thorough',
            'evidence_file': f'/verif/evidence/{pid}.json',
            'replay_cmd_template': f'./check {pid} --replay {{path}}',
            'engine': 'mbt',
            'level_claimed': {'category': c.get('category', 'model_checking'), 'text': c['text'],
                              'design_ref': c['design_ref']},
            'level_note': c['note'],
            'technique': c['technique'],
        })
    na = [{'property_id': pid, 'reason': 'check not built yet (work in progress; the design claims it, see DESIGN.md section 6)'}
          for pid in ALL if pid not in CHECKS]
    m = {
        'version': 1,
        'setup_cmd': 'true',
        'hooks': {
            'guard': 'MPSERVICE_VERIF',
            'enable': 'none needed: all observation is through harness-owned objects and wrappers installed in the harness '
                      'process; the guard name is reserved',
            'baseline_off_cmd': 'cd /repo && /venv/bin/python -m pytest -ra -q -p no:cacheprovider --timeout=900 '
                                '--continue-on-collection-errors',
            'source_commits': [],
            'add_only': True,
        },
        'engines': [
            {'name': 'mbt', 'path': '/verif/mbt', 'serves_properties': sorted(CHECKS),
             'kind_free_text': 'TLA+ specifications (spec/*.tla) checked by TLC; conformance by TLC trace validation of '
                               'executions of the real code under a deterministic thread scheduler (detsched) or gated real '
                               'processes, and by replay of TLC behaviours into the real code'},
        ],
        'checks': checks,
        'not_applicable': na,
        'notes': 'exit 2 = machinery failure (never a verdict). Replay files are written to /verif/out/replays/.',
    }
    with open(os.path.join(ROOT, 'MANIFEST.json'), 'w') as f:
        json.dump(m, f, indent=1)
    print('MANIFEST.json:', len(checks), 'checks,', len(na), 'not_applicable')


if __name__ == '__main__':
    main()
