#!/usr/bin/env python3
"""Evaluate one seeded change: confirm the demonstration (passes on the unchanged tree, fails with the change) in a scratch
worktree outside /repo and /verif, run the given checks against the changed tree (VERIF_REPO_SRC), record the outcome under
/verif/seeded/<name>/ (patch.diff, demo, meta.json) and remove the worktree.

usage: seedtest.py <name> <property> <patch.diff> <demo.py> <needs (text)> <check-id> [<check-id> ...]
"""
import json
import os
import shutil
import subprocess
import sys
import time

VERIF = os.path.dirname(os.path.dirname(os.path.abspath(__file__)))


def sh(cmd, **kw):
    return subprocess.run(cmd, shell=True, stdout=subprocess.PIPE, stderr=subprocess.STDOUT, text=True, **kw)


def run_demo(wt, demo, out):
    env = dict(os.environ, PYTHONPATH=f'{wt}/src', PYTHONDONTWRITEBYTECODE='1')
    with open(out, 'w') as f:
        p = subprocess.Popen(['/venv/bin/python', demo], cwd=wt, stdout=f, stderr=subprocess.STDOUT, env=env,
                             start_new_session=True)
        try:
            rc = p.wait(timeout=300)
        except subprocess.TimeoutExpired:
            os.killpg(p.pid, 9)
            rc = 'timeout'
    try:
        os.killpg(p.pid, 9)
    except Exception:
        pass
    return rc


def main():
    name, prop, patch, demo, needs = sys.argv[1:6]
    checks = sys.argv[6:]
    wt = f'/tmp/sv_{name}'
    sh(f'git -C /repo worktree remove --force {wt}')
    r = sh(f'git -C /repo worktree add -q {wt} HEAD')
    assert r.returncode == 0, r.stdout
    dest = os.path.join(VERIF, 'seeded', name)
    os.makedirs(dest, exist_ok=True)
    meta = {'name': name, 'property': prop, 'needs_to_manifest': needs, 'repo_head': sh('git -C /repo rev-parse --short HEAD').stdout.strip(),
            'ran': []}
    try:
        rc0 = run_demo(wt, demo, f'/tmp/sv_{name}.clean.out')
        for _ in range(2):       # demos written on an idle machine can be timing-sensitive: the unchanged tree gets three tries
            if rc0 == 0:
                break
            rc0 = run_demo(wt, demo, f'/tmp/sv_{name}.clean.out')
        meta['demo_on_unchanged_tree'] = rc0
        r = sh(f'git -C {wt} apply {patch}')
        assert r.returncode == 0, 'patch does not apply: ' + r.stdout
        rc1 = run_demo(wt, demo, f'/tmp/sv_{name}.mut.out')
        for _ in range(2):       # ... and a schedule-dependent change gets three tries to show
            if rc1 != 0:
                break
            rc1 = run_demo(wt, demo, f'/tmp/sv_{name}.mut.out')
        meta['demo_on_changed_tree'] = rc1
        meta['ran'].append(f'demo on scratch worktree: unchanged rc={rc0}, changed rc={rc1}')
        meta['confirmed'] = (rc0 == 0 and rc1 not in (0,))
        meta['checks'] = {}
        for cid in checks:
            t0 = time.time()
            env = dict(os.environ, VERIF_REPO_SRC=f'{wt}/src')
            pr = subprocess.run([os.path.join(VERIF, 'check'), cid, '--tier', 'quick'], cwd=VERIF, env=env,
                                stdout=subprocess.PIPE, stderr=subprocess.STDOUT, text=True)
            viol = [ln for ln in pr.stdout.splitlines() if ln.startswith(('VIOLATION', '-- violation', 'KNOWN-FINDING', 'MACHINERY'))]
            meta['checks'][cid] = {'rc': pr.returncode, 'wall_s': round(time.time() - t0, 1), 'lines': [v[:300] for v in viol[:6]]}
            meta['ran'].append(f'VERIF_REPO_SRC={wt}/src ./check {cid} --tier quick -> rc={pr.returncode}')
            print(cid, 'rc', pr.returncode, *[v[:200] for v in viol[:3]], sep='\n  ')
        meta['detected_by'] = [c for c, v in meta['checks'].items() if v['rc'] == 1]
    finally:
        sh(f'git -C /repo worktree remove --force {wt}')
        # evidence files were rewritten by runs against the changed tree: restore the committed ones
        sh(f'git -C {VERIF} checkout -- evidence')
    for src, dst in ((patch, os.path.join(dest, 'patch.diff')), (demo, os.path.join(dest, os.path.basename(demo)))):
        if os.path.abspath(src) != os.path.abspath(dst):
            shutil.copy(src, dst)
    with open(os.path.join(dest, 'meta.json'), 'w') as f:
        json.dump(meta, f, indent=1)
    print(json.dumps({k: meta[k] for k in ('confirmed', 'detected_by')}))


if __name__ == '__main__':
    main()
