"""C01, C05, C08, C16: FifoStream / BufferOp specs and their conformance legs."""
from __future__ import annotations

import random

from mbt import tlc
from mbt.bind import fifostream as FB

FIFO_CONSTS_QUICK = dict(MaxN=3, MaxCap=2, MaxConc=2, MaxFail=2)
FIFO_CONSTS_THOROUGH = dict(MaxN=4, MaxCap=3, MaxConc=2, MaxFail=2)


def fifo_cfg(consts, invariants, properties=(), modes=('sync',), forward_base=True, async_binds=True,
             spec='Spec', deadlock=True):
    c = dict(consts)
    c['Modes'] = set(modes)
    c['ForwardBase'] = forward_base
    c['AsyncPreFailBinds'] = async_binds
    return tlc.cfg_text(spec=spec, constants=c, invariants=invariants, properties=properties, deadlock=deadlock)


TRACE_CFG = tlc.cfg_text(
    spec='TraceSpec',
    constants=dict(MaxN=8, MaxCap=8, MaxConc=8, MaxFail=8, Modes={'sync', 'async'}, ForwardBase=True,
                   AsyncPreFailBinds=True),
    constraint='Progress', postcondition='Report', deadlock=False)


def fifo_items(ck, count, seeds_per, strategies, **kw):
    rnd = random.Random(ck.seed * 1000003 + 17)
    scs = FB.gen_scenarios(rnd, count, **kw)
    items = []
    k = 0
    for sc in scs:
        for s in range(seeds_per):
            k += 1
            items.append({'id': k, 'sc': sc, 'seed': rnd.randrange(1 << 30), 'strategy': strategies[s % len(strategies)]})
    return items


def fifo_sig(t, v):
    sc = t['sc']
    return {'variant': sc['variant'], 'mode': sc['mode']}


def fifo_conformance(ck, name, items):
    """L3: run the real code under detsched, validate every recorded trace with TLC; hangs are violations."""
    out = ck.run_binder('fifostream', items, timeout=900)
    ck.evaluations += int(out.get('n_exec', 0))
    for h in out.get('hangs', []):
        ck.violation({'leg': 'L3', 'name': name, 'kind': 'hang-or-crash', 'status': h['status'],
                      'detail': h.get('detail'), 'waitmap': h.get('waitmap'), 'exc': h.get('exc'),
                      'item': {'sc': h['sc'], 'seed': h['seed'], 'strategy': h['strategy']},
                      'events': h['ev'][-60:]},
                     sig={'leg': 'L3', 'kind': 'hang', 'status': h['status'], 'variant': h['sc']['variant'],
                          'srcbase': h['sc']['srcbase'], 'exc': (h.get('exc') or '')[:60]})
    ck.validate(name, 'FifoStreamTrace', TRACE_CFG, out.get('traces', []), sig_of=fifo_sig)
    return out


def c01(ck, replay=None):
    thorough = ck.tier == 'thorough'
    consts = FIFO_CONSTS_THOROUGH if thorough else FIFO_CONSTS_QUICK
    ck.l1('FifoStream/sync', 'FifoStream',
          fifo_cfg(consts, ['TypeOK', 'OutIsPrefix', 'CalledOnce', 'EndOK'], ['OutAppendOnly'], modes=('sync',)),
          may_skip=('Next',))
    items = fifo_items(ck, 400 if thorough else 60, 8 if thorough else 5,
                       ['random', 'pct', 'starve_consumer', 'starve_workers', 'random'], allow_base=False)
    fifo_conformance(ck, 'fifo_stream+Parmapper(thread) under detsched', items)
    ck.assumptions += ['detsched preempts at synchronisation points only (not inside a source line)',
                       'thread executor only in this leg; process executor is covered by gated real runs (thorough)']
    ck.finish_rc = ck.finish(rule='L1: exhaustive TLC over the parameter grid folded into Init; L3: one trace per '
                             '(scenario, strategy, seed), validated by TLC against FifoStreamTrace')


def c08(ck, replay=None):
    thorough = ck.tier == 'thorough'
    consts = FIFO_CONSTS_THOROUGH if thorough else FIFO_CONSTS_QUICK
    ck.l1('FifoStream/bounds', 'FifoStream',
          fifo_cfg(consts, ['LookAhead', 'InFlightBound', 'QueueBound', 'ConcBound'], modes=('sync',)), may_skip=('Next',))
    items = fifo_items(ck, 400 if thorough else 60, 6 if thorough else 4,
                       ['starve_consumer', 'starve_workers', 'random', 'pct'], allow_base=False)
    fifo_conformance(ck, 'look-ahead/concurrency bounds under adversarial schedules', items)
    ck.finish_rc = ck.finish(rule='bounds are INVARIANTs of the trace spec, evaluated by TLC on every state of every '
                             'validated trace')
