"""C01, C05, C08, C16: FifoStream / BufferOp specs and their conformance legs."""
from __future__ import annotations

import random

from mbt import tlc
from mbt.bind import afifostream as AB
from mbt.bind import bufferop as BB
from mbt.bind import fifostream as FB

FIFO_CONSTS_QUICK = dict(MaxN=3, MaxCap=2, MaxConc=2, MaxFail=2)
FIFO_CONSTS_THOROUGH = dict(MaxN=4, MaxCap=3, MaxConc=2, MaxFail=2)


def fifo_cfg(consts, invariants, properties=(), modes=('sync',), forward_base=True, async_binds=True,
             spec='Spec', deadlock=True):
    c = dict(consts)
    c['Modes'] = set(modes)
    c['ForwardBase'] = forward_base
    c['AsyncPreFailBinds'] = async_binds
    return tlc.cfg_text(spec=spec, constants=c, invariants=invariants, properties=properties, deadlock=deadlock)


TRACE_CFG = tlc.cfg_text(
    spec='TraceSpec',
    constants=dict(MaxN=8, MaxCap=8, MaxConc=8, MaxFail=8, Modes={'sync', 'async'}, ForwardBase=True,
                   AsyncPreFailBinds=True),
    constraint='Progress', postcondition='Report', deadlock=False)


def fifo_items(ck, count, seeds_per, strategies, **kw):
    rnd = random.Random(ck.seed * 1000003 + 17)
    scs = FB.gen_scenarios(rnd, count, **kw)
    items = []
    k = 0
    for sc in scs:
        for s in range(seeds_per):
            k += 1
            items.append({'id': k, 'sc': sc, 'seed': rnd.randrange(1 << 30), 'strategy': strategies[s % len(strategies)]})
    return items


def fifo_sig(t, v):
    sc = t['sc']
    return {'variant': sc['variant'], 'mode': sc['mode']}


def fifo_conformance(ck, name, items):
    """L3: run the real code under detsched, validate every recorded trace with TLC; hangs are violations."""
    out = ck.run_binder('fifostream', items, timeout=900)
    ck.evaluations += int(out.get('n_exec', 0))
    for h in out.get('hangs', []):
        ck.violation({'leg': 'L3', 'name': name, 'kind': 'hang-or-crash', 'status': h['status'],
                      'detail': h.get('detail'), 'waitmap': h.get('waitmap'), 'exc': h.get('exc'),
                      'item': {'sc': h['sc'], 'seed': h['seed'], 'strategy': h['strategy']},
                      'events': h['ev'][-60:]},
                     sig={'leg': 'L3', 'kind': 'hang', 'status': h['status'], 'variant': h['sc']['variant'],
                          'srcbase': h['sc']['srcbase'], 'exc': (h.get('exc') or '')[:60]})
    ck.validate(name, 'FifoStreamTrace', TRACE_CFG, out.get('traces', []), sig_of=fifo_sig)
    return out


def c01(ck, replay=None):
    thorough = ck.tier == 'thorough'
    consts = FIFO_CONSTS_THOROUGH if thorough else FIFO_CONSTS_QUICK
    ck.l1('FifoStream/sync', 'FifoStream',
          fifo_cfg(consts, ['TypeOK', 'OutIsPrefix', 'CalledOnce', 'EndOK'], ['OutAppendOnly'], modes=('sync',)),
          may_skip=('Next',))
    items = fifo_items(ck, 400 if thorough else 60, 8 if thorough else 5,
                       ['random', 'pct', 'starve_consumer', 'starve_workers', 'random'], allow_base=False)
    fifo_conformance(ck, 'fifo_stream+Parmapper(thread) under detsched', items)
    ck.assumptions += ['detsched preempts at synchronisation points only (not inside a source line)',
                       'thread executor only in this leg; process executor is covered by gated real runs (thorough)']
    ck.finish_rc = ck.finish(rule='L1: exhaustive TLC over the parameter grid folded into Init; L3: one trace per '
                             '(scenario, strategy, seed), validated by TLC against FifoStreamTrace')


def c08(ck, replay=None):
    thorough = ck.tier == 'thorough'
    consts = FIFO_CONSTS_THOROUGH if thorough else FIFO_CONSTS_QUICK
    ck.l1('FifoStream/bounds', 'FifoStream',
          fifo_cfg(consts, ['LookAhead', 'InFlightBound', 'QueueBound', 'ConcBound'], modes=('sync',)), may_skip=('Next',))
    items = fifo_items(ck, 400 if thorough else 60, 6 if thorough else 4,
                       ['starve_consumer', 'starve_workers', 'random', 'pct'], allow_base=False)
    fifo_conformance(ck, 'look-ahead/concurrency bounds under adversarial schedules', items)
    ck.finish_rc = ck.finish(rule='bounds are INVARIANTs of the trace spec, evaluated by TLC on every state of every '
                             'validated trace')


# ---------------------------------------------------------------------------------------------------------------
# BufferOp

def buffer_cfg(max_n, max_size, invariants=(), properties=(), drain=True, forward=True, spec='Spec', deadlock=True):
    return tlc.cfg_text(spec=spec, constants=dict(MaxN=max_n, MaxSize=max_size, DrainUntilJoined=drain,
                                                  ForwardBase=forward),
                        invariants=invariants, properties=properties, deadlock=deadlock)


BUFFER_TRACE_CFG = tlc.cfg_text(spec='TraceSpec', constants=dict(MaxN=8, MaxSize=8, DrainUntilJoined=True,
                                                                   ForwardBase=True),
                                constraint='Progress', postcondition='Report', deadlock=False)


def buffer_items(ck, count, seeds_per, strategies, **kw):
    rnd = random.Random(ck.seed * 1000003 + 29)
    scs = BB.gen_scenarios(rnd, count, **kw)
    items, k = [], 0
    for sc in scs:
        for s in range(seeds_per):
            k += 1
            items.append({'id': k, 'sc': sc, 'seed': rnd.randrange(1 << 30), 'strategy': strategies[s % len(strategies)]})
    return items


def buffer_conformance(ck, name, items):
    out = ck.run_binder('bufferop', items, timeout=900)
    ck.evaluations += int(out.get('n_exec', 0))
    for h in out.get('hangs', []):
        ck.violation({'leg': 'L3', 'name': name, 'kind': 'hang-or-crash', 'status': h['status'],
                      'detail': h.get('detail'), 'waitmap': h.get('waitmap'), 'exc': h.get('exc'),
                      'item': {'sc': h['sc'], 'seed': h['seed'], 'strategy': h['strategy']}, 'events': h['ev'][-60:]},
                     sig={'leg': 'L3', 'kind': 'hang', 'status': h['status'], 'op': 'buffer/' + h['sc']['kind'],
                          'srcbase': h['sc']['srcbase'], 'exc': (h.get('exc') or '')[:60]})
    ck.validate(name, 'BufferOpTrace', BUFFER_TRACE_CFG, out.get('traces', []),
                sig_of=lambda t, v: {'op': 'buffer/' + t['sc']['kind']})
    return out


def c05(ck, replay=None):
    thorough = ck.tier == 'thorough'
    # --- design leg: no deadlock, clean end, no leak, and (under fairness) every iteration ends
    ck.l1('BufferOp/safety', 'BufferOp',
          buffer_cfg(5 if thorough else 4, 3, ['TypeOK', 'OutIsPrefix', 'EndOK', 'NoLeak']), may_skip=('Next',))
    ck.l1('BufferOp/liveness', 'BufferOp',
          buffer_cfg(3, 2, [], ['EventuallyClosed'], spec='FairSpec'), coverage=False)
    consts = FIFO_CONSTS_THOROUGH if thorough else FIFO_CONSTS_QUICK
    ck.l1('FifoStream/clean-end', 'FifoStream',
          fifo_cfg(consts, ['EndOK', 'NoFeederLeak', 'NoWorkLeak'], modes=('sync', 'async')), may_skip=('Next',))
    ck.l1('FifoStream/liveness', 'FifoStream',
          fifo_cfg(dict(MaxN=2, MaxCap=1, MaxConc=2, MaxFail=1), [], ['EventuallyClosed'], modes=('sync',),
                   spec='FairSpec'), coverage=False, timeout=1200)
    # --- the code as found must fail in the model (vacuity guard for the spec)
    ck.sensitive('Buffer: drain-once-then-join (D1)', 'BufferOp', buffer_cfg(3, 2, [], drain=False), 'deadlock')
    ck.sensitive('Buffer: StopRequested not forwarded (D2)', 'BufferOp', buffer_cfg(3, 2, [], forward=False), 'deadlock')
    ck.sensitive('fifo_stream: StopRequested not forwarded (D2)', 'FifoStream',
                 fifo_cfg(dict(MaxN=2, MaxCap=1, MaxConc=1, MaxFail=0), [], forward_base=False), 'deadlock')
    # --- conformance
    buffer_conformance(ck, 'Buffer/AsyncBuffer under detsched',
                       buffer_items(ck, 300 if thorough else 60, 8 if thorough else 5,
                                    ['random', 'pct', 'starve_consumer', 'starve_producer', 'random']))
    items = fifo_items(ck, 300 if thorough else 50, 6 if thorough else 4,
                       ['random', 'pct', 'starve_consumer', 'starve_workers'], allow_base=True)
    fifo_conformance(ck, 'fifo_stream/Parmapper early stop + failures under detsched', items)
    ck.assumptions += ['a hang is a deadlock/livelock detected by detsched (no runnable thread, no pending timer)',
                       'process executors and the SyncIter/AsyncIter adapters are covered by separate legs when built']
    ck.finish_rc = ck.finish(rule='every stop position / failure position of the scenario grid x schedule seeds; hang = '
                             'detected deadlock; traces validated by TLC incl. NoLeak/EndOK on every state')


# ---------------------------------------------------------------------------------------------------------------
# C16: async = sync

ASYNC_TRACE_CFG = TRACE_CFG.replace('MaxCap = 8', 'MaxCap = 256')


def outputs_of(t):
    ys = [(e['x'], e['y'], e['kind']) for e in t['ev'] if e['ev'] == 'Yield']
    end = [(e['k'], e['i']) for e in t['ev'] if e['ev'] == 'Closed']
    return ys, end


def c16(ck, replay=None):
    thorough = ck.tier == 'thorough'
    consts = FIFO_CONSTS_THOROUGH if thorough else FIFO_CONSTS_QUICK
    ck.l1('FifoStream/async', 'FifoStream',
          fifo_cfg(consts, ['TypeOK', 'OutIsPrefix', 'CalledOnce', 'EndOK'], ['OutAppendOnly'], modes=('async',)),
          may_skip=('Next',))
    ck.sensitive('async feeder enqueues stale/unbound task for a rejected element (D3)', 'FifoStream',
                 fifo_cfg(dict(MaxN=3, MaxCap=2, MaxConc=2, MaxFail=2), ['OutIsPrefix', 'EndOK'], modes=('async',),
                          async_binds=False), 'invariant')
    rnd = random.Random(ck.seed * 1000003 + 31)
    scs = AB.gen_scenarios(rnd, 250 if thorough else 50)
    seeds_per = 6 if thorough else 4
    a_items, s_items, k = [], [], 0
    for sc in scs:
        for j in range(seeds_per):
            k += 1
            a_items.append({'id': k, 'sc': sc, 'seed': rnd.randrange(1 << 30)})
            ssc = dict(sc, mode='sync', variant='fifo', conc=1 + (k % 3))
            s_items.append({'id': k, 'sc': ssc, 'seed': rnd.randrange(1 << 30),
                            'strategy': ['random', 'pct', 'starve_workers'][j % 3]})
    aout = ck.run_binder('afifostream', a_items, timeout=900)
    sout = ck.run_binder('fifostream', s_items, timeout=900)
    ck.evaluations += int(aout.get('n_exec', 0)) + int(sout.get('n_exec', 0))
    for who, out in (('async', aout), ('sync', sout)):
        for h in out.get('hangs', []):
            ck.violation({'leg': 'L3', 'kind': 'hang-or-crash', 'flavour': who, 'status': h['status'],
                          'detail': h.get('detail'), 'exc': h.get('exc'), 'waitmap': h.get('waitmap'),
                          'item': {'sc': h['sc'], 'seed': h['seed']}, 'events': h['ev'][-60:]},
                         sig={'leg': 'L3', 'kind': 'hang', 'flavour': who, 'exc': (h.get('exc') or '')[:40]})
    ck.validate('async_fifo_stream / AsyncParmapperAsync on a virtual-time loop', 'FifoStreamTrace', ASYNC_TRACE_CFG,
                aout.get('traces', []), sig_of=fifo_sig)
    ck.validate('fifo_stream on the same scenarios', 'FifoStreamTrace', TRACE_CFG, sout.get('traces', []),
                sig_of=fifo_sig)
    # direct comparison of the two flavours on identical scenarios (both have been validated against the same spec)
    sync_by = {t['id']: t for t in sout.get('traces', [])}
    ncmp = 0
    for t in aout.get('traces', []):
        u = sync_by.get(t['id'])
        if u is None:
            continue
        ncmp += 1
        if outputs_of(t) != outputs_of(u):
            ck.violation({'leg': 'L3', 'kind': 'async-differs-from-sync', 'async': outputs_of(t), 'sync': outputs_of(u),
                          'item': {'sc': t['sc'], 'seed': t['seed']}, 'events': t['ev']},
                         sig={'leg': 'L3', 'kind': 'async-differs-from-sync', 'variant': t['sc']['variant']})
    ck.legs.append({'leg': 'L3', 'name': 'async vs sync outputs compared', 'pairs': ncmp})
    ck.notes.append('AsyncServer.call/stream vs Server.call/stream is decided by the ServerCore legs (C02/C06), which run both '
                    'flavours against the same specification')
    ck.finish_rc = ck.finish(rule='per scenario: per-call virtual durations -> completion order; async and sync flavour run '
                             'on the same scenario, both validated by TLC against FifoStream, outputs compared')
