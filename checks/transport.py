"""C15 (RemoteExc spec, replay of every enumerated behaviour into the real pickling code) and
C18 (SocketMux / FifoPipe specs, TLC validation of traces recorded from a real SocketServer/SocketClient and real named pipes)."""
from __future__ import annotations

import collections
import json
import random

from mbt import tlc
from mbt.bind import remoteexc as RB
from mbt.framework import Machinery

# ---------------------------------------------------------------------------------------------------------------
# C15

RX_INV = ['TypeOK', 'ClassArgsKept', 'RemoteAfterHop', 'OriginInText', 'ContainsOriginal', 'NestedWrappable']
RX_PROPS = ['ForwardKeepsText', 'HopKeepsShape']


def rx_cfg(max_steps=0, max_raise=4, max_nest=2, wrap_every_hop=True, reuse=True, fmt_cause=True, invariants=RX_INV,
           properties=RX_PROPS, view='NoHistView'):
    return tlc.cfg_text(constants=dict(MaxRaise=max_raise, MaxNest=max_nest, MaxSteps=max_steps,
                                       WrapEveryHop=wrap_every_hop, ReuseRemoteText=reuse,
                                       FormatIncludesCause=fmt_cause),
                        invariants=invariants, properties=properties, deadlock=False, view=view)


def rx_enumerate(ck, name, max_steps, invariants=tuple(RX_INV), **kw):
    """All behaviours of RemoteExc with at most `max_steps` actions, as printed by TLC (the history is part of the state,
    so every behaviour prefix is one distinct state).  -> list of maximal behaviours [[name, k, lv, refused], ...]"""
    res = tlc.run_tlc('RemoteExc', rx_cfg(max_steps=max_steps, invariants=list(invariants) + ['Emit'], view=None, **kw),
                      workers=1, timeout=900)
    ck.legs.append({'leg': 'L2-enumerate', 'name': name, **res.summary()})
    if not res.ok:
        raise Machinery(f'{name}: TLC enumeration failed: {res.violation}\n{res.stdout[-1500:]}')
    states = {}
    for val in tlc._find_tuples(res.stdout, 'ST'):
        hist, lv, refused = tlc.to_py(val[1]), tlc.to_py(val[2]), val[3]
        states[tuple((h['name'], h['k']) for h in hist)] = (lv, refused)
    if len(states) != res.distinct:
        raise Machinery(f'{name}: parsed {len(states)} states, TLC reports {res.distinct}')
    prefixes = {h[:-1] for h in states if h}
    behs = []
    for h in sorted(states):
        if h and h not in prefixes:
            behs.append([[h[i][0], h[i][1], states[h[:i + 1]][0], states[h[:i + 1]][1]] for i in range(len(h))])
    ck.states += res.distinct
    ck.transitions += res.generated
    return behs


def c15(ck, replay=None):
    thorough = ck.tier == 'thorough'
    rnd = random.Random(ck.seed * 1000003 + 151)
    if replay is not None:
        d = replay['detail']
        out = ck.run_binder('remoteexc', [dict(d['item'], beh=0)], extra={'detsched': False, 'behs': [d['beh']]})
        print(json.dumps(out.get('divergences') or out.get('hangs') or 'conforms', indent=1)[:6000])
        return 1 if out.get('divergences') or out.get('hangs') else 0

    # L1: the whole (finite) state space: any number of hops, raise sites <= 4 (5), nesting <= 2
    ck.l1('RemoteExc/all behaviours', 'RemoteExc', rx_cfg(max_raise=5 if thorough else 4), workers=4,
          may_skip=('BareHop',))
    ck.l1('RemoteExc/with bare hops: shape only', 'RemoteExc',
          rx_cfg(wrap_every_hop=False, invariants=['TypeOK', 'ClassArgsKept'], properties=['HopKeepsShape']), workers=4)
    ck.sensitive('an exception pickled without RemoteException loses its remote traceback', 'RemoteExc',
                 rx_cfg(wrap_every_hop=False, invariants=['RemoteAfterHop'], properties=[]), 'invariant', 'RemoteAfterHop',
                 workers=1)
    ck.sensitive('wrapping a forwarded exception without reusing the remote text', 'RemoteExc',
                 rx_cfg(reuse=False, invariants=['RemoteAfterHop'], properties=[]), 'invariant', 'RemoteAfterHop',
                 workers=1)
    ck.sensitive('second hop after a re-raise drops the first text unless the cause is formatted', 'RemoteExc',
                 rx_cfg(fmt_cause=False, invariants=['ContainsOriginal'], properties=[]), 'invariant', 'ContainsOriginal',
                 workers=1)

    # L2: EVERY behaviour up to the bound, replayed into the real code for every class of the catalogue
    behs = rx_enumerate(ck, 'documented protocol', 8 if thorough else 6)
    bare = rx_enumerate(ck, 'with bare hops', 6 if thorough else 4, invariants=('TypeOK', 'ClassArgsKept'), properties=['HopKeepsShape'],
                        wrap_every_hop=False)
    bare = [b for b in bare if any(a[0] == 'BareHop' for a in b)]
    nb = len(behs)
    allb = behs + bare
    items = []
    # (a class whose own __reduce__ carries __cause__ keeps a remote traceback even through a BARE hop - better than the
    # default pickling the spec's BareHop models - so it takes part in the documented protocol only)
    NOT_BARE = {'keepcause'}
    for bi, b in enumerate(allb):
        for ci, key in enumerate(RB.CATALOGUE):
            if bi >= nb and key in NOT_BARE:
                continue
            depths = (1, 5) if thorough else ((1, 5)[(bi + ci) % 2],)
            for depth in depths:
                items.append({'beh': bi, 'key': key, 'seed': rnd.randrange(1 << 30), 'depth': depth, 'mode': 'pickle'})
    rnd.shuffle(items)
    rx_replay(ck, 'pickle in process', items, allb)
    # ... across a real process boundary: the object lives alternately in two processes
    pitems = []
    for bi, b in enumerate(allb):
        keys = RB.CATALOGUE if thorough else [RB.CATALOGUE[(bi + j * 7 + ck.seed) % len(RB.CATALOGUE)] for j in range(2)]
        for key in keys:
            if bi >= nb and key in NOT_BARE:
                continue
            pitems.append({'beh': bi, 'key': key, 'seed': rnd.randrange(1 << 30), 'depth': rnd.choice((1, 5)),
                           'mode': 'proc'})
    rnd.shuffle(pitems)
    rx_replay(ck, 'across two processes', pitems, allb)
    # ... and with the first hop made by the library (exception raised by the target of an mpservice Process)
    libb = [bi for bi, b in enumerate(behs) if [a[0] for a in b[:3]] == ['Raise', 'Wrap', 'Hop']]
    litems = []
    for ci, key in enumerate(RB.CATALOGUE if thorough else rnd.sample(RB.CATALOGUE, 6)):
        for j in range(3 if thorough else 1):
            litems.append({'beh': rnd.choice(libb), 'key': key, 'seed': rnd.randrange(1 << 30),
                           'depth': (1, 5)[(ci + j) % 2], 'mode': 'lib'})
    rx_replay(ck, 'first hop by mpservice Process', litems, allb)
    ck.sample({'kind': 'replayed_behaviour', 'hist': [[a, k] for a, k, _, _ in behs[len(behs) // 2]],
               'final_spec_state': behs[len(behs) // 2][-1][2]})
    ck.notes.append(f'{nb} maximal behaviours of the documented protocol + {len(bare)} with a bare hop; catalogue: '
                    + ', '.join(RB.CATALOGUE))
    ck.notes.append('observation (not part of C15): EnsembleError.args[0] is re-computed on unpickling and changes from '
                    '"first error: RemoteException(X)" to "first error: X"; members, positions and n are preserved')
    ck.assumptions += ['the classes quantifier is a catalogue (%d entries x traceback depths 1/5 x seeded arguments); pickle '
                       'bytes are exercised, not modelled' % len(RB.CATALOGUE),
                       'a traceback text is abstracted to the sequence of raise sites it shows; the real texts are also '
                       'compared as strings (containment of the first text, equality under Forward)']
    ck.finish_rc = ck.finish(rule='every behaviour of RemoteExc up to the step bound x every catalogue class is replayed; after '
                             'each action class, args, extra state, is_remote_exception, sites of live/remote/wrapper text '
                             'and nesting must equal the TLC state')


def re_sig(what):
    w = what[0] if what else ''
    return w.split(':')[1].strip()[:40] if ':' in w else w[:40]


def rx_replay(ck, name, items, allb):
    """Run the replays; a job that got stuck hands its remaining items back (re-run in fresh processes); a replay that
    exceeded its generous bound is re-tried 3 times in fresh processes before it counts as a hang."""
    extra = {'detsched': False, 'behs': allb}
    todo, done, steps, divs, hung = list(items), 0, 0, [], []
    for _ in range(4):
        if not todo:
            break
        o = ck.run_binder('remoteexc', todo, extra=extra, timeout=900)
        done += int(o.get('n_replays', 0))
        steps += int(o.get('n_steps', 0))
        divs += o.get('divergences', [])
        hung += o.get('hangs', [])
        todo = o.get('unrun', [])
    if done + len(hung) < len(items) and not divs:
        raise Machinery(f'C15 {name}: {done} replays for {len(items)} items')
    ck.replays += done
    ck.evaluations += steps
    ck.legs.append({'leg': 'L2', 'name': name, 'replays': done, 'steps': steps, 'divergences': len(divs), 'hangs': len(hung)})
    for d in divs:
        ck.violation({'leg': 'L2', 'name': name, 'item': d['item'], 'hist': d['hist'], 'step': d['step'],
                      'action': d['action'], 'what': d['what'], 'spec': d.get('spec'), 'real': d.get('real'),
                      'beh': allb[d['item']['beh']]},
                     sig={'leg': 'L2', 'kind': d['kind'], 'key': d['item']['key'], 'action': d['action'].split('(')[0],
                          'what': re_sig(d['what'])})
    for h in hung[:5]:
        o = ck.run_binder('remoteexc', [dict(h['item'])] * 3, extra=dict(extra, stuck_after=90), per_job=1, timeout=600)
        again = len(o.get('hangs', []))
        if again == 3:
            ck.violation({'leg': 'L2', 'name': name, 'kind': 'hang', 'item': h['item'], 'hist': h['hist'],
                          'what': h['what'], 'beh': allb[h['item']['beh']]},
                         sig={'leg': 'L2', 'kind': 'hang', 'key': h['item']['key']})
        else:
            ck.notes.append(f'slow replay, not reproduced 3x in fresh processes ({again}/3): {h["item"]}')


# ---------------------------------------------------------------------------------------------------------------
# C18

SM_INV = ['TypeOK', 'RightRequest', 'AtMostOnce', 'ClientAlive', 'ReturnedResolved', 'StreamOrder', 'InProgressBound']
FP_INV = ['TypeOK', 'FifoPrefix', 'Intact', 'ChannelShape']


def sm_cfg(params, invariants=SM_INV, properties=(), uniq=True, loop=True, regfirst=False, inorder=True, rechecks=False,
           spec='Spec', view='NoActView', deadlock=True):
    return tlc.cfg_text(spec=spec, constants=dict(Params='<- ' + params, UniqueLiveIds=uniq, LoopOrder=loop,
                                                  RegisterFirst=regfirst, StreamInOrder=inorder, PutRechecks=rechecks),
                        invariants=invariants, properties=properties, deadlock=deadlock, view=view)


SM_TRACE_CFG = tlc.cfg_text(spec='TraceSpec', constants=dict(Params=set(), UniqueLiveIds=True, LoopOrder=True,
                                                             RegisterFirst=False, StreamInOrder=True, PutRechecks=False),
                            constraint='Progress', postcondition='Report', deadlock=False)


def fp_cfg(params, invariants=FP_INV, properties=(), spec='Spec', deadlock=True, eager=False):
    return tlc.cfg_text(spec=spec, constants=dict(Params='<- ' + params, EagerReader=eager), invariants=invariants,
                        properties=properties, deadlock=deadlock, view='NoActView')


FP_TRACE_CFG = tlc.cfg_text(spec='TraceSpec', constants=dict(Params=set(), EagerReader=False), constraint='Progress',
                            postcondition='Report', deadlock=False)


def transport_conformance(ck, name, scenarios):
    """Run the scenarios on the real transports (fresh runner processes), validate every recorded trace with TLC.
    A scenario that exceeds its generous wall-clock bound is re-tried 3 times in fresh processes before it counts."""
    from mbt.bind import socketmux as SB
    items = [{'id': k + 1, 'sc': sc} for k, sc in enumerate(scenarios)]
    todo, traces, hung, errors, n_exec = list(items), [], [], [], 0
    for _ in range(8):
        if not todo or len(hung) >= 3 or sum(1 for t in traces if t['status'] == 'crash') >= 3:
            break
        o = ck.run_binder('socketmux', todo, extra={'detsched': False}, timeout=int(SB.SCENARIO_BOUND * 3 + 600),
                          per_job=max(4, len(todo) // 16 + 1) if len(todo) > 16 else None)
        n_exec += int(o.get('n_exec', 0))
        traces += o.get('traces', [])
        hung += o.get('hangs', [])
        errors += o.get('errors', [])
        todo = o.get('unrun', [])
    crashed = [t for t in traces if t['status'] == 'crash']
    if todo and not hung and not crashed:
        raise Machinery(f'C18 {name}: {len(todo)} scenarios could not be run')
    if todo:
        ck.notes.append(f'{len(todo)} scenarios not run after {len(hung)} hangs / {len(crashed)} crashes')
    if errors:
        raise Machinery(f'C18 {name}: harness error: {json.dumps(errors[0])[:3000]}')
    ck.evaluations += n_exec
    for h in hung[:2]:
        # a scenario that exceeded its generous bound counts only if it does so 3 times more, in fresh processes
        o = ck.run_binder('socketmux', [{'id': h['id'], 'sc': h['sc']}] * 3, extra={'detsched': False}, per_job=1,
                          timeout=int(SB.SCENARIO_BOUND * 2 + 120))
        again = len(o.get('hangs', []))
        traces += [t for t in o.get('traces', []) if t['status'] == 'crash']
        if again == 3:
            ck.violation({'leg': 'L3', 'name': name, 'kind': 'hang', 'sc': h['sc'], 'detail': h['detail'],
                          'events': h['ev'][-120:]},
                         sig={'leg': 'L3', 'kind': 'hang', 'transport': h['kind']})
        else:
            ck.notes.append(f'scenario exceeded its bound once, reproduced {again}/3 in fresh processes: {h["sc"]}')
    sock = [t for t in traces if t['kind'] == 'socket']
    pipe = [t for t in traces if t['kind'] == 'pipe']

    def sig_sock(t, v):
        return {'transport': 'socket', 'failed': tlc_failed(v), 'stall': (t['sc'].get('stall') or {}).get('kind', 'none')}

    ck.validate(name + ' / socket', 'SocketMuxTrace', SM_TRACE_CFG, sock, sig_of=sig_sock, chunk=60)
    ck.validate(name + ' / pipe', 'FifoPipeTrace', FP_TRACE_CFG, pipe,
                sig_of=lambda t, v: {'transport': 'pipe', 'failed': tlc_failed(v)}, chunk=100)
    return traces


def tlc_failed(v):
    try:
        return json.loads(v['last'])[-1]
    except Exception:  # noqa: BLE001
        return 'none'


def c18(ck, replay=None):
    from mbt.bind import socketmux as SB
    thorough = ck.tier == 'thorough'
    rnd = random.Random(ck.seed * 1000003 + 181)
    if replay is not None:
        d = replay['detail']
        sc = d.get('sc') or d['item']['sc']
        o = ck.run_binder('socketmux', [{'id': 1, 'sc': sc}], extra={'detsched': False}, timeout=600)
        trs = o.get('traces', [])
        print(json.dumps({'hangs': len(o.get('hangs', [])), 'events': trs[0]['ev'] if trs else None,
                          'problems': trs[0]['problems'] if trs else None})[:6000])
        ck2 = type(ck)(ck.pid, ck.tier, ck.seed)
        if trs:
            ck2.validate('replay', 'SocketMuxTrace' if sc['kind'] == 'socket' else 'FifoPipeTrace',
                         SM_TRACE_CFG if sc['kind'] == 'socket' else FP_TRACE_CFG, trs)
        print('rejected' if ck2.violations else 'accepted')
        return 1 if ck2.violations or o.get('hangs') else 0

    # L1: the multiplexing protocol, exhaustively (independent small runs side by side)
    from concurrent.futures import ThreadPoolExecutor
    small = [
        lambda: ck.l1('SocketMux/every request is answered (liveness)', 'SocketMuxMC',
                      sm_cfg('Live3' if thorough else 'Live2', [], ['AllAnswered'], spec='FairSpec'), coverage=False,
                      timeout=2400, workers=4, heap='2g'),
        lambda: ck.l1('SocketMux/register-before-write needs no event-loop assumption', 'SocketMuxMC',
                      sm_cfg('Small2', regfirst=True, loop=False), may_skip=('Next',), workers=4, heap='2g'),
        lambda: ck.sensitive('request ids not unique among waiting futures', 'SocketMuxMC',
                             sm_cfg('Small2', ['RightRequest'], uniq=False), 'invariant', 'RightRequest', workers=4, heap='2g'),
        lambda: ck.sensitive('response dispatched before the sender registered the future (no event-loop ordering)',
                             'SocketMuxMC', sm_cfg('Small2', ['ClientAlive'], loop=False), 'invariant', 'ClientAlive',
                             workers=4, heap='2g'),
        lambda: ck.sensitive('stream yields as completed instead of in input order', 'SocketMuxMC',
                             sm_cfg('Small2', ['StreamOrder'], inorder=False), 'invariant', 'StreamOrder', workers=4, heap='2g'),
        # deviation outside C18: SingleLane.put does not re-test after being woken; with several requester threads the
        # client's pending queue exceeds `backlog` (nothing is lost or reordered: every C18 invariant holds for this
        # as-found variant in the runs above)
        lambda: ck.sensitive('pending queue exceeds its bound with several requester threads (as found; not a C18 clause)',
                             'SocketMuxMC', sm_cfg('Over3', ['PendingBound']), 'invariant', 'PendingBound', workers=2, heap='2g'),
        lambda: ck.l1('SocketMux/put re-tests after wake-up: bound kept', 'SocketMuxMC',
                      sm_cfg('Over3', SM_INV + ['PendingBound'], rechecks=True), may_skip=('Next', 'Yield'), workers=4, heap='2g'),
        lambda: ck.l1('FifoPipe/threads per end', 'FifoPipeMC', fp_cfg('Threads'), workers=4, heap='2g',
                      may_skip=('Next', 'Exit')),
        # lemma outside C18 (process lifetimes, not order / intactness): see the note below
        lambda: ck.sensitive('pipe: read end opened only by the first recv(): a sender that exits earlier takes its data along '
                             '(as found; lemma, not a C18 clause)', 'FifoPipeMC',
                             fp_cfg('SendAndExit', ['NoLoss'], deadlock=False), 'invariant', 'NoLoss', workers=1, heap='2g'),
        lambda: ck.l1('FifoPipe/read end held from construction: nothing lost', 'FifoPipeMC',
                      fp_cfg('SendAndExit', FP_INV + ['NoLoss'], ['AllArrive'], spec='FairSpec', eager=True), workers=2,
                      heap='2g', coverage=False),
        lambda: ck.l1('FifoPipe/all messages arrive (liveness)', 'FifoPipeMC',
                      fp_cfg('Threads', [], ['AllArrive'], spec='FairSpec'), workers=4, heap='2g', coverage=False),
        lambda: ck.l1('FifoPipe/one thread per end, everything fits', 'FifoPipeMC',
                      fp_cfg('SeqFits', FP_INV, ['AllArrive'], spec='FairSpec'), workers=2, heap='2g', coverage=False),
        lambda: ck.sensitive('usage hazard: both ends send more than the pipe holds before receiving', 'FifoPipeMC',
                             fp_cfg('SeqBig'), 'deadlock', workers=1, heap='2g'),
    ]
    traps = ('Trap_ResponseBeforeRegister', 'Trap_IdReused', 'Trap_HeadBlocksFinished', 'Trap_BacklogFull')
    for t in (traps if thorough else traps[:2]):
        small.append(lambda t=t: ck.trap(t, 'SocketMuxMC', sm_cfg('Quick3', [t]), workers=4))
    big = None
    bigex = ThreadPoolExecutor(max_workers=1)
    if thorough:
        # the largest run (7e6 states) goes on beside everything else, the conformance leg included
        big = bigex.submit(lambda: ck.l1('SocketMux/4 requests, two connections, two of them streamed', 'SocketMuxMC',
                                         sm_cfg('Thor4a'), may_skip=('Next',), timeout=3000, workers=8))
    with ThreadPoolExecutor(max_workers=4) as ex:
        futs = [ex.submit(f) for f in small]
        ck.l1('SocketMux/3 requests, K x backlog x pending grid', 'SocketMuxMC', sm_cfg('Grid3' if thorough else 'Quick3'),
              may_skip=('Next',), workers=8)
        for f in futs:
            f.result()
    if thorough:
        ck.l1('SocketMux/4 requests streamed over one connection', 'SocketMuxMC', sm_cfg('Thor4s'),
              may_skip=('Next', 'Return', 'Block', 'InsertWoken'), timeout=2400, workers=4)

    # L3: the real transports
    scs = SB.gen_socket_scenarios(rnd, 400 if thorough else 64, max_r=6, random_payload=thorough)
    scs += SB.gen_pipe_scenarios(rnd, 120 if thorough else 24)
    # multi-MB records in flight (both directions) while the server's or the client's event loop stands still for 0.3 s
    scs += SB.gen_stall_scenarios(rnd, 5 if thorough else 1)
    rnd.shuffle(scs)
    scs.append({'kind': 'pipe_exit', 'n': 2, 'wait': 6})
    traces = transport_conformance(ck, 'real SocketServer/SocketClient over a unix socket; real named pipes between two processes', scs)
    if big is not None:
        big.result()
    bigex.shutdown()
    stalls = [t for t in traces if t['kind'] == 'socket' and t['sc'].get('stall')]
    fired = collections.Counter(t['sc']['stall']['kind'] for t in stalls if t.get('stall_fired'))
    ck.notes.append(f'stall scenarios (a loop blocked 0.3 s while a 3 MiB record is half way): {len(stalls)} run, stall injected: '
                    f'{dict(fired)}')
    if stalls and len(fired) < 4:
        raise Machinery(f'C18: stall not injected for every kind: {dict(fired)}')
    n_re = sum(1 for t in traces if t['kind'] == 'socket' and reordered(t))
    ck.notes.append(f'{n_re} socket traces in which responses were due out of request order on some connection')
    if n_re == 0:
        raise Machinery('C18: no trace with reordered handler completions - gating ineffective')
    ck.notes.append('observation (not part of C18): up to backlog + 2 handler calls per connection are in progress at once '
                    '(the docstring of SocketServer says backlog): one task waits to be admitted to the queue, one has been '
                    'taken out by the responder')
    for t in traces:
        if t['kind'] == 'pipe_exit':
            ck.notes.append('observation (lifetime lemma NoLoss, outside the clauses of C18): mpservice.pipe opens its read end only '
                            'inside the first recv(); a peer that sends and exits before that takes its objects along. Real code, '
                            f'receiver constructed first, sender sends {t["detail"]["sent"]} small objects and exits: '
                            f'received {t["detail"]["received"]}, recv() still blocked after {t["sc"]["wait"]} s: '
                            f'{t["detail"]["recv_blocked"]}')
            ck.legs.append({'leg': 'observation', 'name': 'pipe sender exits before the first recv()', **t['detail']})
    ck.assumptions += ['byte framing (readuntil / readexactly across read boundaries) is exercised by the payload catalogue '
                       '(empty, newline-rich, header-like, 3 MiB, nested; thorough: seeded hypothesis payloads), not modelled',
                       'LoopOrder: asyncio runs a callback scheduled by call_soon before I/O callbacks of later select() calls '
                       '(the client registers a future only after `await write_record`)',
                       'pipe capacity is environment: traces are validated against an unbounded channel; blocking / partial '
                       'writes are covered by L1 and exercised by messages larger than the 64 KiB pipe buffer']
    ck.finish_rc = ck.finish(rule='every request/response pair of every scenario is logged and matched by TLC against SocketMux; '
                             'the caller-side value is compared with H(payload) computed locally, the handler-side payload with '
                             'what was sent; pipe: every recv is compared with the object generated for that position')


def reordered(t):
    """some handler finished before one that was received earlier on the same connection"""
    conn, recv, fin = {}, [], []
    for e in t['ev']:
        if e['ev'] == 'Write':
            conn[e['r']] = e['c']
        elif e['ev'] == 'SRecv':
            recv.append(e['r'])
        elif e['ev'] == 'HFin':
            fin.append(e['r'])
    for i, a in enumerate(fin):
        for b in fin[i + 1:]:
            if conn.get(a) == conn.get(b) and a in recv and b in recv and recv.index(b) < recv.index(a):
                return True
    return False
