"""C09: BatchWorker spec and its conformance leg (exact virtual time)."""
from __future__ import annotations

import collections
import random

from mbt import tlc
from mbt.bind import batchworker as BB

INV = ['WellFormed', 'AtMostOnce', 'ExactlyOnceAtEnd', 'Timely', 'Immediate', 'WaitsOnlyWhenFull', 'LockHolderCanMove']
ALL_KINDS = ('ok', 'exc', 'pre')


def bw_cfg(nw, max_items, bs, ws, invariants=(), properties=(), spec='Spec', deadlock=True, max_gap=2, *, kinds=ALL_KINDS,
           extra=10, slow=((),), dur=0, wait_room=True, room_locked=True, **kw):
    return tlc.cfg_text(spec=spec, constants=dict(NW=nw, MaxItems=max_items, MaxT=24, Bs=set(bs), Ws=set(ws),
                                                  MaxGap=max_gap, Kinds=set(kinds), Extra=extra,
                                                  SlowSets={frozenset(x) for x in slow}, SlowDur=dur,
                                                  WaitRoomBeforeLock=wait_room, RoomCheckUnderLock=room_locked),
                        invariants=invariants, properties=properties, deadlock=deadlock, **kw)


def flood_cfg(nw, invariants=INV, ws=(0, 1), **kw):
    """a buffer that holds batch_size + 1 elements, up to 5 requests at once, the first call slow or not: the collector has
    to wait for room"""
    return bw_cfg(nw, 5, {2}, set(ws), invariants, max_gap=0, kinds=('ok',), extra=1, slow=((), (1,)), dur=3, **kw)


def c09(ck, replay=None):
    thorough = ck.tier == 'thorough'
    ck.l1('BatchWorker/1 worker', 'BatchWorker', bw_cfg(1, 4 if thorough else 3, {0, 1, 2, 3}, {0, 1, 2}, INV),
          may_skip=('Next', 'CToWait'), timeout=2400)
    ck.l1('BatchWorker/2 competing workers', 'BatchWorker', bw_cfg(2, 3, {2, 3} if thorough else {2}, {0, 1}, INV),
          may_skip=('Next', 'SGet', 'CToWait'), timeout=2400)
    ck.l1('BatchWorker/2 single-mode workers', 'BatchWorker', bw_cfg(2, 3, {0, 1}, {0}, INV),
          may_skip=('Next', 'CTop', 'CToWait', 'GReturn', 'CLock', 'CGet', 'CProc', 'CMore', 'CDecide', 'GFirst', 'GMore', 'GClose', 'GSetFlag', 'GCall'))
    ck.l1('BatchWorker/liveness', 'BatchWorker', bw_cfg(1, 2, {0, 2}, {0, 1}, [], ['Finishes'], spec='FairSpec'),
          coverage=False)
    # the batch buffer fills up: the collector waits for room (small buffer: batch_size + 1)
    ck.l1('BatchWorker/full buffer, 1 worker', 'BatchWorker', flood_cfg(1), may_skip=('Next', 'SGet', 'CToWait'))
    ck.l1('BatchWorker/full buffer, 2 competing workers', 'BatchWorker', flood_cfg(2), may_skip=('Next', 'SGet', 'CToWait'),
          coverage=False, timeout=2400)
    ck.l1('BatchWorker/full buffer, liveness', 'BatchWorker',
          bw_cfg(1, 4, {2}, {0, 1}, [], ['Finishes'], spec='FairSpec', max_gap=0, kinds=('ok',), extra=1, slow=((), (1,)),
                 dur=3), coverage=False)
    ck.sensitive('`if buffer.full():` tested without the buffer\'s mutex, then `with _not_full: wait()`: a collector that waits '
                 'next to a buffer with room - for ever once the buffer is empty (D26)', 'BatchWorker',
                 flood_cfg(1, ['WaitsOnlyWhenFull'], room_locked=False), 'invariant', 'WaitsOnlyWhenFull')
    ck.sensitive('the same design deadlocks: the end is never reached (D26)', 'BatchWorker',
                 flood_cfg(1, [], ws=(0,), room_locked=False), 'deadlock', 'Deadlock')
    ck.sensitive('a collector that takes the read lock without waiting for room blocks in buffer.put holding it', 'BatchWorker',
                 flood_cfg(2, ['LockHolderCanMove'], ws=(0,), wait_room=False), 'invariant', 'LockHolderCanMove')
    for goal in ('Trap_BufferFull', 'Trap_CollectorWaited'):
        ck.trap(goal, 'BatchWorker', flood_cfg(1, [goal], ws=(0,)))
    # vacuity guards: the interesting corners must be reachable in the model
    for goal in ('Trap_PartialByTimeout', 'Trap_FullBatch'):
        ck.trap(goal, 'BatchWorker', bw_cfg(1, 3, {2}, {1}, [goal]))
    ck.trap('Trap_TwoWorkersCalled', 'BatchWorker', bw_cfg(2, 3, {2}, {0}, ['Trap_TwoWorkersCalled']))
    rnd = random.Random(ck.seed * 1000003 + 61)
    scs = BB.gen_scenarios(rnd, 1000 if thorough else 60, max_items=6 if thorough else 5)
    floods = BB.flood_scenarios(rnd, 150 if thorough else 14)
    items, n = [], 0
    for sc in scs + floods:
        for j in range(8 if thorough else 5):
            n += 1
            items.append({'id': n, 'sc': sc, 'seed': rnd.randrange(1 << 30), 'strategy': ['random', 'pct'][j % 2]})
    # spec -> code: the schedule of the model's counterexample to the as-found room test (collector descheduled between
    # "the buffer is full" and the wait), on the flood scenarios
    for sc in floods:
        for j in range(4 if thorough else 2):
            n += 1
            items.append({'id': n, 'sc': sc, 'seed': rnd.randrange(1 << 30), 'strategy': 'adversary'})
    out = ck.run_binder('batchworker', items, timeout=1200)
    ck.evaluations += int(out.get('n_exec', 0))
    for h in out.get('hangs', []):
        ck.violation({'leg': 'L3', 'kind': 'hang-or-crash', 'status': h['status'], 'detail': h.get('detail'),
                      'waitmap': h.get('waitmap'), 'exc': h.get('exc'), 'thread_errors': h.get('thread_errors'),
                      'item': {'sc': h['sc'], 'seed': h['seed'], 'strategy': h['strategy']}, 'events': h['ev'][-80:]},
                     sig={'leg': 'L3', 'kind': 'hang', 'status': h['status'], 'b': h['sc']['b']})
    groups = collections.defaultdict(list)
    for t in out.get('traces', []):
        groups[t['nw']].append(t)
    ck.validate_groups('Worker batching loops under detsched (exact virtual time)', 'BatchWorkerTrace',
                       [(tlc.cfg_text(spec='TraceSpec',
                                      constants=dict(NW=nw, MaxItems=8, MaxT=400, Bs={0}, Ws={0}, MaxGap=3,
                                                     Kinds=set(ALL_KINDS), Extra=10, SlowSets={frozenset()}, SlowDur=0,
                                                     WaitRoomBeforeLock=True, RoomCheckUnderLock=True),
                                      constraint='Progress', postcondition='Report', deadlock=False), trs)
                        for nw, trs in sorted(groups.items())],
                       sig_of=lambda t, v: {'b': t['sc']['b'], 'nw': t['nw']})
    ck.assumptions += ['virtual time: every thread step is instantaneous, the clock moves only when nothing can run '
                       '(so the wait bound is checked exactly, not with tolerances)',
                       'thread workers over _SimpleThreadQueue; process workers share the same Worker code']
    from checks.extras import singlelane_component
    singlelane_component(ck)
    ck.finish_rc = ck.finish(rule='arrival schedules (gaps 0..3 ticks, genuine / exception value / preprocess-rejected) x '
                             'batch_size 0..3 x batch_wait_time 0..3 ticks x 1-2 competing workers x schedule seeds')
