"""C10: Tee spec and its conformance leg (detsched line mode on _tee.py)."""
from __future__ import annotations

import collections
import random

from mbt import tlc
from mbt.bind import tee as TB

INV = ['TypeOK', 'ForkPrefix', 'EndAgree', 'Window', 'BufBound', 'LockSane']


def tee_cfg(nf, max_n, max_b, invariants=(), properties=(), first_timed=True, release=True, publish=True, spec='Spec',
            deadlock=True):
    return tlc.cfg_text(spec=spec, constants=dict(NF=nf, MaxN=max_n, MaxB=max_b, FirstTimed=first_timed,
                                                  ReleaseOnRaise=release, PublishSourceError=publish),
                        invariants=invariants, properties=properties, deadlock=deadlock)


def trace_cfg(nf):
    return tlc.cfg_text(spec='TraceSpec', constants=dict(NF=nf, MaxN=8, MaxB=8, FirstTimed=True, ReleaseOnRaise=True,
                                                         PublishSourceError=True),
                        constraint='Progress', postcondition='Report', deadlock=False)


def c10(ck, replay=None):
    thorough = ck.tier == 'thorough'
    ck.l1('Tee/2 forks', 'Tee', tee_cfg(2, 6 if thorough else 5, 4, INV), may_skip=('Next',))
    ck.l1('Tee/3 forks', 'Tee', tee_cfg(3, 5 if thorough else 4, 4 if thorough else 3, INV), may_skip=('Next',))
    ck.l1('Tee/liveness 2 forks', 'Tee', tee_cfg(2, 4, 3, [], ['AllEnd'], spec='FairSpec'), coverage=False)
    if thorough:
        ck.l1('Tee/liveness 3 forks', 'Tee', tee_cfg(3, 3, 2, [], ['AllEnd'], spec='FairSpec'), coverage=False,
              timeout=2400)
    ck.sensitive('first-element path blocks unconditionally on the source lock (D8)', 'Tee',
                 tee_cfg(2, 4, 3, [], first_timed=False), 'deadlock')
    ck.sensitive('source lock leaked when the source raises (D9a)', 'Tee',
                 tee_cfg(2, 3, 2, [], ['AllEnd'], release=False, publish=False, spec='FairSpec'), 'temporal')
    ck.sensitive('source failure not published to the peers (D9b/c)', 'Tee',
                 tee_cfg(2, 4, 3, ['EndAgree'], publish=False), 'invariant', 'EndAgree')
    rnd = random.Random(ck.seed * 1000003 + 53)
    scs = TB.gen_scenarios(rnd, 1500 if thorough else 60)
    items, k = [], 0
    for sc in scs:
        for j in range(10 if thorough else 5):
            k += 1
            items.append({'id': k, 'sc': sc, 'seed': rnd.randrange(1 << 30), 'strategy': ['random', 'pct'][j % 2]})
    out = ck.run_binder('tee', items, timeout=1200)
    ck.evaluations += int(out.get('n_exec', 0))
    for h in out.get('hangs', []):
        ck.violation({'leg': 'L3', 'kind': 'hang-or-crash', 'status': h['status'], 'detail': h.get('detail'),
                      'waitmap': h.get('waitmap'), 'exc': h.get('exc'), 'thread_errors': h.get('thread_errors'),
                      'item': {'sc': h['sc'], 'seed': h['seed'], 'strategy': h['strategy']}, 'events': h['ev'][-80:]},
                     sig={'leg': 'L3', 'kind': 'hang', 'status': h['status'], 'srcfail': bool(h['sc']['srcfail'])})
    groups = collections.defaultdict(list)
    for t in out.get('traces', []):
        groups[t['nf']].append(t)
    ck.validate_groups('tee forks under detsched (line mode on _tee.py)', 'TeeTrace',
                       [(trace_cfg(nf), trs) for nf, trs in sorted(groups.items())],
                       sig_of=lambda t, v: {'nf': t['nf'], 'srcfail': bool(t['sc']['srcfail'])})
    ck.assumptions += ['line mode preempts before every source line of _tee.py; inside a line only at lock operations']
    ck.finish_rc = ck.finish(rule='source length 0..6 x failure position x buffer_size 2..4 x 2-3 forks x schedule seeds; a hang '
                             '(wedge / spin on a leaked lock) is a detected deadlock / livelock')
