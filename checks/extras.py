"""Coverage beyond the listed properties: parts of the library that the 20 properties do not speak about, modelled and bound to
the code in the same way.  `./check X01` etc.; evidence goes to extras/evidence/ (the MANIFEST lists properties only).

X01  BackgroundTask  (mpservice/background_task.py): the task catalog with shared tasks, forgotten tasks, cancellation, result
     retrieval.  The model describes the code AS FOUND (OwnEntryOnly = FALSE) - the conformance leg passes on it - and the two
     promises the as-found design does not keep are refuted in the model as documented observations (DESIGN.md 11.9).

X02  ProcessRunner  (mpservice/multiprocessing/runner.py): instruction queue, one-slot result queue, the long-lived worker object.
X03  SharedPools    (mpservice/concurrent/futures: get_shared_thread_pool): the weak-valued registry of named executors.
"""
from __future__ import annotations

import random

from checks.manager import simulate
from mbt import tlc

BT_SAFE = ['TypeOK', 'CatSound', 'FlagBeforeFuture']
BT_PROMISES = ['NoDuplicateRun', 'InProgressListed', 'NoKeyError']


def bt_cfg(invariants, *, own, ids=('a', 'b'), maxgen=3, constraint='Bounded'):
    return tlc.cfg_text(spec='Spec', constants=dict(Ids=set(ids), MaxGen=maxgen, OwnEntryOnly=own), invariants=invariants,
                        deadlock=False, constraint=constraint)


def x01(ck, replay=None):
    thorough = ck.tier == 'thorough'
    # ---- L1
    shapes = [(('a', 'b'), 3)] if thorough else [(('a', 'b'), 2), (('a',), 3)]
    for ids, maxgen in shapes:
        ck.l1(f'BackgroundTask/as found: bookkeeping invariants ({len(ids)} ids, {maxgen} tasks)', 'BackgroundTask',
              bt_cfg(BT_SAFE, own=False, ids=ids, maxgen=maxgen), may_skip=('Next',), coverage=not thorough, timeout=2400)
        ck.l1(f'BackgroundTask/own-entry removal: the promises hold ({len(ids)} ids, {maxgen} tasks)', 'BackgroundTask',
              bt_cfg(BT_SAFE + BT_PROMISES, own=True, ids=ids, maxgen=maxgen), may_skip=('Next',), coverage=False, timeout=2400)
    for inv, what in (('NoKeyError', 'cancelling a queued forgotten task raises KeyError into the caller (the done-callback has '
                                     'already removed the entry that cancel() deletes)'),
                      ('NoDuplicateRun', 'a second result() on a finished task unlists a NEWER in-progress task of the same id: '
                                         'the next submission runs it a second time'),
                      ('InProgressListed', 'an in-progress task with stakeholders is not listed under its id')):
        ck.sensitive(f'as found (`del catalog[task_id]` whatever is listed): {what}', 'BackgroundTask',
                     bt_cfg([inv], own=False), 'invariant', inv)
    for goal in ('Trap_Shared', 'Trap_Forgotten', 'Trap_QueuedCancelled', 'Trap_SecondGeneration'):
        ck.trap(goal, 'BackgroundTask', bt_cfg([goal], own=False))
    # ---- L2: behaviours of the as-found model replayed on the real class
    behs = []
    for k, (ids, maxgen) in enumerate([(('a', 'b'), 4), (('a',), 4), (('a', 'b', 'c'), 6)]):
        behs += simulate('BackgroundTask', bt_cfg([], own=False, ids=ids, maxgen=maxgen), num=600 if thorough else 100,
                         depth=30 if thorough else 22, seed=ck.seed * 7919 + 23 + k)
    rnd = random.Random(ck.seed * 1000003 + 211)
    rnd.shuffle(behs)
    items = [{'id': k, 'beh': [[a, st] for a, st in b]} for k, b in enumerate(behs) if len(b) > 1]
    out = ck.run_binder('bgtask', items, timeout=900, extra={'detsched': False})
    nsteps, acts = 0, set()
    for r in out.get('results', []):
        nsteps += int(r.get('steps', 0))
        if r['status'] == 'machinery':
            from mbt.framework import Machinery
            raise Machinery(f'X01 replay: {r.get("detail")}')
        if r['status'] != 'ok':
            ck.violation({'leg': 'L2', 'item': {'id': r['id'], 'beh': items[r['id']]['beh'] if r['id'] < len(items) else None},
                          **(r.get('detail') or {})}, sig={'leg': 'L2', **r.get('sig', {})})
    for it in items:
        for a, st in it['beh'][1:]:
            acts.add((st['act']['name'], st['act']['ret'] if st['act']['name'] != 'submit' else 'task'))
    ck.evaluations += nsteps
    ck.legs.append({'leg': 'L2', 'name': 'TLC behaviours replayed on the real BackgroundTask (one-worker thread pool)',
                    'replays': len(items), 'calls_compared': nsteps, 'distinct_call_outcomes': sorted(map(list, acts))})
    ck.sample({'kind': 'replayed_history', 'acts': [[st['act']['name'], st['act']['arg'], st['act']['ret']]
                                                    for a, st in items[0]['beh'][1:]]})
    ck.assumptions += ['one-worker ThreadPoolExecutor (the earliest pending task runs, the others are queued); the user `run` '
                       'ignores the cancel flag (using it is optional); calls are made one at a time']
    ck.finish_rc = ck.finish(rule='every public call returns / raises what the model says and leaves callers, retrieved count, '
                             'cancelled(), done() of every task and the whole catalog as in the model state')


def pr_cfg(invariants=(), properties=(), spec='Spec', maxcalls=4, deadlock=True):
    return tlc.cfg_text(spec=spec, constants=dict(MaxCalls=maxcalls), invariants=invariants, properties=properties,
                        deadlock=deadlock)


def _report(ck, out, items, leg_name):
    nsteps = 0
    for r in out.get('results', []):
        nsteps += int(r.get('steps', 0))
        if r['status'] == 'machinery':
            from mbt.framework import Machinery
            raise Machinery(f'{ck.pid} replay: {r.get("detail")}')
        if r['status'] != 'ok':
            ck.violation({'leg': 'L2', 'item': {'id': r['id'], 'beh': items[r['id']]['beh'] if r['id'] < len(items) else None},
                          **(r.get('detail') or {})}, sig={'leg': 'L2', **r.get('sig', {})})
    ck.evaluations += nsteps
    ck.legs.append({'leg': 'L2', 'name': leg_name, 'replays': len(items), 'calls_compared': nsteps})
    return nsteps


def x02(ck, replay=None):
    thorough = ck.tier == 'thorough'
    inv = ['Fifo', 'ResultSlot', 'CallsInOrder', 'ServedBeforeExit']
    ck.l1('ProcessRunner/safety + join returns when results are collected', 'ProcessRunner',
          pr_cfg(inv, ['JoinReturns'], spec='FairSpec', maxcalls=6 if thorough else 4), may_skip=('Next',))
    for goal in ('Trap_JoinStuck', 'Trap_ErrThenOk'):
        ck.trap(goal, 'ProcessRunner', pr_cfg([goal]))
    behs = simulate('ProcessRunner', pr_cfg([], maxcalls=8, deadlock=False), num=320 if thorough else 48, depth=40,
                    seed=ck.seed * 7919 + 29)
    items = [{'id': k, 'beh': [[a, st] for a, st in b]} for k, b in enumerate(behs) if len(b) > 1]
    out = ck.run_binder('procrunner', items, timeout=900, extra={'detsched': False})
    _report(ck, out, items, 'TLC behaviours replayed on the real ProcessRunner (a real background process each)')
    ck.sample({'kind': 'replayed_history', 'acts': [[a.split('(')[0], st['act']['k'], st['act']['o'], st['act']['n']]
                                                    for a, st in items[0]['beh'][1:] if not a.startswith('Worker')]})
    ck.assumptions += ['one caller thread; restart() arguments and results are small picklable values']
    ck.finish_rc = ck.finish(rule='the k-th rejoin() returns / raises the outcome of the k-th restart(), computed by the one long-lived '
                             'object (its own call counter), exceptions arrive as remote exceptions; after join() the process has '
                             'ended with exit code 0 and the object was entered and exited exactly once')


def sp_cfg(invariants=(), names=('x', 'y'), maxobj=3, maxrefs=2):
    return tlc.cfg_text(spec='Spec', constants=dict(Names=set(names), Sizes={1, 2}, MaxObj=maxobj, MaxRefs=maxrefs),
                        invariants=invariants, deadlock=False)


def x03(ck, replay=None):
    thorough = ck.tier == 'thorough'
    inv = ['OneLivePerName', 'LiveIsListed', 'ListedIsReferenced', 'SizeHonoured']
    ck.l1('SharedPools/registry invariants', 'SharedPools', sp_cfg(inv, maxobj=4 if thorough else 3), may_skip=('Next',))
    for goal in ('Trap_Replaced', 'Trap_Refused'):
        ck.trap(goal, 'SharedPools', sp_cfg([goal]))
    behs = simulate('SharedPools', sp_cfg([], names=('x', 'y', 'z'), maxobj=8, maxrefs=3), num=1500 if thorough else 200, depth=30,
                    seed=ck.seed * 7919 + 31)
    items = [{'id': k, 'beh': [[a, st] for a, st in b]} for k, b in enumerate(behs) if len(b) > 1]
    out = ck.run_binder('sharedpools', items, timeout=600, extra={'detsched': False})
    _report(ck, out, items, 'TLC behaviours replayed on the real get_shared_thread_pool registry')
    ck.sample({'kind': 'replayed_history', 'acts': [[st['act']['name'], st['act']['n'], st['act']['m'], st['act']['o'],
                                                     st['act']['ret']] for a, st in items[0]['beh'][1:]]})
    ck.assumptions += ['CPython reference counting: an executor without references is collected at once (gc.collect() after every '
                       'drop); thread pools only (the process-pool registry has the same code shape)']
    ck.finish_rc = ck.finish(rule='every request returns the executor the model names (identity) or raises ValueError; registry '
                             'contents, lifetime, max_workers and shutdown flag of every executor as in the model state')


# ---- X04: SingleLane, the hand-off queue underneath fifo_stream / Buffer / the batching worker -------------------------------

SL_INV = ['TypeOK', 'Bound', 'Fifo', 'NoUnderflow', 'MutexSane', 'NoGhostWaiter', 'WaitsOnlyWhenFull', 'WaitsOnlyWhenEmpty']


def sl_cfg(invariants=(), properties=(), spec='Spec', nw=1, nr=1, maxops=2, maxcap=2, notify_always=True, deadlock=True,
           init=None, **kw):
    return tlc.cfg_text(spec=spec, constants=dict(NW=nw, NR=nr, MaxOps=maxops, MaxCap=maxcap, NotifyAlways=notify_always),
                        invariants=invariants, properties=properties, deadlock=deadlock, init=init,
                        next_='Next' if init else None, **kw)



def singlelane_conformance(ck, n_scen, reps, thorough, salt=71):
    """code -> spec leg of SingleLane: the real class, one writer + one reader under detsched (line mode), traces validated by TLC"""
    import random
    from mbt.bind import singlelane as SB
    rnd = random.Random(ck.seed * 1000003 + salt)
    scs = SB.gen_scenarios(rnd, n_scen)
    items, k = [], 0
    for sc in scs:
        for j in range(reps):
            k += 1
            items.append({'id': k, 'sc': sc, 'seed': rnd.randrange(1 << 30), 'strategy': ['random', 'pct'][j % 2]})
    # stateless exhaustive exploration (preemption-bounded) of the schedule tree of the REAL code for tiny programs
    tiny = [(1, ['block', 'block'], ['block', 'block']), (1, ['block', 'timed'], ['timed', 'block']),
            (1, ['nowait', 'block'], ['block', 'nowait']), (2, ['block', 'block', 'block'], ['block', 'block', 'block'])]
    if thorough:
        tiny += [(c, [a, b], [x, y]) for c in (1, 2) for a in SB.MODES for b in SB.MODES for x in ('block', 'timed')
                 for y in ('block', 'nowait')]
    for j, (cap, wo, ro) in enumerate(tiny):
        # (line mode multiplies the scheduling points: used for the four base programs; the thorough grid runs at lock granularity)
        for line in ((False, True) if (thorough and j < 4) else ((True,) if j in (0, 3) else (False,))):
            k += 1
            items.append({'id': k, 'sc': {'cap': cap, 'ops': [wo, ro], 'tmo': [0.01, 0.02], 'line': line}, 'strategy': 'dfs',
                          'bound': 3 if thorough else 2, 'max_runs': (2000 if line else 6000) if thorough else 3000})
    out = ck.run_binder('singlelane', items, timeout=2400)
    ck.evaluations += int(out.get('n_exec', 0))
    for h in out.get('crashes', []):
        ck.violation({'leg': 'L3', 'kind': 'crash-or-livelock', 'status': h['status'], 'detail': h.get('detail'),
                      'waitmap': h.get('waitmap'), 'exc': h.get('exc'), 'thread_errors': h.get('thread_errors'),
                      'item': {'sc': h['sc'], 'seed': h['seed'], 'strategy': h['strategy']}, 'events': h['ev'][-80:]},
                     sig={'leg': 'L3', 'kind': 'crash', 'status': h['status']})
    ck.validate('SingleLane: one writer, one reader under detsched (line mode on _queues.py); random / PCT / exhaustive DFS',
                'SingleLaneTrace', sl_cfg(spec='TraceSpec', constraint='Progress', postcondition='Report', deadlock=False),
                out.get('traces', []))
    ck.legs[-1]['dfs_runs'] = int(out.get('dfs_runs', 0))
    # which corners of the model the real executions went through (evidence; X04 requires the rarest one)
    corners = {'woken_by_notify': 0, 'wait_timed_out': 0, 'timed_out_although_notified': 0, 'refused_after_close': 0,
               'ended_stuck': 0}
    for t in out.get('traces', []):
        waiting, notified = set(), {}
        for e in t['ev']:
            if e['ev'] == 'Wait':
                waiting.add(e['t'])
                notified[e['t']] = False
            elif e['ev'] == 'Notify' and e['n'] == 1:
                for w in waiting:
                    if w != e['t']:
                        notified[w] = True
            elif e['ev'] == 'Woke':
                waiting.discard(e['t'])
                if e['gotit']:
                    corners['woken_by_notify'] += 1
                else:
                    corners['wait_timed_out'] += 1
                    corners['timed_out_although_notified'] += bool(notified.get(e['t']))
            elif e['ev'] == 'Ret' and not e['ok'] and e['n'] == 1:
                corners['refused_after_close'] += 1
            elif e['ev'] == 'Stuck':
                corners['ended_stuck'] += 1
    ck.legs[-1]['corners'] = corners
    return corners


def singlelane_component(ck):
    """SingleLane as a COMPONENT of the stream / batching properties (C01 C05 C08 C09): their specifications use an atomic bounded
    FIFO; this leg checks that the real class refines it (design: SingleLane.tla incl. AtomicQ; code: traces of the real class)."""
    thorough = ck.tier == 'thorough'
    ck.l1('SingleLane (component)/mutex + two conditions refine the atomic bounded FIFO', 'SingleLane',
          sl_cfg(SL_INV, ['AtomicQ', 'ClosedRefuses'], maxops=2, maxcap=1), may_skip=('Next', 'Idle'))
    singlelane_conformance(ck, 400 if thorough else 50, 4, False, salt=73)


def x04(ck, replay=None):
    import random
    from mbt.bind import singlelane as SB
    thorough = ck.tier == 'thorough'
    ck.l1('SingleLane/1 writer 1 reader: every program of <= %d attempts per side x modes x capacities' % (3 if thorough else 2),
          'SingleLane', sl_cfg(SL_INV, ['AtomicQ', 'ClosedRefuses'], maxops=3 if thorough else 2), may_skip=('Next', 'Idle'), timeout=2400)
    ck.l1('SingleLane/liveness under fair scheduling', 'SingleLane',
          sl_cfg([], ['AllDone', 'WriterProgress', 'ReaderProgress'], spec='FairSpec', maxops=2, maxcap=2 if thorough else 1),
          coverage=False, timeout=2400)
    ck.sensitive('get notifies only if a lock-free look before the mutex saw a full queue (lost wake-up)', 'SingleLane',
                 sl_cfg(['WaitsOnlyWhenFull'], notify_always=False), 'invariant', 'WaitsOnlyWhenFull')
    ck.sensitive('two writers: `if` instead of `while` around the wait lets the queue exceed maxsize (the documented restriction)',
                 'SingleLane', sl_cfg(['Bound'], nw=2, init='InitTwoWriters'), 'invariant', 'Bound')
    for goal in ('Trap_SwallowedNotify', 'Trap_FailWithRoom', 'Trap_WriterWoken', 'Trap_ReaderWoken', 'Trap_RefusedWhilePeerBlocked'):
        ck.trap(goal, 'SingleLane', sl_cfg([goal], maxops=2 if goal != 'Trap_FailWithRoom' else 3, maxcap=1))
    corners = singlelane_conformance(ck, 1200 if thorough else 150, 8 if thorough else 4, thorough)
    if not ck.violations and min(corners.values()) == 0:
        from mbt.framework import Machinery
        raise Machinery(f'X04: a corner of the model was never exercised on the real class: {corners}')
    ck.assumptions += ['one writer thread and one reader thread (what the class is documented for, and how the library uses it); '
                       'line mode preempts before every source line of _queues.py, inside a line only at lock operations']
    ck.finish_rc = ck.finish(rule='capacity 0..3 x programs of 1..5 attempts per side (block / timed / nowait) x schedules; every '
                             'lock, wait, wake-up, notify, append and popleft of the real object is an action of SingleLane.tla '
                             'with all its invariants evaluated by TLC; a run that blocks for ever is accepted only where the '
                             'model is stuck, too')
