"""C17: IterableQueue spec and its conformance leg."""
from __future__ import annotations

import collections
import random

from mbt import tlc
from mbt.framework import Machinery
from mbt.bind import iterqueue as IB

INV = ['TypeOK', 'NoInternalError', 'NoDuplicate', 'RoundComplete', 'CleanStart', 'TokenConservation']


def iq_cfg(m, nc, k, rounds, qbound, invariants=(), properties=(), extra_once=True, may_stop=False, spec='Spec',
           deadlock=True):
    return tlc.cfg_text(spec=spec, constants=dict(M=m, NC=nc, K=k, Rounds=rounds, QBound=qbound, ExtraOnce=extra_once,
                                                  MayStop=may_stop),
                        invariants=invariants, properties=properties, deadlock=deadlock)


def c17(ck, replay=None):
    thorough = ck.tier == 'thorough'
    grid = [(2, 2, 1, 2, 0), (2, 3, 1, 2, 1), (1, 2, 2, 2, 1), (2, 2, 2, 2, 2)]
    if thorough:
        grid += [(3, 2, 1, 2, 0), (2, 3, 2, 2, 1), (3, 3, 1, 2, 2), (2, 2, 1, 3, 0)]
    for (m, nc, k, rounds, qb) in grid:
        ck.l1(f'IterableQueue m={m} n={nc} k={k} rounds={rounds} bound={qb}', 'IterableQueue',
              iq_cfg(m, nc, k, rounds, qb, INV),
              may_skip=('Next', 'StopRequest', 'ConStopped', 'SupStopped'))
    ck.l1('IterableQueue with stop requests', 'IterableQueue', iq_cfg(2, 2, 1, 2, 1, INV, may_stop=True),
          may_skip=('Next',))
    ck.l1('IterableQueue liveness', 'IterableQueue',
          iq_cfg(2, 2, 1, 2, 0, [], ['ConsumersFinish', 'AllRoundsFinish'], spec='FairSpec'), coverage=False)
    ck.sensitive('two consumers both add the extra end marker (D14)', 'IterableQueue',
                 iq_cfg(2, 2, 1, 2, 0, ['CleanStart'], extra_once=False), 'invariant', 'CleanStart')
    rnd = random.Random(ck.seed * 1000003 + 59)
    scs = IB.gen_scenarios(rnd, 600 if thorough else 50)
    items, n = [], 0
    for sc in scs:
        for j in range(8 if thorough else 5):
            n += 1
            items.append({'id': n, 'sc': sc, 'seed': rnd.randrange(1 << 30), 'strategy': ['random', 'pct'][j % 2]})
    out = ck.run_binder('iterqueue', items, timeout=1200)
    ck.evaluations += int(out.get('n_exec', 0))
    for h in out.get('hangs', []):
        ck.violation({'leg': 'L3', 'kind': 'hang-or-crash', 'status': h['status'], 'detail': h.get('detail'),
                      'waitmap': h.get('waitmap'), 'exc': h.get('exc'), 'thread_errors': h.get('thread_errors'),
                      'item': {'sc': h['sc'], 'seed': h['seed'], 'strategy': h['strategy']}, 'events': h['ev'][-80:]},
                     sig={'leg': 'L3', 'kind': 'hang', 'status': h['status'], 'stop': 'stop_at' in h['sc']})
    groups = collections.defaultdict(list)
    for t in out.get('traces', []):
        groups[tuple(sorted(t['p'].items()))].append(t)
    cfgs = []
    for key, trs in sorted(groups.items()):
        p = dict(key)
        cfgs.append((tlc.cfg_text(spec='TraceSpec',
                                  constants=dict(M=p['m'], NC=p['nc'], K=p['k'] + (2 if p['stop'] else 0),
                                                 Rounds=p['rounds'], QBound=p['qbound'], ExtraOnce=True,
                                                 MayStop=p['stop']),
                                  constraint='Progress', postcondition='Report', deadlock=False), trs))
    ck.validate_groups('IterableQueue over queue.Queue: suppliers/consumers/renew under detsched', 'IterableQueueTrace',
                       cfgs, sig_of=lambda t, v: {'stop': 'stop_at' in t['sc']})
    # L2 (spec -> code): TLC behaviours (simulation + the shortest path to "two consumers both believe they are the first
    # to see the bottom") steer the real suppliers / consumers; the executions are validated like the others
    consts = dict(M=2, NC=2, K=1, Rounds=2, QBound=0)
    l2cfg = iq_cfg(2, 2, 1, 2, 0, [])
    res, behs = tlc.simulate('IterableQueue', l2cfg, num=600 if thorough else 40, depth=120, seed=1 + ck.seed)
    behs = list(behs)
    for goal in ('Trap_TwoSeeFull', 'Trap_Round2'):
        behs.append(ck.trap(goal, 'IterableQueue', iq_cfg(2, 2, 1, 2, 0, [goal])))
        behs.append(behs[-1])       # the corner behaviours are steered twice (different tie-breaking seeds)
    l2items = []
    for k, b in enumerate(behs):
        l2items.append({'id': k + 1, 'seed': k, **IB.behaviour_to_item(b, consts)})
    out2 = ck.run_binder('iterqueue', l2items, timeout=900)
    ck.evaluations += int(out2.get('n_exec', 0))
    for h in out2.get('hangs', []):
        ck.violation({'leg': 'L2', 'kind': 'hang-or-crash', 'status': h['status'], 'detail': h.get('detail'),
                      'waitmap': h.get('waitmap'), 'exc': h.get('exc'), 'item': {'sc': h['sc'], 'seed': h['seed']},
                      'events': h['ev'][-80:]},
                     sig={'leg': 'L2', 'kind': 'hang', 'status': h['status']})
    trs = out2.get('traces', [])
    before = ck.traces
    ck.validate('TLC behaviours steered into IterableQueue (simulation + trap goals)', 'IterableQueueTrace',
                tlc.cfg_text(spec='TraceSpec', constants=dict(M=2, NC=2, K=1, Rounds=2, QBound=0, ExtraOnce=True,
                                                              MayStop=False),
                             constraint='Progress', postcondition='Report', deadlock=False), trs,
                sig_of=lambda t, v: {'stop': False})
    ck.replays += ck.traces - before
    ck.traces = before
    ck.legs[-1].update(leg='L2', behaviours=len(behs), replayed=len(trs), exact=sum(1 for t in trs if t['l2']['exact']),
                       steps=sum(t['l2']['steps'] for t in trs), followed=sum(t['l2']['followed'] for t in trs))
    # suppliers and consumers in separate PROCESSES over multiprocessing queues (the object travels by pickle): per-process
    # event sequences, TLC searches for the interleaving
    from mbt.bind import iterqueue_proc as IP
    pitems = [{'id': i + 1, 'sc': sc} for i, sc in enumerate(IP.gen_scenarios(rnd, 400 if thorough else 24))]
    pout = ck.run_binder('iterqueue_proc', pitems, nproc=8, per_job=4, timeout=900, extra={'detsched': False})
    ck.evaluations += int(pout.get('n_exec', 0))
    for h in pout.get('hangs', []):
        ck.violation({'leg': 'L3', 'kind': h.get('kind', 'hang'), 'where': 'processes', 'hang': h.get('hang'),
                      'item': {'sc': h['sc']}},
                     sig={'leg': 'L3', 'kind': h.get('kind', 'hang'), 'where': 'processes'})
    pg = collections.defaultdict(list)
    for t in pout.get('traces', []):
        p = t['p']
        pg[(p['m'], p['nc'], p['k'], p['rounds'], p['qbound'])].append(t)
    ck.validate_groups('IterableQueue over multiprocessing queues: suppliers / consumers in separate processes, renew',
                       'IterableQueueProcTrace',
                       [(tlc.cfg_text(spec='TraceSpec', constants=dict(M=m, NC=nc, K=k, Rounds=r, QBound=qb, ExtraOnce=True,
                                                                      MayStop=False),
                                      constraint='Progress', postcondition='Report', deadlock=False), trs)
                        for (m, nc, k, r, qb), trs in sorted(pg.items())],
                       sig_of=lambda t, v: {'where': 'processes'})
    # renew() on helper queues that DELIVER late (RenewTokens.tla): design leg + what the renewing process really did
    def rt_cfg(m, rounds, invariants=(), properties=(), count=True, spec='FairSpec', **kw):
        return tlc.cfg_text(spec=spec, constants=dict(M=m, Rounds=rounds, CountTokens=count), invariants=invariants,
                            properties=properties, **kw)

    ck.l1('RenewTokens/renew recycles every token although deliveries lag', 'RenewTokens',
          rt_cfg(3, 3, ['TypeOK', 'NothingLeaks'], ['EveryRoundRenewed']), may_skip=('Next', 'Finished'), coverage=False)
    ck.sensitive('renew() recycles "until _used_lids.empty()" (tokens counted but not yet delivered stay behind)', 'RenewTokens',
                 rt_cfg(2, 2, ['NothingLeaks'], count=False, spec='Spec'), 'invariant', 'NothingLeaks')
    ck.trap('Trap_RenewWaitsForDelivery', 'RenewTokens', rt_cfg(2, 2, ['Trap_RenewWaitsForDelivery'], spec='Spec'))
    rg = collections.defaultdict(list)
    for t in pout.get('renew_traces', []):
        rg[(t['p']['m'], t['p']['rounds'])].append(t)
    if not rg and not ck.violations:
        raise Machinery('C17: no renew() trace was recorded by a renewing consumer process')
    ck.validate_groups('renew() called by a consumer process (also on late-delivering helper queues): every token taken out of _used_lids',
                       'RenewTokensTrace',
                       [(rt_cfg(m, r, spec='TraceSpec', constraint='Progress', postcondition='Report', deadlock=False), trs)
                        for (m, r), trs in sorted(rg.items())], sig_of=lambda t, v: {'where': 'renew'})
    ck.assumptions += ['thread queues under detsched (exact linearization order); multiprocessing queues: sampled OS '
                       'schedules, per-process event order only, TLC searches the interleaving']
    ck.finish_rc = ck.finish(rule='m suppliers x n consumers x items x rounds x queue bound x schedule seeds; every queue '
                             'operation logged under the queue mutex; stop scenarios with exact virtual time')
