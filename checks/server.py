"""C02 (ledger half), C06, C07: ServerCore spec and the conformance leg on the real Server / AsyncServer."""
from __future__ import annotations

import collections
import random

from mbt import tlc
from mbt.bind import servercore as SB

SAFETY = ['TypeOK', 'CapacityInv', 'RejectClean', 'NoLostResponse', 'GatherAlive', 'OwnResult', 'IdleEmpty']


def core_cfg(R, cap, mixes, invariants=(), properties=(), ledger_first=True, wait_loop=True, guarded=True,
             asyn=False, spec='Spec', deadlock=True):
    return tlc.cfg_text(spec=spec, constants=dict(R=R, Capacity=cap, Mixes='<- ' + mixes, LedgerFirst=ledger_first,
                                                  WaitLoop=wait_loop, GuardedSet=guarded, Async=asyn),
                        invariants=invariants, properties=properties, deadlock=deadlock)


def trace_cfg(R, cap, asyn):
    return tlc.cfg_text(spec='TraceSpec', constants=dict(R=R, Capacity=cap, Mixes=set(), LedgerFirst=True, WaitLoop=True,
                                                         GuardedSet=True, Async=asyn),
                        constraint='Progress', postcondition='Report', deadlock=False)


def server_items(ck, count, seeds_per, salt=41, **kw):
    rnd = random.Random(ck.seed * 1000003 + salt)
    scs = SB.gen_scenarios(rnd, count, **kw)
    items, k = [], 0
    for sc in scs:
        for j in range(seeds_per):
            k += 1
            items.append({'id': k, 'sc': sc, 'seed': rnd.randrange(1 << 30), 'strategy': ['random', 'pct'][j % 2]})
    return items


def contended_items(ck, count, seeds_per, salt=53):
    rnd = random.Random(ck.seed * 1000003 + salt)
    items, k = [], 100000
    for sc in SB.contended_scenarios(rnd, count):
        for j in range(seeds_per):
            k += 1
            items.append({'id': k, 'sc': sc, 'seed': rnd.randrange(1 << 30), 'strategy': ['random', 'pct'][j % 2],
                          'exact': True})
    return items


def server_conformance(ck, name, items):
    out = ck.run_binder('servercore', items, timeout=1200)
    ck.evaluations += int(out.get('n_exec', 0))
    for h in out.get('hangs', []):
        ck.violation({'leg': 'L3', 'name': name, 'kind': 'hang-or-crash', 'status': h['status'],
                      'detail': h.get('detail'), 'waitmap': h.get('waitmap'), 'exc': h.get('exc'),
                      'thread_errors': h.get('thread_errors'),
                      'item': {'sc': h['sc'], 'seed': h['seed'], 'strategy': h['strategy']}, 'events': h['ev'][-80:]},
                     sig={'leg': 'L3', 'kind': 'hang', 'status': h['status'], 'flavour': h['sc']['flavour'],
                          'exc': (h.get('exc') or '')[:60]})
    groups = collections.defaultdict(list)
    for t in out.get('traces', []):
        groups[(t['p']['R'], t['p']['cap'], t['p']['async'])].append(t)
    ck.validate_groups(name, 'ServerCoreTrace',
                       [(trace_cfg(R, cap, asyn), trs) for (R, cap, asyn), trs in sorted(groups.items())],
                       sig_of=lambda t, v: {'flavour': t['sc']['flavour']})
    return out


def server_l2(ck, name, R, cap, num, traps):
    """L2 (spec -> code): TLC behaviours of ServerCore (random simulation + shortest paths to the trap goals) steer the real
    caller / worker / gather / notification threads: the thread of the behaviour's next step runs, worker completions are gated,
    scripted deadline expiries fire that thread's timer.  The executions are validated by TLC like any other."""
    cfg = core_cfg(R, cap, 'NoStream', [])
    res, behs = tlc.simulate('ServerCoreMC', cfg, num=num, depth=120, seed=1 + ck.seed)
    behs = list(behs)
    for goal in traps:
        b = ck.trap(goal, 'ServerCoreMC', core_cfg(R, cap, 'NoStream', [goal]))
        behs += [b, b, b]        # corner behaviours are steered three times (different tie-breaking seeds)
    items = []
    for k, b in enumerate(behs):
        it = SB.behaviour_to_item(b, R, cap)
        if it:
            items.append({'id': k + 1, 'seed': k, **it})
    out = ck.run_binder('servercore', items, timeout=1200)
    ck.evaluations += int(out.get('n_exec', 0))
    for h in out.get('hangs', []):
        ck.violation({'leg': 'L2', 'name': name, 'kind': 'hang-or-crash', 'status': h['status'], 'detail': h.get('detail'),
                      'waitmap': h.get('waitmap'), 'exc': h.get('exc'), 'thread_errors': h.get('thread_errors'),
                      'item': {'sc': h['sc'], 'seed': h['seed']}, 'events': h['ev'][-80:]},
                     sig={'leg': 'L2', 'kind': 'hang', 'status': h['status'], 'exc': (h.get('exc') or '')[:60]})
    trs = out.get('traces', [])
    before = ck.traces
    ck.validate(name, 'ServerCoreTrace', trace_cfg(R, cap, False), trs, sig_of=lambda t, v: {'flavour': 'sync'})
    ck.replays += ck.traces - before
    ck.traces = before
    ck.legs[-1].update(leg='L2', behaviours=len(behs), replayed=len(trs),
                       steps=sum(t['l2']['steps'] for t in trs), followed=sum(t['l2']['followed'] for t in trs))
    if trs:
        ck.sample({'kind': 'tlc_behaviour_replayed', 'p': trs[-1]['p'], 'l2': trs[-1]['l2'], 'events': trs[-1]['ev'][:30]})


def c06(ck, replay=None):
    thorough = ck.tier == 'thorough'
    R = 4 if thorough else 3
    mixes = 'NoBpOnly' if thorough else 'AllMixes'
    inv = ['TypeOK', 'CapacityInv', 'RejectClean', 'NoLostResponse', 'IdleEmpty']
    for cap in (1, 2):
        ck.l1(f'ServerCore/sync cap={cap}', 'ServerCoreMC', core_cfg(R, cap, mixes, inv), may_skip=('Next', 'LoopSet', 'GatherMiss', 'CallerNoTimeLeft'))
    ck.l1('ServerCore/async cap=2', 'ServerCoreMC', core_cfg(3, 2, 'AllMixes', inv, asyn=True, guarded=False),
          may_skip=('Next', 'GatherSet', 'GatherMiss'))
    ck.l1('ServerCore/liveness', 'ServerCoreMC',
          core_cfg(3, 1, 'AllMixes' if thorough else 'Mix3', [], ['SlotsReturned', 'AllReturn'], spec='FairSpec'),
          coverage=False, timeout=2400)
    ck.sensitive('insert without re-checking after wake-up (D5)', 'ServerCoreMC',
                 core_cfg(3, 1, 'AllMixes', ['CapacityInv'], wait_loop=False), 'invariant', 'CapacityInv')
    ck.sensitive('input queued before the ledger entry exists (D4)', 'ServerCoreMC',
                 core_cfg(3, 2, 'AllMixes', ['NoLostResponse'], ledger_first=False), 'invariant', 'NoLostResponse')
    server_conformance(ck, 'Server/AsyncServer capacity protocol under detsched',
                       server_items(ck, 250 if thorough else 50, 8 if thorough else 4))
    server_conformance(ck, 'contended slots: short-timeout waiters woken while the server is full again (exact virtual time)',
                       contended_items(ck, 60 if thorough else 16, 8 if thorough else 4))
    server_l2(ck, 'TLC behaviours steered into Server (capacity corners)', 3, 1, 150 if thorough else 30,
              ('Trap_WaiterWokenWhileFull', 'Trap_NotificationSwallowed', 'Trap_TimeoutWhileWaitingForSlot'))
    ck.assumptions += ['servlet tree abstracted to "result emerges after any delay, in any order" (ThreadServlet of harness '
                       'workers in the conformance leg)', 'virtual time; a due timer may be overtaken by at most 0.03 s']
    ck.finish_rc = ck.finish(rule='backlog is logged on every ledger insert/pop and compared with the model on every '
                             'validated state; CapacityInv etc. are evaluated by TLC on every state of every trace')


def c07(ck, replay=None):
    thorough = ck.tier == 'thorough'
    R = 4 if thorough else 3
    mixes = 'NoBpOnly' if thorough else 'AllMixes'
    inv = ['GatherAlive', 'OwnResult', 'NoLostResponse']
    ck.l1('ServerCore/sync abandon-safety', 'ServerCoreMC', core_cfg(R, 2, mixes, inv), may_skip=('Next', 'LoopSet', 'GatherMiss', 'CallerNoTimeLeft'))
    ck.l1('ServerCore/async abandon-safety', 'ServerCoreMC', core_cfg(3, 2, 'AllMixes', inv, asyn=True, guarded=False),
          may_skip=('Next', 'GatherSet', 'GatherMiss'))
    ck.l1('ServerCore/others-answered (liveness)', 'ServerCoreMC',
          core_cfg(3, 2, 'AllMixes' if thorough else 'Mix3', [], ['OthersAnswered', 'AllReturn'], spec='FairSpec'),
          coverage=False, timeout=2400)
    ck.sensitive('set_result on a future cancelled after the check (D6)', 'ServerCoreMC',
                 core_cfg(3, 2, 'AllMixes', ['GatherAlive'], guarded=False), 'invariant', 'GatherAlive')
    rnd = random.Random(ck.seed * 1000003 + 43)
    server_conformance(ck, 'timeouts / abandoned streams racing the gather thread',
                       server_items(ck, 250 if thorough else 50, 8 if thorough else 4, salt=47))
    server_l2(ck, 'TLC behaviours steered into Server (cancel inside the gather thread\'s check/set window)', 3, 1,
              150 if thorough else 30, ('Trap_CancelBetweenCheckAndSet', 'Trap_CancelInWindowWhileWaiter'))
    from checks.lifecycle import shutdown_after_abandonment
    shutdown_after_abandonment(ck, 'real Server(ProcessServlet): shutdown and re-entry after abandoned requests with inputs '
                                   'beyond the pipe buffer')
    ck.finish_rc = ck.finish(rule='deadlines comparable to service times under bounded-lag adversarial virtual time; '
                             'every order of {deadline, cancel} vs {pop, check, set} is a path of the model')
