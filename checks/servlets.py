"""C02, C04: ServletNet spec (data path through servlet trees) + ServerCore ledger invariants; conformance on thread servlet trees."""
from __future__ import annotations

import collections
import random

from mbt import tlc
from mbt.bind import servletnet as NB
from checks import server as SRV

INV = ['NoCrossTalk', 'NoMiss']


def net_cfg(R, topo, failfast=True, fresh=True, invariants=(), properties=(), spec='Spec', deadlock=True):
    return tlc.cfg_text(spec=spec, constants=dict(R=R, Topo=topo, FailFast=failfast, FreshUid=fresh, NUids=R),
                        invariants=invariants, properties=properties, deadlock=deadlock)


def net_conformance(ck, name, count, seeds_per, salt, topos=NB.TOPOS):
    rnd = random.Random(ck.seed * 1000003 + salt)
    scs = NB.gen_scenarios(rnd, count, topos=topos)
    if 'ens' in topos:
        scs += NB.corner_scenarios()      # the id re-use window of D7, Server and AsyncServer
    items, n = [], 0
    for sc in scs:
        for j in range(seeds_per):
            n += 1
            items.append({'id': n, 'sc': sc, 'seed': rnd.randrange(1 << 30), 'strategy': ['random', 'pct'][j % 2]})
    out = ck.run_binder('servletnet', items, timeout=1200)
    ck.evaluations += int(out.get('n_exec', 0))
    for h in out.get('hangs', []):
        ck.violation({'leg': 'L3', 'name': name, 'kind': 'hang-or-crash', 'status': h['status'], 'detail': h.get('detail'),
                      'waitmap': h.get('waitmap'), 'exc': h.get('exc'), 'thread_errors': h.get('thread_errors'),
                      'item': {'sc': h['sc'], 'seed': h['seed'], 'strategy': h['strategy']}, 'events': h['ev'][-80:]},
                     sig={'leg': 'L3', 'kind': 'hang', 'status': h['status'], 'topo': h['sc']['topo']})
    groups = collections.defaultdict(list)
    for t in out.get('traces', []):
        groups[(t['p']['R'], t['p']['topo'], t['p']['failfast'])].append(t)
    ck.validate_groups(name, 'ServletNetTrace',
                       [(tlc.cfg_text(spec='TraceSpec', constants=dict(R=R, Topo=topo, FailFast=ff, FreshUid=True, NUids=64),
                                      constraint='Progress', postcondition='Report', deadlock=False), trs)
                        for (R, topo, ff), trs in sorted(groups.items())],
                       sig_of=lambda t, v: {'topo': t['sc']['topo'], 'flavour': t['sc'].get('flavour', 'sync')})


def net_l2(ck, name, num, topos=('single', 'ens', 'switch', 'seq'), traps=()):
    """L2 (spec -> code): TLC behaviours of ServletNet (simulation + trap goals) steer the real callers, workers, ensemble /
    switch helper threads and the gather thread; the steered executions are validated by TLC like any other."""
    items, nbeh = [], 0
    for topo in topos:
        for ff in ((True, False) if topo == 'ens' else (True,)):
            consts = dict(R=2, Topo=topo, FailFast=ff)
            cfg = net_cfg(2, topo, failfast=ff)
            res, behs = tlc.simulate('ServletNet', cfg, num=num, depth=90, seed=5 + ck.seed)
            behs = list(behs)
            for goal in traps:
                if (goal == 'Trap_BatchOfTwo') == (topo == 'seq') and (goal != 'Trap_FailFastLate' or (topo == 'ens' and ff)):
                    behs.append(ck.trap(goal, 'ServletNet', net_cfg(2, topo, failfast=ff, invariants=[goal])))
            nbeh += len(behs)
            for b in behs:
                it = NB.behaviour_to_item(b, consts)
                if it:
                    items.append({'id': len(items) + 1, 'seed': len(items), **it})
    out = ck.run_binder('servletnet', items, timeout=1200)
    ck.evaluations += int(out.get('n_exec', 0))
    for h in out.get('hangs', []):
        ck.violation({'leg': 'L2', 'name': name, 'kind': 'hang-or-crash', 'status': h['status'], 'detail': h.get('detail'),
                      'waitmap': h.get('waitmap'), 'exc': h.get('exc'), 'thread_errors': h.get('thread_errors'),
                      'item': {'sc': h['sc'], 'seed': h['seed']}, 'events': h['ev'][-80:]},
                     sig={'leg': 'L2', 'kind': 'hang', 'status': h['status'], 'topo': h['sc']['topo']})
    trs = out.get('traces', [])
    groups = collections.defaultdict(list)
    for t in trs:
        groups[(t['p']['R'], t['p']['topo'], t['p']['failfast'])].append(t)
    before = ck.traces
    ck.validate_groups(name, 'ServletNetTrace',
                       [(tlc.cfg_text(spec='TraceSpec', constants=dict(R=R, Topo=topo, FailFast=ff, FreshUid=True, NUids=64),
                                      constraint='Progress', postcondition='Report', deadlock=False), g)
                        for (R, topo, ff), g in sorted(groups.items())],
                       sig_of=lambda t, v: {'topo': t['sc']['topo'], 'leg': 'L2'})
    ck.replays += ck.traces - before
    ck.traces = before
    ck.legs[-1].update(leg='L2', behaviours=nbeh, replayed=len(trs), exact=sum(1 for t in trs if t['l2']['exact']),
                       steps=sum(t['l2']['steps'] for t in trs), followed=sum(t['l2']['followed'] for t in trs))


def net_process_leg(ck, name, count, salt):
    """L3 on REAL worker processes (and mixed process / thread trees): concurrent callers + one stream; what every caller
    received is validated against the outcome rules of ServletNet (ServletOutcomeTrace)."""
    from mbt.bind import servletproc as SP
    rnd = random.Random(ck.seed * 1000003 + salt)
    items = [{'id': i + 1, 'sc': sc} for i, sc in enumerate(SP.gen_scenarios(rnd, count))]
    out = ck.run_binder('servletproc', items, nproc=8, per_job=6, timeout=1200, extra={'detsched': False})
    ck.evaluations += int(out.get('n_exec', 0))
    for h in out.get('hangs', []):
        ck.violation({'leg': 'L3', 'name': name, 'kind': 'hang-or-crash', 'where': 'process servlets', 'hang': h.get('hang'),
                      'item': {'sc': h['sc']}, 'events': h['ev'][-30:]},
                     sig={'leg': 'L3', 'kind': 'hang' if 'after_s' in (h.get('hang') or {}) else 'crash',
                          'where': 'process servlets', 'topo': h['sc']['topo']})
    groups = collections.defaultdict(list)
    for t in out.get('traces', []):
        groups[(t['p']['R'], t['p']['topo'], t['p']['failfast'])].append(t)
    ck.validate_groups(name, 'ServletOutcomeTrace',
                       [(tlc.cfg_text(spec='TraceSpec', constants=dict(R=R, Topo=topo, FailFast=ff, FreshUid=True, NUids=4),
                                      constraint='Progress', postcondition='Report', deadlock=False), trs)
                        for (R, topo, ff), trs in sorted(groups.items())],
                       sig_of=lambda t, v: {'topo': t['sc']['topo'], 'where': 'process servlets'})


def c02(ck, replay=None):
    thorough = ck.tier == 'thorough'
    for topo in ('single', 'seq', 'switch'):
        ck.l1(f'ServletNet/{topo}', 'ServletNet', net_cfg(3, topo, invariants=INV),
              may_skip=('Next', 'EnsEnq', 'EnsDeq', 'SwEnq', 'WPutSc'), timeout=2400)
    for ff in (True, False):
        ck.l1(f'ServletNet/ensemble fail_fast={ff}', 'ServletNet',
              net_cfg(3 if thorough else 2, 'ens', failfast=ff, invariants=INV),
              may_skip=('Next', 'SwEnq', 'WPutSc'), timeout=2400)
    ck.l1('ServletNet/answered (liveness)', 'ServletNet',
          net_cfg(2, 'ens', invariants=[], properties=['AllAnswered'], spec='FairSpec'), coverage=False, timeout=2400)
    ck.l1('ServerCore/ledger', 'ServerCoreMC', SRV.core_cfg(3, 2, 'AllMixes', ['NoLostResponse', 'OwnResult']),
          may_skip=('Next', 'LoopSet', 'GatherMiss', 'CallerNoTimeLeft'))
    ck.sensitive('request id reused while a slow ensemble member still holds it (D7)', 'ServletNet',
                 net_cfg(2, 'ens', failfast=True, fresh=False, invariants=['NoCrossTalk']), 'invariant', 'NoCrossTalk')
    ck.sensitive('input queued before the ledger entry exists (D4)', 'ServerCoreMC',
                 SRV.core_cfg(3, 2, 'AllMixes', ['NoLostResponse'], ledger_first=False), 'invariant', 'NoLostResponse')
    net_conformance(ck, 'Server over thread servlet trees (single/sequential+batch/ensemble/switch) under detsched',
                    250 if thorough else 60, 8 if thorough else 4, salt=67)
    net_l2(ck, 'TLC behaviours steered into Server over thread servlet trees (callers, workers, helper threads, gather)',
           60 if thorough else 12, traps=('Trap_BatchOfTwo', 'Trap_FailFastLate'))
    net_process_leg(ck, 'Server over PROCESS (and mixed) servlet trees: concurrent callers + stream, outcomes vs. ServletNet',
                    240 if thorough else 32, salt=79)
    ck.assumptions += ['inside of the tree observed for thread servlets only (detsched); process servlet trees: real processes, '
                       'sampled OS schedules, outcomes (and stream order) validated',
                       'id re-use is accepted by the trace spec only when nothing inside the servlet tree still carries the id']
    ck.finish_rc = ck.finish(rule='topology x failing sets x routing x service times x schedule seeds; every queue get/put of '
                             'the tree logged; delivered values decoded to provenance records and compared with the model')


def c04(ck, replay=None):
    thorough = ck.tier == 'thorough'
    for topo in ('single', 'seq'):
        ck.l1(f'ServletNet/{topo} failures', 'ServletNet', net_cfg(3, topo, invariants=['NoCrossTalk']),
              may_skip=('Next', 'EnsEnq', 'EnsDeq', 'SwEnq', 'WPutSc'), timeout=2400)
    for ff in (True, False):
        ck.l1(f'ServletNet/ensemble rules fail_fast={ff}', 'ServletNet',
              net_cfg(3 if thorough else 2, 'ens', failfast=ff, invariants=['NoCrossTalk']),
              may_skip=('Next', 'SwEnq', 'WPutSc'), timeout=2400)
    for goal, topo in (('Trap_BatchOfTwo', 'seq'), ('Trap_FailFastLate', 'ens')):
        ck.trap(goal, 'ServletNet', net_cfg(2, topo, invariants=[goal]))
    net_conformance(ck, 'failure injection in thread servlet trees under detsched', 250 if thorough else 60,
                    8 if thorough else 4, salt=71, topos=('single', 'seq', 'seq', 'ens', 'ens', 'switch'))
    ck.notes.append('the binder decodes each raised exception: ElemError class, args (request id, failure site); batch failures '
                    'are checked against the recorded batch composition (WDone events); EnsembleError member lists are decoded')
    net_process_leg(ck, 'failure injection in PROCESS (and mixed) servlet trees: type, args, remote traceback text, batch members',
                    240 if thorough else 32, salt=83)
    ck.finish_rc = ck.finish(rule='all subsets of failing requests per stage (model) / random failing sets (conformance) x batching x '
                             'ensemble fail_fast on/off x schedule seeds')
