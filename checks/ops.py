"""C03 (StreamOps: pipelines equal their sequential meaning) and C19 (EagerBatcher, timed)."""
from __future__ import annotations

import json
import random
from concurrent.futures import ThreadPoolExecutor

from mbt import tlc
from mbt.bind import eagerbatcher as EB
from mbt.bind import streamops as SB
from mbt.framework import Machinery

# ---------------------------------------------------------------------------------------------------------------
# C03

OPS_INV = ['TypeOK', 'Laws', 'RunAgrees', 'NeedLaws', 'ExportI']
OPS_CHECK_CFG = tlc.cfg_text(spec='TraceSpec',
                             constants=dict(MaxLen=0, MaxDepth=0, Export=False, ListSelector=True, NParts=1, Part=0,
                                            SampleMod=1, SampleRes=0),
                             constraint='Progress', postcondition='Report', deadlock=False)


def ops_cfg(max_len, max_depth, nparts=1, part=0, mod=1, res=0, export=True, list_selector=True, invariants=None):
    return tlc.cfg_text(constants=dict(MaxLen=max_len, MaxDepth=max_depth, Export=export, ListSelector=list_selector,
                                       NParts=nparts, Part=part, SampleMod=mod, SampleRes=res),
                        invariants=OPS_INV if invariants is None else invariants, deadlock=False)


def printed_json(stdout):
    """inner JSON texts of the `PrintT(ToJson(..))` lines of a TLC run"""
    out = []
    for ln in stdout.splitlines():
        if ln.startswith('"[') or ln.startswith('"{'):
            try:
                out.append(json.loads(ln))
            except ValueError as e:
                raise Machinery(f'cannot read exported line: {e}: {ln[:200]}')
    return out


def is_threaded(line):
    return '"buffer"' in line or '"parmap"' in line


def make_canaries(lines):
    """cases with a deliberately WRONG expectation: the binder must flag every one of them (vacuity guard of the
    comparison itself)"""
    out = []
    for ln in lines:
        c = json.loads(ln)
        if c[4]:
            continue
        k = len(out) % 3
        if k == 0:
            c[2] = c[2] + [99]
        elif k == 1:
            c[3] = 'K' if c[3] == '' else ''
        else:
            if not c[5] or c[0] == []:
                continue
            c[5] = [[lo + 1, hi + 1] for lo, hi in c[5]]
        out.append(json.dumps(c))
        if len(out) >= 60:
            break
    return out


def chunks(lines, size):
    return [lines[i:i + size] for i in range(0, len(lines), size)]


def ops_sig(case, what):
    if any(p[0] == 'fexc' and 'elist' in (p[1], p[2]) for p in case[1]):
        return {'leg': 'L2', 'kind': what, 'defect': 'D20-filter_exceptions-list-argument'}
    return {'leg': 'L2', 'kind': what, 'ops': [p[0] for p in case[1]]}


def perm_trace(k, pm):
    case = pm['case']
    return {'id': f'perm-{k}', 'case': case, 'src': pm['alphabet_src'], 'prog': case[1], 'got': {'o': pm['out'], 'e': pm['err']},
            'p': {'src': [SB.tagged(x) for x in pm['alphabet_src']],
                  'prog': [{'op': d[0], 'a': d[1], 'b': d[2], 'n': d[3]} for d in case[1]],
                  'mode': 'iter', 'clean': True, 'same': True, 'n': len(pm['out']), 'has_o': True,
                  'o': [SB.tagged(x) for x in pm['out']],
                  'e': SB.tagged(pm['err']) if pm['err'] else {'t': 'none', 'v': 0}},
            'ev': [{'ev': 'Observe'}]}


def c03(ck, replay=None):
    if replay is not None:
        return c03_replay(ck, replay)
    thorough = ck.tier == 'thorough'
    rnd = random.Random(ck.seed * 1000003 + 303)
    if thorough:
        parts = [('source<=2 x program<=3', 2, 3, 4, 1, 0),
                 ('source<=4 x program<=2 (every case model-checked; one of 3 residue classes exported)', 4, 2, 3, 3,
                  rnd.randrange(3)),
                 ('source<=3 x program<=3 (every case model-checked; one of 96 residue classes exported)', 3, 3, 1, 96,
                  rnd.randrange(96))]
    else:
        parts = [('source<=3 x program<=2', 3, 2, 1, 1, 0)]
    alphabet = None
    sched_pool, perms, n_cases, n_threaded, futures = [], [], 0, 0, []
    n_sched_target = 12000 if thorough else 1200
    total_runs = sum(pt[3] for pt in parts)
    bg = ThreadPoolExecutor(max_workers=1)
    canary_done = False
    variant_done = False
    try:
        # code -> spec: random programs / sources beyond the enumerated bounds (plain threads, and under detsched)
        nper = 1000 if thorough else 150
        r_items = [{'id': k, 'seed': rnd.randrange(1 << 30), 'count': nper, 'max_len': 8, 'max_depth': 6} for k in range(16)]
        futures.append(('random', bg.submit(ck.run_binder, 'streamops', r_items, timeout=2400,
                                            extra={'kind': 'random', 'detsched': False})))
        nper = 200 if thorough else 40
        rs_items = [{'id': 100 + k, 'seed': rnd.randrange(1 << 30), 'count': nper, 'max_len': 6, 'max_depth': 4}
                    for k in range(16)]
        futures.append(('random-sched', bg.submit(ck.run_binder, 'streamops', rs_items, timeout=2400,
                                                  extra={'kind': 'random', 'detsched': True})))
        # the code as found (filter_exceptions([]) -> TypeError, D20) must violate the laws in the model
        ck.sensitive('filter_exceptions(drop_exc_types=[]) raises TypeError instead of the exception object (D20)', 'StreamOps',
                     ops_cfg(2, 1, export=False, list_selector=False, invariants=['Laws']), 'invariant', 'Laws', workers=4)
        # action coverage (vacuity) on a small configuration; the big exporting runs go without TLC's coverage bookkeeping
        ck.l1('StreamOps/coverage: source<=2 x program<=2', 'StreamOps', ops_cfg(2, 2, export=False), count=False)
        for name, ml, md, nparts, smod, sres in parts:
            for part in range(nparts):
                res = ck.l1(f'StreamOps/{name}' + (f' part {part + 1}/{nparts}' if nparts > 1 else ''), 'StreamOps',
                            ops_cfg(ml, md, nparts, part, smod, sres,
                                    invariants=['TypeOK', 'Laws', 'SampledChecks', 'ExportI'] if smod > 3 else None),
                            timeout=2400, heap='16g', coverage=False)
                if res.violation is not None:
                    continue
                lines = printed_json(res.stdout)
                res.stdout = ''
                heads = [ln for ln in lines if ln.startswith('{')]
                lines = [ln for ln in lines if ln.startswith('[')]
                if not heads:
                    raise Machinery('StreamOps export: alphabet line missing')
                alphabet = json.loads(heads[0])['alphabet']
                if smod == 1 and len(lines) != res.distinct:
                    raise Machinery(f'StreamOps export: {len(lines)} cases printed for {res.distinct} states')
                if not lines:
                    raise Machinery('StreamOps export: no case printed')
                n_cases += len(lines)
                thr = [ln for ln in lines if is_threaded(ln)]
                # a sample of the threaded pipelines additionally runs under detsched (seeded random schedules)
                sched_pool += rnd.sample(thr, min(len(thr), max(50, n_sched_target // total_runs)))
                items = [{'id': k, 'lines': ch, 'alphabet': alphabet} for k, ch in enumerate(chunks(lines, 1500))]
                if not canary_done:
                    items.append({'id': -1, 'lines': make_canaries(lines[:4000]), 'alphabet': alphabet, 'canary': True})
                    canary_done = True
                futures.append((name, bg.submit(ck.run_binder, 'streamops', items, timeout=2400,
                                                extra={'kind': 'cases', 'detsched': False})))
                if not variant_done:
                    # the same cases once more with a StopIteration object behind the token 'U' (see the binder: VARIANT)
                    variant_done = True
                    v_items = [{'id': 5000 + k, 'lines': ch, 'alphabet': alphabet}
                               for k, ch in enumerate(chunks(lines if len(lines) <= 500000 else rnd.sample(lines, 500000), 1500))]
                    futures.append((name + ' [StopIteration variant]',
                                    bg.submit(ck.run_binder, 'streamops', v_items, timeout=2400,
                                              extra={'kind': 'cases', 'detsched': False, 'variant': 'stopiter'})))
                del lines
        if sched_pool:
            s_items = [{'id': k, 'lines': ch, 'alphabet': alphabet, 'seed': rnd.randrange(1 << 30)}
                       for k, ch in enumerate(chunks(sched_pool, 100))]
            futures.append(('sched', bg.submit(ck.run_binder, 'streamops', s_items, timeout=2400,
                                               extra={'kind': 'sched', 'detsched': True})))
        recorded = []
        n_canary = n_canary_hit = 0
        for name, fut in futures:
            out = fut.result()
            ck.evaluations += int(out.get('n_exec', 0))
            if name in ('random', 'random-sched'):
                recorded += out.get('recorded', [])
            else:
                ck.replays += int(out.get('n_cases', 0))
                n_threaded += int(out.get('n_threaded', 0)) if name != 'sched' else 0
                n_canary += int(out.get('canary_items', 0))
                n_canary_hit += len(out.get('canaries', []))
                perms += out.get('perms', [])
                for m in out.get('mismatches', []):
                    ck.violation({'leg': 'L2', 'name': name, 'kind': m['what'], 'case': m['case'], 'alphabet': alphabet,
                                  'source': m.get('src'), 'program': m['case'][1], 'expected_out': m['case'][2],
                                  'expected_raised': m['case'][3], 'need': m['case'][5],
                                  'observed': {k: v for k, v in m.items() if k not in ('case', 'src')},
                                  'under_detsched': name == 'sched'}, sig=ops_sig(m['case'], m['what']))
            for h in out.get('hangs', []):
                case = h.get('case') or [[], h.get('prog', [])]
                ck.violation({'leg': 'L2' if 'case' in h else 'L3', 'name': name, 'kind': 'hang-or-crash',
                              'status': h.get('status'), 'detail': h.get('detail'), 'exc': h.get('exc'),
                              'waitmap': h.get('waitmap'), 'case': h.get('case'), 'alphabet': alphabet,
                              'source': h.get('src'), 'program': case[1], 'seed': h.get('seed')},
                             sig={'leg': 'L2', 'kind': 'hang', 'status': h.get('status'), 'ops': [p[0] for p in case[1]],
                                  'exc': (h.get('exc') or '')[:60]})
            ck.legs.append({'leg': 'L2' if name not in ('random', 'random-sched') else 'L3-run', 'name': name,
                            **{k: v for k, v in out.items() if isinstance(v, (int, float))}})
        if (n_canary < 30 or n_canary_hit != n_canary) and not ck.violations and not ck.known_hits:
            raise Machinery(f'C03 comparison is vacuous: {n_canary_hit} of {n_canary} wrong expectations were flagged')
        ck.sensitivity['binder flags deliberately wrong expectations (output / raised / need)'] = \
            f'{n_canary_hit}/{n_canary} flagged'
    finally:
        bg.shutdown(wait=True)
    # shuffle (every enumerated shuffle case, capped) and the random programs are judged by TLC itself
    n_perms = len(perms)
    cap = 30000 if thorough else 6000
    if len(perms) > cap:
        perms = rnd.sample(perms, cap)
    ptraces = [perm_trace(k, pm) for k, pm in enumerate(perms)]

    def sig_of(t, v):
        return {'kind': (json.loads(v['last'])[0] if v.get('last') else None), 'ops': [d[0] for d in t['prog']]}

    rtraces = [dict(r, ev=[{'ev': 'Observe'}]) for r in recorded]
    ck.validate('shuffle yields a permutation (IsPermutation evaluated by TLC on the real outputs)', 'StreamOpsCheck',
                OPS_CHECK_CFG, ptraces, sig_of=sig_of, chunk=4000, timeout=1800)
    ck.validate('random programs (depth<=6, sources<=8 over a 15-letter alphabet) on the real Stream, judged by TLC',
                'StreamOpsCheck', OPS_CHECK_CFG, rtraces, sig_of=sig_of, chunk=2500, timeout=1800)
    ck.sample({'kind': 'case', 'note': 'source / program / observed result', **{k: recorded[0][k] for k in ('src', 'prog', 'got')}}
              if recorded else {'note': 'none'})
    ck.assumptions += [
        'operator parameters and element values come from small finite domains (boundary sizes 1, len, len+1; alphabet of '
        '6 elements incl. exception objects, an empty and a nested list); user functions are the fixed catalogue of StreamOps.tla',
        'groupby sub-iterators are consumed immediately, never, or for their first element only',
        'pull counts are decided for pipelines in which nothing fails and nothing is shuffled; exact for inline operators, '
        'bounds k+m+2 (buffer) and k+2*concurrency+3 (parmap) for the threaded ones',
        'parmap with executor="thread"; the process executor shares fifo_stream and is covered by C01',
    ]
    ck.notes.append(f'{n_cases} cases exported by TLC, {n_threaded} of them with buffer/parmap (real threads), '
                    f'{len(sched_pool)} threaded cases re-run under detsched, {len(ptraces)} of {n_perms} shuffle cases and '
                    f'{len(rtraces)} random programs judged by TLC')
    if thorough:
        ck.notes.append('depth-3 programs over sources <= 2 are replayed completely; for depth-3 over sources <= 3 and depth-2 '
                        'over sources <= 4 every case is model-checked (TypeOK, Laws; need-table laws on all cases resp. on the exported ones) and one residue class of a case '
                        'checksum (mod 96 / mod 3, chosen by VERIF_SEED) is replayed on the real code')
    ck.finish_rc = ck.finish(rule='every state of StreamOps.tla is one (source, program) case; TLC prints it with the expected '
                             'elements / raised element / need table computed from the TLA+ definitions; the binder builds the real '
                             'Stream (construction must pull nothing), consumes it by next()/collect()/drain() and compares')


def c03_replay(ck, rp):
    d = rp.get('detail', {})
    case, alphabet = d.get('case'), d.get('alphabet')
    if case is None and 'item' in d and 'prog' in d['item']:
        # a recorded execution that TLC rejected: run the same source / program / consumption mode again, judge again
        it = d['item']
        out = ck.run_binder('streamops', [{'id': 0, 'seed': 0, 'explicit': [{'src': it['src'], 'prog': it['prog'],
                                                                             'mode': it.get('mode', 'iter')}]}],
                            extra={'kind': 'random', 'detsched': False})
        traces = [dict(r, ev=[{'ev': 'Observe'}]) for r in out.get('recorded', [])]
        verd = ck.validate('replay', 'StreamOpsCheck', OPS_CHECK_CFG, traces) or []
        print(json.dumps({'source': it['src'], 'program': it['prog'], 'mode': it.get('mode'),
                          'observed': [r['got'] for r in out.get('recorded', [])], 'verdicts': verd}, default=repr)[:3000])
        bad = bool(out.get('hangs')) or any(not v['accepted'] for v in verd)
        print('replay: ' + ('REPRODUCED' if bad else 'not reproduced'))
        return 1 if bad else 0
    if case is None:
        print('replay: this violation carries no executable case (see the detail in the replay file)')
        print(json.dumps(d, default=repr)[:3000])
        return 1
    kind = 'sched' if d.get('under_detsched') else 'cases'
    out = ck.run_binder('streamops', [{'id': 0, 'lines': [json.dumps(case)], 'alphabet': alphabet, 'seed': d.get('seed', 0)}],
                        extra={'kind': kind, 'detsched': kind == 'sched'})
    print(json.dumps({'source': d.get('source'), 'program': case[1], 'expected_out': case[2], 'expected_raised': case[3],
                      'need': case[5]}))
    print(json.dumps({'mismatches': out.get('mismatches'), 'hangs': out.get('hangs')}, default=repr)[:3000])
    bad = bool(out.get('mismatches') or out.get('hangs'))
    print('replay: ' + ('REPRODUCED' if bad else 'not reproduced'))
    return 1 if bad else 0


# ---------------------------------------------------------------------------------------------------------------
# C19

EB_INV = ['TypeOK', 'Partition', 'BatchSize', 'EmitRule', 'NoDelay']
EB_TRACE_CFG = tlc.cfg_text(spec='TraceSpec',
                            constants=dict(MaxItems=0, Gaps={0}, BSizes={1}, Waits={0}, EagerModes={False}, Export=False,
                                           Variant='code'),
                            constraint='Progress', postcondition='Report', deadlock=False)


def eb_cfg(max_items, modes, export=False, variant='code', invariants=None):
    inv = list(EB_INV if invariants is None else invariants) + (['ExportI'] if export else [])
    return tlc.cfg_text(constants=dict(MaxItems=max_items, Gaps={0, 1, 2, 3}, BSizes={1, 2, 3}, Waits={0, 1, 2},
                                       EagerModes=set(modes), Export=export, Variant=variant),
                        invariants=inv, deadlock=True)


def eb_canaries(lines):
    out = []
    for ln in lines:
        c = json.loads(ln)
        if not c[4]:
            continue
        k = len(out) % 3
        if k == 0:
            c[4][-1][0] += 1  # yielded one tick later
        elif k == 1:
            if len(c[4][0][2]) < 2:
                continue
            c[4] = [[c[4][0][0], c[4][0][1], c[4][0][2][:1]]] + c[4]  # split differently
        else:
            c[1] += 1  # another wait time
            if c[0] == 1 or all(len(y[2]) == c[0] or y is c[4][-1] for y in c[4]):
                continue
        out.append(json.dumps(c))
        if len(out) >= 45:
            break
    return out


def c19(ck, replay=None):
    if replay is not None:
        return c19_replay(ck, replay)
    thorough = ck.tier == 'thorough'
    rnd = random.Random(ck.seed * 1000003 + 1903)
    # design leg (+ export of the unique behaviour of every eager scenario)
    if thorough:
        res = ck.l1('EagerBatcher/<=5 items, harness queue and real-queue interleavings', 'EagerBatcher',
                    eb_cfg(5, (True, False), export=True), timeout=2400, heap='16g')
    else:
        ck.l1('EagerBatcher/<=3 items, harness queue and real-queue interleavings', 'EagerBatcher',
              eb_cfg(3, (True, False)), timeout=900)
        res = ck.l1('EagerBatcher/<=4 items, harness queue (exported)', 'EagerBatcher', eb_cfg(4, (True,), export=True),
                    timeout=900)
    # the properties tell the design of the code apart from two near-by designs (vacuity guard)
    ck.sensitive('design mutant: timer restarts with every item', 'EagerBatcher',
                 eb_cfg(2, (True, False), variant='restart', invariants=['EmitRule', 'NoDelay']), 'invariant')
    ck.sensitive('design mutant: timeout wins over items already queued', 'EagerBatcher',
                 eb_cfg(2, (True, False), variant='strict', invariants=['EmitRule', 'NoDelay']), 'invariant')
    lines = [ln for ln in printed_json(res.stdout) if ln.startswith('[')] if res.violation is None else []
    res.stdout = ''
    if res.violation is None:
        n_inits = (res.actions.get('Init') or (0, 0))[0]
        if not lines:
            raise Machinery('EagerBatcher export: nothing printed')
        # (a) spec -> code: every behaviour through the real __iter__ on the virtual clock, compared exactly
        items = [{'id': k, 'lines': ch} for k, ch in enumerate(chunks(lines, 2000))]
        items.append({'id': -1, 'lines': eb_canaries(lines[len(lines) // 2:]), 'canary': True})
        out = ck.run_binder('eagerbatcher', items, extra={'kind': 'replay', 'detsched': False})
        ck.replays += int(out.get('n_cases', 0))
        ck.evaluations += int(out.get('n_exec', 0))
        for m in out.get('mismatches', []):
            c = m['case']
            ck.violation({'leg': 'L2', 'kind': m['what'], 'clock': m.get('clock'), 'case': c, 'batch_size': c[0], 'wait': c[1],
                          'custom_end': c[2],
                          'arrival_times': c[3], 'expected_yields_t_first_items': c[4], 'observed': m.get('got'),
                          'detail': m.get('detail')},
                         sig={'leg': 'L2', 'kind': m['what'], 'clock': m.get('clock'), 'b': c[0], 'w': c[1]})
        nc, nh = int(out.get('canary_items', 0)), len(out.get('canaries', []))
        if (nc < 20 or nh != nc) and not out.get('mismatches'):  # (code that disagrees anyway may agree with a canary)
            raise Machinery(f'C19 comparison is vacuous: {nh} of {nc} wrong expectations were flagged')
        ck.sensitivity['binder flags deliberately wrong expectations (yield time / partition / wait)'] = f'{nh}/{nc} flagged'
        ck.legs.append({'leg': 'L2', 'name': 'every eager behaviour replayed on the frozen and on the ticking virtual clock',
                        'replays': 2 * len(lines),
                        'init_states': n_inits, 'mismatches': len(out.get('mismatches', []))})
        if lines:
            ck.sample({'kind': 'replayed_behaviour', 'b_w_custom_times_yields': json.loads(lines[len(lines) // 2])})
    # (b) code -> spec: real queue.Queue + producer thread under detsched, traces validated by TLC
    scs = EB.gen_scenarios(rnd, 2000 if thorough else 70)
    strategies = ['random', 'pct', 'starve_consumer', 'starve_producer', 'random']
    t_items, k = [], 0
    for sc in scs:
        for j in range(8 if thorough else 5):
            k += 1
            # every other execution with a ticking clock (time elapses between statements)
            t_items.append({'id': k, 'sc': sc, 'seed': rnd.randrange(1 << 30), 'strategy': strategies[j % len(strategies)],
                            'eps': 1e-7 if k % 2 == 0 else 0.0})
    out = ck.run_binder('eagerbatcher', t_items, extra={'kind': 'threads'})
    ck.evaluations += int(out.get('n_exec', 0))
    for h in out.get('hangs', []):
        ck.violation({'leg': 'L3', 'kind': 'hang-or-crash', 'status': h['status'], 'detail': h.get('detail'),
                      'waitmap': h.get('waitmap'), 'exc': h.get('exc'),
                      'item': {'sc': h['sc'], 'seed': h['seed'], 'strategy': h['strategy']}, 'events': h['ev'][-60:]},
                     sig={'leg': 'L3', 'kind': 'hang', 'status': h['status'], 'exc': (h.get('exc') or '')[:60]})
    traces = out.get('traces', [])
    races = sum(1 for t in traces if any(e['ev'] == 'Timeout' and any(a['t'] == e['t'] and a['x'] != 0 for a in t['p']['arr'])
                                         for e in t['ev']))
    ck.validate('EagerBatcher over a real queue.Queue fed by a producer thread (detsched, virtual time)',
                'EagerBatcherTrace', EB_TRACE_CFG, traces, chunk=400,
                sig_of=lambda t, v: {'b': t['sc']['b'], 'w': t['sc']['w'], 'ticking_clock': bool(t.get('eps')),
                                     'inv': (json.loads(v['last'])[-1] if v.get('last') else None)})
    ck.legs.append({'leg': 'L3', 'name': 'traces in which a timeout and an arrival fall on the same instant', 'count': races})
    ck.assumptions += ['time is virtual; on the frozen clock the code\'s own execution takes no time, on the ticking clock every '
                       'clock read is 1e-7 later than the previous one (so the deadline is strictly past when the loop '
                       're-reads the clock: "already queued even past it")',
                       'thread leg: detsched preempts at synchronisation points; the queue log lines are written inside '
                       'the queue\'s critical section']
    ck.finish_rc = ck.finish(rule='L1: all arrival schedules (<=5 items, gaps 0..3) x b in 1..3 x w in 0..2 x end-marker flag, '
                             'both queue disciplines; L2: each eager behaviour = one exact replay; L3: one trace per (random '
                             'schedule N<=30, strategy, seed) validated by TLC incl. Partition/BatchSize/EmitRule/NoDelay on every state')


def c19_replay(ck, rp):
    d = rp.get('detail', {})
    if 'case' in d:
        out = ck.run_binder('eagerbatcher', [{'id': 0, 'lines': [json.dumps(d['case'])]}],
                            extra={'kind': 'replay', 'detsched': False})
        print(json.dumps({'case': d['case'], 'mismatches': out.get('mismatches')}, default=repr)[:3000])
        bad = bool(out.get('mismatches'))
    elif 'item' in d:
        it = d['item']
        out = ck.run_binder('eagerbatcher', [{'id': 1, **it}], extra={'kind': 'threads'})
        verd = ck.validate('replay', 'EagerBatcherTrace', EB_TRACE_CFG, out.get('traces', []))
        print(json.dumps({'item': it, 'hangs': out.get('hangs'), 'verdicts': verd}, default=repr)[:3000])
        bad = bool(out.get('hangs')) or any(not v['accepted'] for v in verd or [])
    else:
        print(json.dumps(d, default=repr)[:3000])
        return 1
    print('replay: ' + ('REPRODUCED' if bad else 'not reproduced'))
    return 1 if bad else 0
