"""C12 (ProcOutcome) and C20 (ChildLog): specs, sensitivity runs and the conformance legs on REAL processes / threads."""
from __future__ import annotations

import json
import os
import random

from mbt import framework, tlc
from mbt.bind import childlog as CB
from mbt.bind import procoutcome as PB

BOUND = float(os.environ.get('VERIF_HANG_BOUND', '20'))     # seconds granted to a call that should take < 0.5 s
ALL_ACCS = set(PB.PROC_ACCS)


# ---- suspected hangs: re-tried in fresh processes before they count ---------------------------------------------------------

def _run_cases(ck, binder, items, *, sig_of_hang, timeout=1500):
    """Runs `items` on real processes.  Returns (traces, confirmed_hangs).  A case that did not finish within its bound is
    only *suspected*; it is re-run twice, each time alone in a fresh runner process, and counts if it hangs all three times.
    A job gives up after 2 suspects (each costs the full bound); what it skipped is run again unless a hang was confirmed."""
    traces, confirmed = [], []
    todo = list(items)
    budget = 2
    for _round in range(3):
        if not todo:
            break
        out = ck.run_binder(binder, todo, timeout=timeout, extra={'detsched': False, 'bound': BOUND, 'hang_budget': budget})
        ck.evaluations += int(out.get('n_exec', 0))
        traces += out.get('traces', [])
        suspects = out.get('hangs', [])
        skipped = set(out.get('skipped', []))
        if suspects:
            pick, seen = [], set()
            for h in suspects:
                key = json.dumps(sig_of_hang(h), sort_keys=True)
                if key not in seen and len(pick) < 6:
                    seen.add(key)
                    pick.append(h)
            retry = []
            for h in pick:
                for r in (1, 2):
                    retry.append({'id': h['id'] * 10 + r, 'sc': h['sc'], 'retry_of': h['id']})
            out2 = ck.run_binder(binder, retry, timeout=timeout, per_job=1,
                                 extra={'detsched': False, 'bound': BOUND, 'hang_budget': 1})
            ck.evaluations += int(out2.get('n_exec', 0))
            again = {}
            for t in out2.get('traces', []):
                again.setdefault(t['id'] // 10, []).append(t)
            for h2 in out2.get('hangs', []):
                again.setdefault(h2['id'] // 10, []).append(h2)
            for h in pick:
                rs = again.get(h['id'], [])
                if len(rs) == 2 and all(r['status'] == h['status'] for r in rs):
                    confirmed.append(h)
                else:
                    ck.notes.append(f'suspected {h["status"]} not confirmed on retry (load?): {json.dumps(h["sc"])[:200]}')
                    traces += [r for r in rs if r['status'] == 'ok'][:1]
        if confirmed:
            break
        todo = [it for it in todo if it['id'] in skipped]
        budget = 4
    return traces, confirmed


# ---- C12 ---------------------------------------------------------------------------------------------------------------------

PO_INV = ['TypeOK', 'Agreement', 'ExitCodeRight', 'FutureRight']


def po_cfg(invariants=(), properties=(), *, spec='Spec', resolve=True, carrier=True, at_start=True, awaits=True,
           flavours=('proc', 'thread'), accs=ALL_ACCS, deadlock=False):
    # deadlock checking is off: a finished behaviour (worker gone, every accessor's report already in `obs`) has no successor
    return tlc.cfg_text(spec=spec, constants=dict(ResolveOnAbnormalExit=resolve, CarrierSafe=carrier, FutureAtStart=at_start,
                                                  JoinAwaitsExitCode=awaits, Flavours=set(flavours), Accs=set(accs)),
                        invariants=invariants, properties=properties, deadlock=deadlock)


def po_trace_cfg():
    return tlc.cfg_text(spec='TraceSpec', constants=dict(ResolveOnAbnormalExit=True, CarrierSafe=True, FutureAtStart=True,
                                                         JoinAwaitsExitCode=True, Flavours={'proc', 'thread'}, Accs=ALL_ACCS),
                        constraint='Progress', postcondition='Report', deadlock=False)


def _po_scen(sc):
    return 'killed' if sc['phase'] != 'none' else 'raiseX' if sc['kind'] == 'raiseX' else 'normal'


def _po_sig_of_hang(h):
    sc = h['sc']
    return {'leg': 'L3', 'kind': 'hang', 'status': h['status'], 'flavour': sc['flavour'], 'acc': h.get('acc'),
            'scenario': _po_scen(sc)}


def _po_sig_of_reject(t, v):
    k = v['reached']
    ev = t['ev'][k - 1] if 0 < k <= len(t['ev']) else {}
    sc = t['sc']
    return {'flavour': sc['flavour'], 'acc': ev.get('acc'), 'x': ev.get('x'), 'scenario': _po_scen(sc)}


def _po_report_hangs(ck, hangs, name):
    for h in hangs:
        ck.violation({'leg': 'L3', 'name': name, 'kind': 'hang', 'status': h['status'], 'acc': h.get('acc'),
                      'detail': h.get('detail'), 'exitcode_then': h.get('exitcode_then'), 'future_done': h.get('future_done'),
                      'waitmap': h.get('waitmap'), 'thread_errors': h.get('thread_errors'),
                      'item': {'id': h['id'], 'sc': h['sc'], 'seed': h.get('seed'), 'detsched': h.get('detsched', False)},
                      'events': h['ev']},
                     sig=_po_sig_of_hang(h))


def c12(ck, replay=None):
    if replay is not None:
        return _replay(ck, replay, 'procoutcome', 'ProcOutcomeTrace', po_trace_cfg())
    thorough = ck.tier == 'thorough'
    # L1: the whole model (both flavours, every ending kind, a signal at every label, accessors in every order)
    ck.l1('ProcOutcome/safety', 'ProcOutcome', po_cfg(PO_INV), may_skip=('Next',))
    ck.l1('ProcOutcome/bounded accessors (liveness)', 'ProcOutcome',
          po_cfg([], ['BoundedAccessors', 'WorkerEnds'], spec='FairSpec', accs={'wait', 'join', 'exitcode'}), coverage=False)
    for goal in ('Trap_KilledBetweenMessages', 'Trap_ReapedByCollector', 'Trap_KilledAfterHandOver'):
        ck.trap(goal, 'ProcOutcome', po_cfg([goal], accs={'wait'}))
    # the as-found code, flag by flag, must be refuted by TLC
    ck.sensitive('collector raises in its own thread on abnormal exit: exception() raises (D12)', 'ProcOutcome',
                 po_cfg(['Agreement'], resolve=False), 'invariant', 'Agreement')
    ck.sensitive('collector raises in its own thread on abnormal exit: future never resolved (D12)', 'ProcOutcome',
                 po_cfg([], ['BoundedAccessors'], spec='FairSpec', resolve=False, accs={'wait'}), 'temporal')
    ck.sensitive('Thread.run cannot build the traceback carrier: future never resolved (D17)', 'ProcOutcome',
                 po_cfg([], ['BoundedAccessors'], spec='FairSpec', carrier=False, accs={'wait'}), 'temporal')
    ck.sensitive('Thread future created by run(): wait() right after start() (D18)', 'ProcOutcome',
                 po_cfg(['Agreement'], at_start=False), 'invariant', 'Agreement')
    ck.sensitive('exit code read as None after the collector reaped the child: spurious timeout (D19)', 'ProcOutcome',
                 po_cfg(['Agreement'], awaits=False), 'invariant', 'Agreement')

    rnd = random.Random(ck.seed * 1000003 + 1201)
    # conformance, real processes and real threads: the finite space kind x kill phase x signal x first accessor
    if thorough:
        scs = PB.gen_scenarios(rnd, 'proc', 3, all_first=True) + PB.gen_scenarios(rnd, 'thread', 2, all_first=True)
    else:
        scs = PB.gen_scenarios(rnd, 'proc', 2) + PB.gen_scenarios(rnd, 'thread', 1)
    items = [{'id': i + 1, 'sc': sc} for i, sc in enumerate(scs)]
    traces, hangs = _run_cases(ck, 'procoutcome', items, sig_of_hang=_po_sig_of_hang)
    for h in list(hangs):
        if h['status'] == 'nophase' and h['sc'].get('phase') in ('between', 'final'):
            # the child never got to a point that lies BEHIND the delivery of its outcome (three times, in fresh processes):
            # it is stuck in the library's own code, not in the harness's
            hangs.remove(h)
            ck.violation({'leg': 'L3', 'kind': 'child-stuck', 'detail': h.get('detail'), 'sc': h['sc'], 'events': h['ev'][-20:]},
                         sig={'leg': 'L3', 'kind': 'child-stuck-delivering-outcome', 'flavour': h['sc']['flavour'],
                              'scenario': _po_scen(h['sc'])})
        elif h['status'] != 'hang':
            raise framework.Machinery(f'C12 harness: {h["status"]}: {h.get("detail")} in {json.dumps(h["sc"])}')
    _po_report_hangs(ck, hangs, 'real Process / Thread objects')
    # what a hung case observed before it hung is a trace prefix and is validated like the complete traces
    traces += [dict(h, status='prefix') for h in hangs if h['ev']]
    ck.validate('real Process / Thread: phase-gated signals, accessors in every first position', 'ProcOutcomeTrace',
                po_trace_cfg(), traces, sig_of=_po_sig_of_reject)

    # conformance, Thread flavour under detsched: who runs first after start(), where the thread is at each accessor
    tscs = PB.gen_scenarios(rnd, 'thread', 40 if thorough else 2, all_first=True)
    titems = [{'id': 100000 + i, 'sc': sc, 'seed': rnd.randrange(1 << 30)} for i, sc in enumerate(tscs)]
    out = ck.run_binder('procoutcome', titems, nproc=8, timeout=900, extra={'detsched': True})
    ck.evaluations += int(out.get('n_exec', 0))
    bad = [h for h in out.get('hangs', []) if h['status'] != 'hang']
    if bad:
        raise framework.Machinery(f'C12 detsched harness: {bad[0]["status"]}: {bad[0].get("detail")} exc={bad[0].get("exc")}')
    _po_report_hangs(ck, out.get('hangs', []), 'Thread under detsched')
    ck.validate('Thread under detsched (start / run / accessor interleavings)', 'ProcOutcomeTrace', po_trace_cfg(),
                out.get('traces', []), sig_of=_po_sig_of_reject)
    ck.assumptions += [
        'SIGINT means KeyboardInterrupt in the child (the harness makes sure SIGINT is not inherited as ignored)',
        'the abstract outcome is decided when the child has handed over result and error: a signal after that changes the '
        'exit code only; SIGTERM before that is reported as a quiet end (result None), as terminate() is documented',
        'done() / exitcode are probes: False / None are accepted as long as the model can still be before the exit',
        f'a call that has not returned within {BOUND:.0f} s, three times in fresh processes, is a hang',
    ]
    ck.finish_rc = ck.finish(rule='every (ending kind x kill phase x signal) case with every accessor first (thorough) / a rotating '
                             'first accessor (quick) on real objects; each accessor return/raise is one event validated by TLC')


# ---- C20 ---------------------------------------------------------------------------------------------------------------------

CL_INV = ['TypeOK', 'PipeBound', 'UsedRight', 'HandledPrefix', 'NoLoss']


def cl_cfg(invariants=(), properties=(), *, spec='Spec', flag=True, maxn=3, caps=(2, 3), deadlock=True):
    return tlc.cfg_text(spec=spec, constants=dict(NoneAfterChildExit=flag, MaxN=maxn, Caps=set(caps)),
                        invariants=invariants, properties=properties, deadlock=deadlock)


def cl_trace_cfg():
    return tlc.cfg_text(spec='TraceSpec', constants=dict(NoneAfterChildExit=True, MaxN=0, Caps={1}),
                        constraint='Progress', postcondition='Report', deadlock=False)


def _cl_shape(sc):
    return 'beyond-pipe' if sc['n'] * (sc['bytes'] + 450) > 65536 else 'within-pipe'      # a pickled LogRecord adds ~450 B


def _cl_sig_of_hang(h):
    sc = h['sc']
    return {'leg': 'L3', 'kind': 'hang', 'status': h['status'], 'flavour': sc['flavour'], 'acc': h.get('acc'),
            'volume': _cl_shape(sc)}


def _cl_sig_of_reject(t, v):
    sc = t['sc']
    return {'flavour': sc['flavour'], 'volume': _cl_shape(sc), 'failed': json.loads(v['last'])[-1] if v.get('last') else None}


def c20(ck, replay=None):
    if replay is not None:
        return _replay(ck, replay, 'childlog', 'ChildLogTrace', cl_trace_cfg())
    thorough = ck.tier == 'thorough'
    ck.l1('ChildLog/safety', 'ChildLog', cl_cfg(CL_INV, maxn=5 if thorough else 3, caps=(2, 3, 4) if thorough else (2, 3)),
          may_skip=('Next',))
    ck.l1('ChildLog/child exits, join returns, logger drains (liveness)', 'ChildLog',
          cl_cfg([], ['ChildExits', 'JoinReturns', 'LoggerStops'], spec='FairSpec', maxn=4 if thorough else 3), coverage=False,
          timeout=2400)
    for goal in ('Trap_ResultWhileFeederBlocked', 'Trap_JoinBeforeDrained'):
        ck.trap(goal, 'ChildLog', cl_cfg([goal], maxn=3))
    ck.sensitive('None enqueued as soon as the result arrived: records lost (D13)', 'ChildLog',
                 cl_cfg(['NoLoss'], flag=False, maxn=2), 'invariant', 'NoLoss')
    ck.sensitive('None enqueued as soon as the result arrived: child blocked at exit on the full pipe (D13)', 'ChildLog',
                 cl_cfg([], flag=False, maxn=3), 'deadlock')
    ck.sensitive('None enqueued as soon as the result arrived: join never returns (D13)', 'ChildLog',
                 cl_cfg([], ['ChildExits'], spec='FairSpec', flag=False, maxn=3, deadlock=False), 'temporal')

    rnd = random.Random(ck.seed * 1000003 + 2003)
    scs = CB.gen_scenarios(rnd, thorough)
    if thorough:
        scs = scs + CB.gen_scenarios(rnd, True)      # every case twice: the race is decided by timing, not by parameters
    rnd.shuffle(scs)
    items = [{'id': i + 1, 'sc': sc} for i, sc in enumerate(scs)]
    traces, hangs = _run_cases(ck, 'childlog', items, sig_of_hang=_cl_sig_of_hang)
    for h in hangs:
        if h['status'] != 'hang':
            raise framework.Machinery(f'C20 harness: {h["status"]}: {h.get("detail")} in {json.dumps(h["sc"])}')
        ck.violation({'leg': 'L3', 'kind': 'hang', 'acc': h.get('acc'), 'detail': h.get('detail'),
                      'handled_then': h.get('handled_then'), 'emitted': h['sc']['n'], 'child_alive': h.get('alive'),
                      'item': {'id': h['id'], 'sc': h['sc']}, 'events': h['ev'][-40:]},
                     sig=_cl_sig_of_hang(h))
    ck.validate('real children (Process, ProcessServlet worker, ProcessPoolExecutor) logging below / around / beyond the pipe',
                'ChildLogTrace', cl_trace_cfg(), traces, sig_of=_cl_sig_of_reject, chunk=60)
    ck.assumptions += [
        'sizes are abstracted to 1 KiB units, rounded so that the model pipe is never smaller than the real one',
        'the parent observes only: records handled, join()/exit/shutdown returning, exit code, logger thread ended; the '
        'child side is reconstructed by the model (eager silent steps)',
        f'join() not returning within {BOUND:.0f} s (+ handler time), three times in fresh processes, is a hang',
    ]
    ck.finish_rc = ck.finish(rule='record count x size (0 .. 300 records, 50 B .. 100 kB, total up to 5x the pipe) x parent handler '
                             'fast / 2 ms x return / raise / sys.exit x pauses before the end; handled list, order, join, exit '
                             'code and logger termination validated by TLC against ChildLog')


# ---- replay --------------------------------------------------------------------------------------------------------------------

def _replay(ck, rp, binder, trace_module, cfg):
    """re-executes the recorded case (3 times) and prints what happens"""
    item = (rp.get('detail') or {}).get('item') or {}
    if 'sc' not in item:
        print('replay file has no scenario (L1 counterexamples are re-derived by running the check)')
        return 2
    rc = 0
    for k in range(3):
        it = {'id': 1, 'sc': item['sc']}
        extra = {'detsched': bool(item.get('detsched'))}
        if item.get('seed') is not None:
            it['seed'] = item['seed']
        if not extra['detsched']:
            extra.update(bound=BOUND, hang_budget=1)
        out = ck.run_binder(binder, [it], per_job=1, extra=extra)
        for h in out.get('hangs', []):
            print(f'run {k + 1}: {h["status"]} in {h.get("acc")}: {h.get("detail")}; events so far: {json.dumps(h["ev"])[:1500]}')
            rc = 1
        trs = out.get('traces', [])
        if trs:
            verdicts, _ = tlc.validate_traces(trace_module, cfg, trs)
            for t, v in zip(trs, verdicts):
                where = t['ev'][v['reached'] - 1] if 0 < v['reached'] <= len(t['ev']) else None
                print(f'run {k + 1}: trace of {len(t["ev"])} events ' +
                      ('accepted' if v['accepted'] else f'REJECTED at event {v["reached"]}: {json.dumps(where)} model={v["last"]}'))
                if not v['accepted']:
                    rc = 1
                    print('   events: ' + json.dumps(t['ev'])[:3000])
    return rc
