import importlib
import os
import sys

sys.path.insert(0, os.path.dirname(os.path.dirname(os.path.abspath(__file__))))
from mbt import framework  # noqa: E402

REGISTRY = {
    'C01': ('checks.streams', 'c01'),
    'C02': ('checks.servlets', 'c02'),
    'C03': ('checks.ops', 'c03'),
    'C04': ('checks.servlets', 'c04'),
    'C05': ('checks.streams', 'c05'),
    'C06': ('checks.server', 'c06'),
    'C07': ('checks.server', 'c07'),
    'C08': ('checks.streams', 'c08'),
    'C09': ('checks.batch', 'c09'),
    'C10': ('checks.tee', 'c10'),
    'C11': ('checks.lifecycle', 'c11'),
    'C12': ('checks.proc', 'c12'),
    'C13': ('checks.manager', 'c13'),
    'C14': ('checks.manager', 'c14'),
    'C15': ('checks.transport', 'c15'),
    'C16': ('checks.streams', 'c16'),
    'C17': ('checks.iterqueue', 'c17'),
    'C18': ('checks.transport', 'c18'),
    'C19': ('checks.ops', 'c19'),
    'C20': ('checks.proc', 'c20'),
    # beyond the listed properties (evidence under extras/evidence/)
    'X01': ('checks.extras', 'x01'),
    'X02': ('checks.extras', 'x02'),
    'X03': ('checks.extras', 'x03'),
    'X04': ('checks.extras', 'x04'),
}


def main():
    if len(sys.argv) < 2 or sys.argv[1] not in REGISTRY:
        print('usage: check <ID> [--tier quick|thorough] [--replay FILE]; ids: ' + ' '.join(sorted(REGISTRY)))
        return 2
    pid = sys.argv[1]
    mod, fn = REGISTRY[pid]
    run = getattr(importlib.import_module(mod), fn)
    return framework.main(run, pid, sys.argv[2:])


if __name__ == '__main__':
    rc = main()
    sys.stdout.flush()
    sys.stderr.flush()
    os._exit(rc)
