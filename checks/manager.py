"""C13 (RefCount) and C14 (ProxyCall): the manager server of multiprocessing/server_process.py.

Real processes only (no detsched): every conformance item starts a fresh ServerProcess plus client processes inside a
runner job; a hang is a generous wall-clock bound, retried 3x in the binder before it counts.
"""
from __future__ import annotations

import json
import os
import random

from mbt import tlc
from mbt.bind import refcount as RB
from mbt.framework import Machinery


def simulate(module, cfg, *, num, depth, seed, timeout=600):
    """Random behaviours of a spec: list of [(action, state), ...].  (`tlc.simulate` asks TLC to write into a directory
    that does not exist yet; here the files go into the scratch directory itself.)"""
    behs = []

    def keep(scratch, res):
        for fn in sorted(os.listdir(scratch)):
            if fn.startswith('simb_'):
                behs.append(tlc.parse_sim_file(os.path.join(scratch, fn)))

    res = tlc.run_tlc(module, cfg, workers=1, timeout=timeout, simulate=f'file=simb,num={num}', depth=depth, seed=seed,
                      keep=keep)
    if getattr(res, 'timed_out', False) or (res.violation is not None):
        raise Machinery(f'simulate {module}: {res.violation and res.violation["name"]}\n{res.stdout[-1500:]}')
    if not behs:
        raise Machinery(f'simulate {module}: no behaviour written\n{res.stdout[-1500:]}')
    return behs


def par(ck, tasks, jobs=5):
    """Independent TLC runs concurrently.  tasks: callables taking a private Check; their legs, counts, violations and
    sensitivity results are merged into `ck` in task order; a Machinery failure of any task propagates."""
    from concurrent.futures import ThreadPoolExecutor

    from mbt.framework import Check
    subs = [Check(ck.pid, ck.tier, ck.seed) for _ in tasks]
    for sub in subs:
        sub.findings = ck.findings
    with ThreadPoolExecutor(max_workers=jobs) as ex:
        futs = [ex.submit(t, sub) for t, sub in zip(tasks, subs)]
        vals = [f.result() for f in futs]
    for sub in subs:
        ck.legs += sub.legs
        ck.states += sub.states
        ck.transitions += sub.transitions
        ck.violations += sub.violations
        ck.known_hits += sub.known_hits
        ck.sensitivity.update(sub.sensitivity)
    return vals


# ===============================================================================================================
# C13

RC_SAFETY = ['TypeOK', 'Count', 'NoPrematureDestroy', 'ShmSafe', 'HoldersExist']
RC_LIVE = ['NoLeak', 'ShmReleased', 'AllGone']
RC_SKIP = ('Next', 'Internal', 'External')
# reachability goals replayed on the real server: (trap, client processes, children)
RC_TRAPS = [
    ('Trap_LastProxyDroppedInTransit', ('p1', 'p2'), ()),
    ('Trap_CascadeDestroy', ('p1',), ()),
    ('Trap_KidIsLastHolder', ('p1', 'p2'), ('k1',)),
    ('Trap_PoppedIsOnlyRef', ('p1',), ()),
    ('Trap_ExitHoldingTwo', ('p1', 'p2'), ()),
    ('Trap_NestedOnly', ('p1', 'p2'), ()),
    ('Trap_KidWhileOtherExited', ('p1', 'p2'), ('k1',)),
    ('Trap_SelfStore', ('p1',), ()),
    ('Trap_Rewrapped', ('p1', 'p2'), ()),
]


def rc_cfg(maxid, invariants=(), properties=(), *, spec='Spec', inherit=True, exitrel=True, selfstore=True, rewrap=True,
           procs=('p1', 'p2'), kids=('k1',), conts=('c',), blocks=('m',), view=True, constraint=None,
           postcondition=None):
    return tlc.cfg_text(spec=spec,
                        constants=dict(Procs=set(procs), Kids=set(kids), Containers=set(conts), Blocks=set(blocks),
                                       MaxId=maxid, AllowSelfStore=selfstore, InheritOwnsRef=inherit,
                                       ExitReleases=exitrel, RewrapKeepsCount=rewrap),
                        invariants=invariants, properties=properties, deadlock=False,
                        view='view' if view else None, constraint=constraint, postcondition=postcondition)


def rc_trace_cfg():
    return rc_cfg(400, spec='TraceSpec', procs=('p1', 'p2', 'p3'), kids=('k1', 'k2', 'k3'), conts=('c1', 'c2'),
                  blocks=('m1', 'm2'), view=False, constraint='Progress', postcondition='Report')


def _beh(trace):
    return [[a, s] for a, s in trace if s is not None]


def rc_classify(action, cmp_):
    return 'leak-at-exit' if action in ('ProcessExit', 'Teardown') and cmp_ == 'real>spec' else 'other'


def rc_l3_sig(t, v):
    """what the rejected observation followed, and in which direction the real count differs from the model's"""
    k = v['reached']
    evs = t['ev']
    prev = next((e for e in reversed(evs[:max(0, k - 1)]) if e['ev'] != 'Obs'), {'ev': 'none'})
    who = prev.get('p') or prev.get('to') or ''
    cmp_ = 'other'
    try:
        last = json.loads(v['last'])
        model_rc = last[0][0]
        ev = evs[k - 1]
        if ev['ev'] == 'Obs':
            d = [(ev['rc'][o], model_rc.get(o, 0)) for o in ev['rc']]
            if all(a >= b for a, b in d) and any(a > b for a, b in d):
                cmp_ = 'real>spec'
            elif all(a <= b for a, b in d) and any(a < b for a, b in d):
                cmp_ = 'real<spec'
    except Exception:  # noqa: BLE001
        pass
    return {'after': prev['ev'], 'holder': 'kid' if who.startswith('k') else 'proc', 'cmp': cmp_,
            'class': rc_classify(prev['ev'], cmp_)}


def rc_tlc_phase(ck, thorough):
    """all TLC work of C13, run concurrently: L1, sensitivity, and the histories for the replay leg (probes: shortest
    counterexamples of the AS-FOUND design, one per flag; traps: shortest paths to the reachability goals; simulate)"""
    W = 6
    tasks = [
        lambda c: c.l1('RefCount/safety', 'RefCount', rc_cfg(7 if thorough else 5, RC_SAFETY), may_skip=RC_SKIP),
        lambda c: c.l1('RefCount/safety, two containers', 'RefCount',
                       rc_cfg(5 if thorough else 4, RC_SAFETY, conts=('c', 'd'), blocks=('m',), kids=()),
                       may_skip=RC_SKIP + ('RebuildInheriting',), workers=W),
        lambda c: c.l1('RefCount/liveness', 'RefCount',
                       rc_cfg(6 if thorough else 5, [], RC_LIVE, spec='FairSpec', selfstore=False), coverage=False,
                       timeout=2400, workers=W),
        # the as-found design must violate the property in the model
        lambda c: c.sensitive('child proxy rebuilt while inheriting owns no reference and never gives back the transit '
                              'one (D15)', 'RefCount', rc_cfg(5, ['Count'], inherit=False), 'invariant', 'Count', workers=W),
        lambda c: c.sensitive('D15: the hosted object is never destroyed (liveness)', 'RefCount',
                              rc_cfg(4, [], ['AllGone'], spec='FairSpec', inherit=False, selfstore=False), 'temporal',
                              workers=W),
        lambda c: c.sensitive('proxies still referenced at process exit are never released (D15b)', 'RefCount',
                              rc_cfg(5, ['Count'], exitrel=False), 'invariant', 'Count', workers=W),
        lambda c: c.sensitive('create() resets the count of an object that is hosted already (managed() of the same object '
                              'twice): premature destruction', 'RefCount', rc_cfg(6, ['Count'], rewrap=False), 'invariant',
                              'Count', workers=W),
    ]
    n_fixed = len(tasks)
    probes = (('InheritOwnsRef', {'inherit': False}), ('ExitReleases', {'exitrel': False}))
    for flag, kw in probes:
        tasks.append(lambda c, flag=flag, kw=kw: c.sensitive(
            f'{flag}=FALSE violates Count (history for the replay leg)', 'RefCount',
            rc_cfg(8, ['Count'], spec='SeqSpec', view=False, **kw), 'invariant', 'Count', workers=W))
    for trap, procs, kids in RC_TRAPS:
        tasks.append(lambda c, trap=trap, procs=procs, kids=kids: c.trap(
            trap, 'RefCount', rc_cfg(10, [trap], spec='SeqSpec', procs=procs, kids=kids, view=False), timeout=600, workers=W))
    tasks.append(lambda c: simulate('RefCount', rc_cfg(18, ['Count'], spec='SeqSpec', kids=('k1', 'k2'), view=False),
                                    num=240 if thorough else 64, depth=40, seed=ck.seed * 7919 + 11))
    vals = par(ck, tasks)
    items = []
    for (flag, kw), res in zip(probes, vals[n_fixed:]):
        items.append({'kind': 'replay', 'probe': flag, 'id': 'probe-' + flag, 'beh': _beh(res.violation['trace']),
                      'variant': {'container': {'c': 'dict'}, 'exit': 'hold'}})
    n_probe = len(items)
    for (trap, procs, kids), tr in zip(RC_TRAPS, vals[n_fixed + len(probes):]):
        items.append({'kind': 'replay', 'src': trap, 'beh': _beh(tr)})
    for b in vals[-1]:
        items.append({'kind': 'replay', 'src': 'simulate', 'beh': [[a, st] for a, st in b]})
    rnd = random.Random(ck.seed * 1000003 + 131)
    for k, it in enumerate(items[n_probe:]):
        it['id'] = k
        it['variant'] = {'container': {'c': rnd.choice(['dict', 'list'])}, 'exit': rnd.choice(['hold', 'hold', 'drop']),
                         # the handle table of one client kept inside a SECOND server process (binder: VaultTab)
                         'vault': [['p1'], ['p2']][k % 2] if k % 3 == 1 else []}
    return items


def rc_report(ck, out):
    nsteps = 0
    for r in out.get('results', []):
        item = {k: r.get(k) for k in ('id', 'kind', 'src', 'probe', 'variant', 'sc', 'seed', 'attempts')}
        if r.get('probe'):
            if r['status'] == 'ok':
                ck.violation({'leg': 'L2', 'kind': 'as-found-conforms', 'flag': r['probe'], 'item': item,
                              'what': f'the real server follows the counterexample of the design with {r["probe"]}=FALSE '
                                      'into the state that violates Count', 'steps': r.get('steps'),
                              'history': r.get('history')},
                             sig={'leg': 'L2', 'kind': 'as-found-conforms', 'flag': r['probe'], 'class': 'leak-at-exit'})
            elif r['status'] == 'hang':
                ck.violation({'leg': 'L2', 'kind': 'hang', 'item': item, 'detail': r.get('detail')},
                             sig={'leg': 'L2', 'kind': 'hang'})
            else:
                ck.replays += 1
            continue
        if r['status'] == 'ok':
            nsteps += r.get('steps', 0)
            if r['kind'] == 'replay':
                ck.replays += 1
            continue
        if r['status'] == 'bad-behaviour':
            raise Machinery(f'replay item {r["id"]}: {r.get("detail")}')
        sig = dict(r.get('sig') or {})
        sig['leg'] = 'L2' if r['kind'] == 'replay' else 'L3'
        sig['class'] = rc_classify(sig.get('action'), sig.get('cmp'))
        ck.violation({'leg': sig['leg'], 'status': r['status'], 'item': item, 'action': r.get('action'),
                      'steps_ok': r.get('steps'), 'detail': r.get('detail'), 'history': r.get('history'),
                      'events': r.get('ev', [])[-40:]}, sig=sig)
    return nsteps


def c13(ck, replay=None):
    if replay is not None:
        return rc_rerun(ck, replay)
    thorough = ck.tier == 'thorough'
    # ---- L1, sensitivity, histories (TLC) ; then spec -> code
    items = rc_tlc_phase(ck, thorough)
    out = ck.run_binder('refcount', items, timeout=900, extra={'detsched': False})
    nsteps = rc_report(ck, out)
    ck.evaluations += nsteps
    ck.legs.append({'leg': 'L2', 'name': 'TLC histories (traps + simulate, SeqSpec) executed on a real ServerProcess',
                    'replays': len(items), 'steps_compared': nsteps})
    for it in items[2:4]:
        ck.sample({'kind': 'replayed_history', 'src': it['src'], 'actions': [s['act'] for a, s in it['beh'][1:30]]})
    # ---- code -> spec
    rnd = random.Random(ck.seed * 1000003 + 137)
    scs = RB.gen_scenarios(rnd, 240 if thorough else 48, 60 if thorough else 30)
    ritems = [{'kind': 'random', 'id': k, 'sc': sc, 'seed': rnd.randrange(1 << 30)} for k, sc in enumerate(scs)]
    out = ck.run_binder('refcount', ritems, timeout=900, extra={'detsched': False})
    rc_report(ck, out)
    traces = [{'id': r['id'], 'p': RB.header(r['sc']), 'ev': r['ev'], 'sc': r['sc'], 'seed': r['seed']}
              for r in out.get('results', []) if r['status'] == 'ok']
    ck.validate('random histories on a real ServerProcess', 'RefCountTrace', rc_trace_cfg(), traces, sig_of=rc_l3_sig,
                chunk=20)
    ck.assumptions += [
        'the serving thread of a connection references the previous request/reply until the connection\'s next request: '
        'the harness flushes every connection before observing; the model treats that release as an internal step (weakly fair)',
        'a child spawned with a proxy in args can release it only by exiting (Process object and run() frame reference the args)',
        'a pickled proxy is deserialized exactly once by a live process (premise of the property)',
        'reference cycles through hosted containers are legitimately immortal (AllGone is checked without self-store)']
    ck.finish_rc = ck.finish(rule='after every external action the server is flushed/polled to quiescence and debug_info '
                             'refcounts, handles held (each answered a call), container keys and /dev/shm/<name> must equal '
                             'the model state; after the last process exits only unread pickles / cycles may survive')


def rc_rerun(ck, rp):
    d = rp.get('detail', {})
    item = d.get('item') or {}
    print(json.dumps({'sig': rp.get('sig'), 'item': {k: item.get(k) for k in ('id', 'kind', 'src', 'probe', 'seed')}}))
    if item.get('kind') == 'random' or (item.get('sc') and item.get('seed') is not None):
        out = ck.run_binder('refcount', [{'kind': 'random', 'id': 0, 'sc': item['sc'], 'seed': item['seed']}],
                            extra={'detsched': False})
        r = out['results'][0]
        print('status', r['status'], json.dumps(r.get('detail'))[:2000])
        if r['status'] == 'ok':
            verd, _ = tlc.validate_traces('RefCountTrace', rc_trace_cfg(),
                                          [{'id': 0, 'p': RB.header(item['sc']), 'ev': r['ev']}])
            print('TLC verdict', json.dumps(verd[0])[:1500])
            return 0 if verd[0]['accepted'] else 1
        return 1
    if d.get('history'):
        out = ck.run_binder('refcount', [{'kind': 'replay', 'id': 0, 'beh': d['history'], 'variant': item.get('variant') or {},
                                          'probe': item.get('probe')}], extra={'detsched': False})
        r = out['results'][0]
        print('status', r['status'], json.dumps({k: r.get(k) for k in ('steps', 'action', 'sig', 'detail')})[:2500])
        return 0 if (r['status'] == 'ok') != bool(item.get('probe')) else 1
    print('nothing to re-execute in this replay file')
    return 2


# ===============================================================================================================
# C14

from mbt.bind import proxycall as PB  # noqa: E402

PC_INV = ['TypeOK', 'DictFunctional', 'ProxyProvenance', 'ConnUsable']
PC_PROPS = ['SameAsDirect', 'ErrorsAreNoOps', 'AliasView']
PC_ALL = ('L', 'K', 'D', 'N', 'V', 'C')
PC_CALLS = ('CallL', 'CallK', 'CallD', 'CallN', 'CallV', 'CallC')


def pc_cfg(active, *, vals=(0, 1, 5), nkeys=2, maxlen=2, maxn=2, callers=('t1', 'sv'), invariants=PC_INV,
           properties=PC_PROPS, imul=True, ns=True, isr=True, view=True, spec='Spec', constraint=None,
           postcondition=None):
    return tlc.cfg_text(spec=spec,
                        constants=dict(Callers=set(callers), Active=set(active), Vals=set(vals), NKeys=nkeys,
                                       MaxLen=maxlen, MaxN=maxn, ImulInPlace=imul, NamespaceProxyOK=ns,
                                       InServerRaise=isr),
                        invariants=invariants, properties=properties, deadlock=False,
                        view='view' if view else None, constraint=constraint, postcondition=postcondition)


def pc_trace_cfg():
    return pc_cfg(PC_ALL, vals=range(6), nkeys=3, maxlen=400, maxn=100000, callers=PB.ALL_CALLERS, invariants=(),
                  properties=(), view=False, spec='TraceSpec', constraint='Progress', postcondition='Report')


def pc_skip(active):
    used = {'L': 'CallL', 'K': 'CallK', 'D': 'CallD', 'N': 'CallN', 'V': 'CallV', 'C': 'CallC'}
    return ('Next',) + tuple(c for c in PC_CALLS if c not in {used[o] for o in active})


def pc_items_from(behs, src, rnd, start_id):
    items = []
    for b in behs:
        states = [s for a, s in b[1:]]
        if not states:
            continue
        acts = [s['act'] for s in states]
        items.append({'kind': 'replay', 'id': start_id + len(items), 'src': src, 'acts': acts,
                      'kstates': [s['K'] for s in states],
                      'final': {k: states[-1][k] for k in ('L', 'K', 'D', 'N', 'V', 'n')},
                      'variant': rnd.randrange(PB.N_VARIANTS)})
    return items


def pc_l3_sig(t, v):
    cls = (t.get('classes') or ['other'])[0]
    return {'class': cls, 'callers': len(t['sc']['callers'])}


def pc_report(ck, out, leg):
    nsteps = 0
    pairs = set()
    for r in out.get('results', []):
        item = {k: r.get(k) for k in ('id', 'kind', 'src', 'variant', 'sc', 'seed', 'attempts')}
        if r['status'] == 'ok':
            nsteps += r.get('steps', 0)
            if r['kind'] == 'replay':
                ck.replays += 1
            continue
        if r['status'] == 'machinery':
            raise Machinery(f'{leg} item {r["id"]}: {r.get("detail")}')
        sig = dict(r.get('sig') or {})
        sig['leg'] = leg
        ck.violation({'leg': leg, 'status': r['status'], 'item': item, 'steps_ok': r.get('steps'),
                      'detail': r.get('detail'), 'acts': r.get('acts')}, sig=sig)
    return nsteps


def managed_registry_leg(ck):
    """managed(obj) without a typeid, concurrently in several server threads (ManagedReg.tla): the made-up registry entry"""
    import collections
    import random
    from mbt.bind import managedreg as MR
    thorough = ck.tier == 'thorough'

    def cfg(invariants=(), keep=True, threads=(1, 2), spec='Spec', **kw):
        return tlc.cfg_text(spec=spec, constants=dict(Threads=set(threads), Classes={'Item', 'RegItem'}, MaxCalls=2, KeepEntry=keep),
                            invariants=invariants, **kw)

    ck.l1('ManagedReg/concurrent managed() calls never lose their registry entry', 'ManagedReg',
          cfg(['TypeOK', 'NoKeyError', 'EveryCallGetsProxy', 'EntriesBounded'], threads=(1, 2, 3) if thorough else (1, 2)),
          may_skip=('Next', 'Pop', 'Done'))
    ck.sensitive('made-up registry entry deleted "after this single use" (the TODO in managed())', 'ManagedReg',
                 cfg(['NoKeyError'], keep=False), 'invariant', 'NoKeyError')
    ck.trap('Trap_BothRegister', 'ManagedReg', cfg(['Trap_BothRegister']))
    rnd = random.Random(ck.seed * 1000003 + 97)
    items = [{'id': i + 1, 'sc': sc} for i, sc in enumerate(MR.gen_scenarios(rnd, 96 if thorough else 12))]
    out = ck.run_binder('managedreg', items, nproc=6, timeout=900, extra={'detsched': False})
    ck.evaluations += int(out.get('n_exec', 0))
    for h in out.get('hangs', []):
        ck.violation({'leg': 'L3', 'kind': 'hang', 'where': 'managed() under concurrent server threads', 'threads': h['hang'],
                      'item': {'sc': h['sc']}, 'events': h['ev']}, sig={'leg': 'L3', 'kind': 'hang', 'where': 'managedreg'})
    groups = collections.defaultdict(list)
    for t in out.get('traces', []):
        groups[t['nt']].append(t)
    ck.validate_groups('managed() without typeid called by 2-3 clients at once (create delayed inside the server process)',
                       'ManagedRegTrace',
                       [(cfg(spec='TraceSpec', threads=tuple(range(1, nt + 1)), constraint='Progress', postcondition='Report',
                             deadlock=False), trs) for nt, trs in sorted(groups.items())],
                       sig_of=lambda t, v: {'where': 'managedreg'})


def c14(ck, replay=None):
    if replay is not None:
        return pc_rerun(ck, replay)
    thorough = ck.tier == 'thorough'
    # ---- L1: the object model (by groups of objects; the objects do not interact except L/K/C); the as-found design must
    # violate "proxy call = direct call" in the model; random behaviours for the replay leg - all TLC runs concurrently
    W = 6
    rnd = random.Random(ck.seed * 1000003 + 151)
    plan = [(PC_ALL, 200 if thorough else 20, 14), (('L', 'K', 'C'), 150 if thorough else 12, 14),
            (('D',), 100 if thorough else 8, 12), (('N', 'V', 'C'), 100 if thorough else 8, 10)]
    tasks = [
        lambda c: c.l1('ProxyCall/list + custom class + managed child', 'ProxyCall',
                       pc_cfg(('L', 'K', 'C'), callers=('t1', 'ch', 'sv') if thorough else ('t1', 'sv'), maxlen=2),
                       may_skip=pc_skip('LKC'), coverage=not thorough),
        lambda c: c.l1('ProxyCall/dict', 'ProxyCall', pc_cfg(('D',), vals=(0, 1, 4), nkeys=3, maxlen=3),
                       may_skip=pc_skip('D'), workers=W),
        lambda c: c.l1('ProxyCall/namespace + value', 'ProxyCall', pc_cfg(('N', 'V'), vals=(0, 3, 4, 5)),
                       may_skip=pc_skip('NV'), workers=W),
        lambda c: c.sensitive('generated __imul__ overwrites the in-place one: `proxy *= k` yields a detached copy (MGR18)',
                              'ProxyCall', pc_cfg(('L',), imul=False), 'action_property', 'SameAsDirect', workers=W),
        lambda c: c.sensitive('NamespaceProxy with a generated __getattribute__ method: unbounded recursion (MGR17)',
                              'ProxyCall', pc_cfg(('N',), ns=False), 'action_property', 'SameAsDirect', workers=W),
        lambda c: c.sensitive('in-server proxy call that raises: RemoteException wrapper is raised -> TypeError (MGR19)',
                              'ProxyCall', pc_cfg(('L',), isr=False), 'action_property', 'SameAsDirect', workers=W),
    ]
    if thorough:
        tasks.append(lambda c: c.l1('ProxyCall/list alone, longer', 'ProxyCall',
                                    pc_cfg(('L',), vals=(0, 1, 2, 3, 5), maxlen=4, callers=('t1',)), may_skip=pc_skip('L'),
                                    workers=W))
        tasks.append(lambda c: c.l1('ProxyCall/list + custom class + managed child, length 3', 'ProxyCall',
                                    pc_cfg(('L', 'K', 'C'), callers=('t1', 'sv'), maxlen=3), may_skip=pc_skip('LKC'),
                                    coverage=False, timeout=2400))
    n_fixed = len(tasks)
    for k, (active, num, depth) in enumerate(plan):
        tasks.append(lambda c, k=k, active=active, num=num, depth=depth: simulate(
            'ProxyCall', pc_cfg(active, vals=range(6), nkeys=3, maxlen=4, maxn=6, callers=PB.ALL_CALLERS, view=False,
                                properties=()), num=num, depth=depth, seed=ck.seed * 7919 + 17 + k))
    vals = par(ck, tasks)
    # ---- spec -> code: TLC histories replayed on a real ServerProcess
    items = []
    for (active, num, depth), behs in zip(plan, vals[n_fixed:]):
        items += pc_items_from(behs, 'simulate:' + ''.join(active), rnd, len(items))
    out = ck.run_binder('proxycall', items, timeout=900, extra={'detsched': False})
    nsteps = pc_report(ck, out, 'L2')
    ck.evaluations += nsteps
    ops = sorted({(a['o'], a['op'], a['r']['k'] == 'err') for it in items for a in it['acts']})
    ck.legs.append({'leg': 'L2', 'name': 'TLC histories replayed on a real ServerProcess (results, exceptions, aliasing)',
                    'replays': len(items), 'calls_compared': nsteps, 'distinct_op_outcomes': len(ops)})
    ck.sample({'kind': 'replayed_history', 'acts': [[a['c'], a['o'], a['op'], a['a'], a['b'], a['s'], a['r']['k'],
                                                     a['r']['e']] for a in items[0]['acts']]})
    # ---- code -> spec: concurrent callers, TLC searches a linearization
    scs = PB.gen_scenarios(rnd, 800 if thorough else 64, 14 if thorough else 12)
    citems = [{'kind': 'concurrent', 'id': k, 'sc': sc, 'seed': rnd.randrange(1 << 30)} for k, sc in enumerate(scs)]
    out = ck.run_binder('proxycall', citems, timeout=900, extra={'detsched': False})
    pc_report(ck, out, 'L3')
    traces = [{'id': r['id'], 'p': {'seqs': r['seqs'], 'final': r['final']}, 'ev': r['ev'], 'sc': r['sc'],
               'seed': r['seed'], 'classes': r.get('classes')}
              for r in out.get('results', []) if r['status'] == 'ok']
    ck.validate('concurrent callers under the OS schedule (linearization search)', 'ProxyCallTrace', pc_trace_cfg(),
                traces, sig_of=pc_l3_sig, chunk=10)
    ck.assumptions += [
        'argument / value domain: a catalogue of 30 variants (ints, big ints, floats, str, bytes, tuple, frozenset, custom '
        'picklable object, None, nested list / dict / bytearray) mapped from the model\'s 6 value codes',
        'hosted custom class guards its own state with a lock (thread-safety of hosted code is the user\'s business)',
        'list.sort only on mutually ordered elements; search arguments are never proxies (a proxy has identity equality)',
        'operations whose result cannot be pickled are outside the proxy method set']
    managed_registry_leg(ck)
    ck.finish_rc = ck.finish(rule='every proxied call must give the result / exception class of the model and the value / '
                             'exception args of the same call made directly on a local object; exceptions must be remote '
                             'exceptions carrying server traceback text and leave the proxy usable; concurrent histories '
                             'must have a linearization')


def pc_rerun(ck, rp):
    d = rp.get('detail', {})
    item = d.get('item') or {}
    print(json.dumps({'sig': rp.get('sig'), 'item': {k: item.get(k) for k in ('id', 'kind', 'src', 'variant', 'seed')}}))
    if item.get('kind') == 'concurrent' or (item.get('sc') and item.get('seed') is not None):
        out = ck.run_binder('proxycall', [{'kind': 'concurrent', 'id': 0, 'sc': item['sc'], 'seed': item['seed']}],
                            extra={'detsched': False})
        r = out['results'][0]
        print('status', r['status'], json.dumps(r.get('detail'))[:2000])
        if r['status'] == 'ok':
            verd, _ = tlc.validate_traces('ProxyCallTrace', pc_trace_cfg(),
                                          [{'id': 0, 'p': {'seqs': r['seqs'], 'final': r['final']}, 'ev': r['ev']}])
            print('TLC verdict (a different OS schedule may give a different history)', json.dumps(verd[0])[:1500])
            return 0 if verd[0]['accepted'] else 1
        return 1
    if d.get('acts'):
        print('replay files of C14 L2 carry the failing call in detail.act; re-run the check to re-execute the history')
        return 1
    print('nothing to re-execute in this replay file')
    return 2
