"""C11: ServerLifecycle spec; conformance on REAL processes and pipes (sampled scenario grid, two enter/exit cycles)."""
from __future__ import annotations

import collections
import random

from mbt import pool, tlc
from mbt.bind import lifecycle as LB
from mbt.framework import Machinery

INV = ['AllOrNothing', 'ExitComplete', 'PipeBounds', 'LedgerEmptyAfterExit', 'LedgerSane']


def lc_cfg(nwk, p, rs, invariants=(), properties=(), cleanup=True, through=True, outlives=True, spec='Spec',
           deadlock=True, cycles=2, clear=True):
    return tlc.cfg_text(spec=spec, constants=dict(NWk=nwk, P=p, RS=rs, MaxAbandoned=p + 2, Cycles=cycles,
                                                  CleanupOnFailedStart=cleanup, StopThroughBuffer=through,
                                                  GatherOutlivesWorkers=outlives, ClearLedgerAtExit=clear),
                        invariants=invariants, properties=properties, deadlock=deadlock)


def run_real(items, nproc=8, timeout=200):
    outs = pool.run_jobs('lifecycle', [{'items': [it], 'detsched': False} for it in items], nproc=nproc,
                         timeout=timeout)
    res = []
    for it, o in zip(items, outs):
        if not isinstance(o, dict) or 'machinery_error' in o:
            raise Machinery(f'lifecycle runner failed: {str(o)[:2000]}')
        if o.get('timeout'):
            res.append((it, 'hang', {'ev': [{'ev': 'Hang'}], 'hang': {'runner': 'killed after timeout'}}))
        elif o.get('hangs'):
            res.append((it, 'hang', o['hangs'][0]))
        else:
            res.append((it, 'ok', o['traces'][0]))
    return res


def shutdown_after_abandonment(ck, name):
    """C07's last clause on REAL process servlets: after abandoned requests (timed-out calls, a dropped stream) whose inputs
    exceed the pipe buffer the server still shuts down, and can be entered again; validated against ServerLifecycleTrace.
    (Scenarios outside the open finding D11b: abandoned RESULTS stay small.)"""
    scs = [{'nwk': 1, 'fail_at': 0, 'ab': 40, 'in_big': True, 'res_big': False, 'seq': False},
           {'nwk': 2, 'fail_at': 0, 'ab': 40, 'in_big': True, 'res_big': False, 'seq': False},
           {'nwk': 1, 'fail_at': 0, 'ab': 40, 'in_big': True, 'res_big': False, 'seq': True}]
    items = [{'id': n + 1, 'sc': sc} for n, sc in enumerate(scs)]
    results = run_real(items)
    ck.evaluations += len(items)
    traces = [rec for it, status, rec in results if status == 'ok']
    hung = [(it, rec) for it, status, rec in results if status == 'hang']
    again = run_real([it for it, _ in hung for _ in range(2)], nproc=8) if hung else []
    ck.evaluations += len(again)
    for n, (it, rec) in enumerate(hung):
        mine = again[2 * n:2 * n + 2]
        if not any(st == 'hang' for _, st, _ in mine):
            ck.notes.append(f'exit hang not reproduced on retry (ignored): {it["sc"]}')
            traces += [r for _, st, r in mine if st == 'ok'][:1]
            continue
        ck.violation({'leg': 'L3', 'name': name, 'kind': 'exit-hang', 'item': it, 'events': rec.get('ev'),
                      'hang': rec.get('hang')},
                     sig={'leg': 'L3', 'kind': 'exit-hang', 'where': 'process servlets', 'nwk': it['sc']['nwk'],
                          'seq': it['sc']['seq']})
    groups = collections.defaultdict(list)
    for t in traces:
        groups[(t['p']['nwk'], t['p']['rs'])].append(t)
    ck.validate_groups(name, 'ServerLifecycleTrace',
                       [(tlc.cfg_text(spec='TraceSpec',
                                      constants=dict(NWk=nwk, P=LB.P_UNITS, RS=rs, MaxAbandoned=LB.P_UNITS + 2, Cycles=2,
                                                     CleanupOnFailedStart=True, StopThroughBuffer=True,
                                                     GatherOutlivesWorkers=False, ClearLedgerAtExit=True),
                                      constraint='Progress', postcondition='Report', deadlock=False), trs)
                        for (nwk, rs), trs in sorted(groups.items())],
                       sig_of=lambda t, v: {'nwk': t['sc']['nwk'], 'where': 'process servlets'})


def c11(ck, replay=None):
    thorough = ck.tier == 'thorough'
    # design leg: the repaired design on a grid; all three flags TRUE
    for (nwk, p, rs) in [(1, 1, 2), (2, 1, 2), (2, 2, 1), (3, 2, 3)] + ([(3, 1, 2), (3, 2, 1)] if thorough else []):
        ck.l1(f'ServerLifecycle workers={nwk} pipe={p} result={rs}', 'ServerLifecycle', lc_cfg(nwk, p, rs, INV),
              may_skip=('Next', 'GatherRelease') + (('Cleanup', 'CleanJoin') if nwk == 1 else ()))
    ck.l1('ServerLifecycle/liveness', 'ServerLifecycle', lc_cfg(2, 1, 2, [], ['Completes'], spec='FairSpec'), coverage=False)
    ck.l1('ServerLifecycle/current code, single worker', 'ServerLifecycle', lc_cfg(1, 1, 2, INV, outlives=False),
          may_skip=('Next', 'GatherRelease', 'Cleanup', 'CleanJoin'))
    ck.sensitive('earlier workers keep running after a later worker failed to start (D10)', 'ServerLifecycle',
                 lc_cfg(2, 1, 1, ['AllOrNothing'], cleanup=False), 'invariant', 'AllOrNothing')
    ck.sensitive('sentinel bypasses the onboarding buffer (D11a)', 'ServerLifecycle',
                 lc_cfg(1, 1, 1, [], through=False), 'deadlock')
    ck.sensitive('gather thread leaves at the first sentinel (D11b, open finding)', 'ServerLifecycle',
                 lc_cfg(2, 1, 2, [], outlives=False), 'deadlock')
    ck.sensitive('ledger entries of results dropped at shutdown survive exit and re-entry (D24)', 'ServerLifecycle',
                 lc_cfg(2, 2, 1, ['LedgerEmptyAfterExit'], outlives=False, clear=False, deadlock=False), 'invariant',
                 'LedgerEmptyAfterExit')
    ck.trap('a result is dropped behind the first sentinel without any hang (what D24 is about)', 'ServerLifecycle',
            lc_cfg(2, 2, 1, ['Trap_ResultDroppedAtExit'], outlives=False, deadlock=False))
    # conformance on real processes
    rnd = random.Random(ck.seed * 1000003 + 73)
    scs = LB.gen_scenarios(rnd, 72 if thorough else 20)
    # always include the corners: a later worker failing; abandoned big inputs; (known finding) abandoned big results
    scs += [{'nwk': 3, 'fail_at': 3, 'ab': 0, 'in_big': False, 'res_big': False, 'seq': False},
            {'nwk': 2, 'fail_at': 2, 'ab': 0, 'in_big': False, 'res_big': False, 'seq': True},
            {'nwk': 1, 'fail_at': 0, 'ab': 40, 'in_big': True, 'res_big': False, 'seq': False},
            {'nwk': 2, 'fail_at': 0, 'ab': 40, 'in_big': True, 'res_big': False, 'seq': False},
            {'nwk': 2, 'fail_at': 0, 'ab': 40, 'in_big': False, 'res_big': True, 'seq': False},
            # sequential tree, one worker per stage, abandoned work whose INTER-STAGE data exceeds the pipe
            {'nwk': 1, 'fail_at': 0, 'ab': 40, 'in_big': False, 'res_big': True, 'seq': True},
            {'nwk': 1, 'fail_at': 0, 'ab': 40, 'in_big': True, 'res_big': False, 'seq': True}]
    items = [{'id': n + 1, 'sc': sc} for n, sc in enumerate(scs)]
    if not thorough:
        # quick tier: one instance of the open finding (D11b) is enough - each costs a 30 s bound plus re-runs
        seen = False
        keep = []
        for it in items:
            kf = it['sc']['res_big'] and it['sc']['nwk'] >= 2 and it['sc']['fail_at'] == 0
            if kf and seen:
                continue
            seen = seen or kf
            keep.append(it)
        items = keep
    results = run_real(items)
    ck.evaluations += len(items)
    traces = []
    hung = [(it, rec) for it, status, rec in results if status == 'hang']
    traces += [rec for it, status, rec in results if status == 'ok']
    # a timeout must repeat in a fresh process before it counts: all re-runs in one parallel batch
    again = run_real([it for it, _ in hung for _ in range(2)], nproc=8) if hung else []
    ck.evaluations += len(again)
    for n, (it, rec) in enumerate(hung):
        mine = again[2 * n:2 * n + 2]
        if not any(st == 'hang' for _, st, _ in mine):
            ck.notes.append(f'exit hang not reproduced on retry (ignored): {it["sc"]}')
            traces += [r for _, st, r in mine if st == 'ok'][:1]
            continue
        sc = it['sc']
        ck.violation({'leg': 'L3', 'kind': 'exit-hang', 'item': it, 'events': rec.get('ev'), 'hang': rec.get('hang')},
                     sig={'leg': 'L3', 'kind': 'exit-hang', 'multi_worker': sc['nwk'] >= 2,
                          # every workload contains a timed-out call, so a big result is always abandoned
                          'abandoned_big_results': bool(sc['res_big'])})
    groups = collections.defaultdict(list)
    for t in traces:
        groups[(t['p']['nwk'], t['p']['rs'])].append(t)
    ck.validate_groups('real Server(ProcessServlet) enter / workload / exit x 2 cycles', 'ServerLifecycleTrace',
                       [(tlc.cfg_text(spec='TraceSpec',
                                      constants=dict(NWk=nwk, P=LB.P_UNITS, RS=rs, MaxAbandoned=LB.P_UNITS + 2, Cycles=2,
                                                     CleanupOnFailedStart=True, StopThroughBuffer=True,
                                                     GatherOutlivesWorkers=False, ClearLedgerAtExit=True),
                                      constraint='Progress', postcondition='Report', deadlock=False), trs)
                        for (nwk, rs), trs in sorted(groups.items())],
                       sig_of=lambda t, v: {'nwk': t['sc']['nwk'], 'fail_at': t['sc']['fail_at']})
    # thread servlet trees under detsched: a worker at ANY position of a compound tree fails in __init__; workloads with
    # failing / timed-out / abandoned requests; exit; re-entry - all schedule-controlled
    from mbt.bind import lifecycle_threads as LT
    tscs = LT.gen_scenarios(rnd, 400 if thorough else 30)
    titems, n = [], 0
    for sc in tscs:
        if sc['total'] > 4:
            continue
        for j in range(4 if thorough else 2):
            n += 1
            titems.append({'id': n, 'sc': sc, 'seed': rnd.randrange(1 << 30), 'strategy': ['random', 'pct'][j % 2]})
    tout = ck.run_binder('lifecycle_threads', titems, timeout=1200)
    ck.evaluations += int(tout.get('n_exec', 0))
    for h in tout.get('hangs', []):
        ck.violation({'leg': 'L3', 'kind': 'hang-or-crash', 'where': 'thread servlet tree', 'status': h['status'],
                      'detail': h.get('detail'), 'waitmap': h.get('waitmap'), 'exc': h.get('exc'),
                      'item': {'sc': h['sc'], 'seed': h['seed'], 'strategy': h['strategy']}, 'events': h.get('full')},
                     sig={'leg': 'L3', 'kind': 'hang', 'where': 'threads', 'status': h['status'], 'topo': h['sc']['topo']})
    tg = collections.defaultdict(list)
    for t in tout.get('traces', []):
        tg[t['p']['nwk']].append(t)
    ck.validate_groups('thread servlet trees: failing worker at any position, enter / workload / exit x 2 cycles (detsched)',
                       'ServerLifecycleTrace',
                       [(tlc.cfg_text(spec='TraceSpec',
                                      constants=dict(NWk=nwk, P=2, RS=1, MaxAbandoned=4, Cycles=2, CleanupOnFailedStart=True,
                                                     StopThroughBuffer=True, GatherOutlivesWorkers=False, ClearLedgerAtExit=True),
                                      constraint='Progress', postcondition='Report', deadlock=False), trs)
                        for nwk, trs in sorted(tg.items())],
                       sig_of=lambda t, v: {'where': 'threads', 'topo': t['sc']['topo'], 'fail_at': t['sc']['fail_at']})
    ck.assumptions += ['real processes and OS pipes: schedules are whatever the OS produces; sizes are scaled below / beyond the '
                       '64 KiB pipe; an exit that does not return within 30 s, and again in at least one of two re-runs in fresh processes, is a hang']
    ck.finish_rc = ck.finish(rule='worker count x failing worker position x abandoned inputs (0 / few / beyond the pipe) x result '
                             'size x sequential variant x 2 enter/exit cycles; observations validated by TLC against '
                             'ServerLifecycle (GatherOutlivesWorkers = FALSE, i.e. the code as it is)')
