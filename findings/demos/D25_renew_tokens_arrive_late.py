"""D25: IterableQueue over multiprocessing queues.  A token that renew() recycles travels through the queue's feeder
thread and pipe; renew() returns before it is visible to other processes.  This demo makes the feeder's latency
deterministic (the main process' puts into the helper queues reach the pipe 60 ms late - a legal schedule: the feeder
thread is simply not scheduled for 60 ms) and starts round 2 as soon as renew() has returned.

  before the fix: a supplier's put_end() raises RuntimeError('put_end is called more than num_suppliers times'), or no
                  consumer obtains the claim token (get(timeout=0.01)), nobody adds the extra end marker and a consumer
                  waits for ever
  after the fix:  both rounds complete

exit 0 = the property (C17: after renew the same holds for the next round) held, 1 = violated."""
import os
import queue as stdq
import sys
import threading

from mpservice.multiprocessing import Event, Process, Queue
from mpservice.queue import IterableQueue

LAT = 0.06


def supplier(iq, s, go, res):
    try:
        for r in (0, 1):
            go[r].wait()
            iq.put((s, r))
            iq.put_end()
            res.put(('done', f's{s}', r))
    except BaseException as e:  # noqa: BLE001
        res.put(('error', f'supplier {s}, round {r + 1}: {e!r}'))


def consumer(iq, c, go, res):
    try:
        for r in (0, 1):
            go[r].wait()
            got = [z for z in iq]
            res.put(('done', f'c{c}', r, got))
    except BaseException as e:  # noqa: BLE001
        res.put(('error', f'consumer {c}, round {r + 1}: {e!r}'))


def late(q):
    orig = q.put

    def put(x, *a, **kw):
        threading.Timer(LAT, orig, (x,) + a, kw).start()
    q.put = put


def scenario(which):
    iq = IterableQueue(Queue(), num_suppliers=2)
    go = [Event(), Event()]
    res = Queue()
    ps = [Process(target=supplier, args=(iq, s, go, res)) for s in (1, 2)] + \
         [Process(target=consumer, args=(iq, c, go, res)) for c in (1, 2)]
    for p in ps:
        p.start()
    bad = None
    try:
        for r in (0, 1):
            go[r].set()
            items = []
            for _ in range(4):
                try:
                    m = res.get(timeout=20)
                except stdq.Empty:
                    return f'round {r + 1}: a party never finished (no extra end marker was added)'
                if m[0] == 'error':
                    return m[1]
                if len(m) > 3:
                    items += m[3]
            if sorted(items) != [(1, r), (2, r)]:
                return f'round {r + 1}: consumers received {sorted(items)}'
            if r == 0:
                # from now on the main process' feeder threads are "slow"
                late(getattr(iq, which))
                iq.renew()
    finally:
        for p in ps:
            p.kill()
    return bad


if __name__ == '__main__':
    rc = 0
    for which in ('_spare_lids', '_extra_lid'):
        out = scenario(which)
        print(f'tokens of {which} arrive {int(LAT * 1000)} ms after renew() returned:', out or 'both rounds complete')
        rc |= 1 if out else 0
    print('FAIL' if rc else 'PASS')
    sys.stdout.flush()
    os._exit(rc)
