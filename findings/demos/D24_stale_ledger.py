import time
from mpservice.mpserver import Server, ThreadServlet, EnsembleServlet, Worker
class A(Worker):
    def call(self, x):
        time.sleep(0.05); return x
class B(Worker):
    def call(self, x):
        return x
if __name__ == '__main__':
    server = Server(EnsembleServlet(ThreadServlet(A), ThreadServlet(B)), capacity=4)
    for cycle in range(4):
        with server:
            print('cycle', cycle, 'backlog on entry', server.backlog, flush=True)
            try:
                print('  call ->', server.call(1, timeout=2, backpressure=False))
            except Exception as e:
                print('  call raised', type(e).__name__, e)
            it = server.stream(iter(range(10)), timeout=5)
            next(it); it.close()
        print('  after exit backlog', server.backlog, flush=True)
