"""D27 (C11, C07): `AsyncServer.stream` iterates `async_fifo_stream(...)` with a bare `async for`.  Closing the stream
(`await it.aclose()`, or leaving an `async for` over it early) does NOT close that inner async generator: its finalization - which
stops the feeder task - is left to the event loop's asyncgen hooks, some turns later.  Until then the feeder keeps submitting the
abandoned stream's inputs.  A server left right after the stream was dropped clears its ledger in `__aexit__` (fix df1405c) and the
still-living feeder then fills it again: the entries survive exit and re-entry, nobody will ever answer them, and the re-entered
server rejects requests although it is idle.

Real AsyncServer + ThreadServlet, no scheduling tricks.   exit 0: property holds;  exit 1: violated.
usage: python D27_async_stream_feeder_outlives_aclose.py [repo src dir]
"""
import asyncio
import os
import sys
import threading

sys.path.insert(0, sys.argv[1] if len(sys.argv) > 1 else os.environ.get('VERIF_REPO_SRC', '/repo/src'))

from mpservice.mpserver import AsyncServer, ServerBacklogFull, ThreadServlet, Worker  # noqa: E402

CAP = 3


class W(Worker):
    def call(self, x):
        import time
        time.sleep(0.02)
        return x


async def main():
    problems = []
    server = AsyncServer(ThreadServlet(W), capacity=CAP)
    await server.__aenter__()

    async def inputs():
        for k in range(200):
            yield k

    it = server.stream(inputs(), timeout=10)
    assert await it.__anext__() == 0
    await it.aclose()                      # the stream is dropped early ...
    await server.__aexit__(None, None, None)   # ... and the server is left
    await asyncio.sleep(0.3)
    left = server.backlog
    print('backlog after exit:', left)
    if left:
        problems.append(f'{left} ledger entries survive the exit (nobody will ever answer them)')
    await server.__aenter__()              # the same server object is entered again
    try:
        got = await asyncio.gather(*(server.call(100 + j, timeout=5, backpressure=True) for j in range(CAP)),
                                   return_exceptions=True)
        print('cycle 2, calls on an idle server:', got)
        if any(isinstance(g, ServerBacklogFull) for g in got):
            problems.append('the re-entered, idle server rejects requests with ServerBacklogFull')
        elif got != [100 + j for j in range(CAP)]:
            problems.append(f'wrong answers in cycle 2: {got}')
    finally:
        await server.__aexit__(None, None, None)
    return problems


if __name__ == '__main__':
    threading.Timer(50, lambda: os._exit(2)).start()
    problems = asyncio.run(main())
    for p in problems:
        print('VIOLATED:', p)
    print('OK' if not problems else 'FAILED')
    sys.stdout.flush()
    os._exit(1 if problems else 0)
