"""D26 (C09): a batching worker's collector thread tests `buffer.full()` WITHOUT the buffer's mutex and only then enters
`with buffer._not_full: buffer._not_full.wait()`.  If the consumer empties the buffer in between (each get notifies nobody: no
one waits yet), the collector waits for a notification that only a LATER get could send - and with an empty buffer there is
no later get.  The worker is dead: requests still on the input queue never reach `call`.

The schedule is forced with a trace function that merely DELAYS the collector thread at that one line (a legal schedule: a
thread may be descheduled anywhere).  Real Server + ThreadServlet + Worker, batch_size 2 (buffer capacity 12).

exit 0: every request is answered.   exit 1: requests are never served (the defect).
usage: python D26_collector_lost_wakeup.py [repo src dir]
"""
import inspect
import os
import sys
import threading
import time

sys.path.insert(0, sys.argv[1] if len(sys.argv) > 1 else os.environ.get('VERIF_REPO_SRC', '/repo/src'))

from mpservice.mpserver import Server, ThreadServlet, Worker  # noqa: E402
from mpservice.mpserver import _worker  # noqa: E402

src, first = inspect.getsourcelines(_worker.Worker._build_input_batches)
WAIT_LINE = next(first + k for k, ln in enumerate(src) if 'with buffer._not_full' in ln)
gate = threading.Event()          # holds the first call until the buffer has filled up
paused = []


def tracer(frame, event, arg):
    if frame.f_code.co_name != '_build_input_batches':
        return None

    def local(frame, event, arg):
        if event == 'line' and frame.f_lineno == WAIT_LINE and not paused:
            paused.append(time.monotonic())
            gate.set()            # the consumer may go on ...
            time.sleep(2.0)       # ... while this thread is "descheduled" right before it takes the buffer's mutex
        return local

    return local


class W(Worker):
    def call(self, xs):
        if 0 in xs:
            gate.wait(20)
        return xs


def main():
    threading.settrace(tracer)
    N = 16
    results, errors = {}, {}

    def ask(server, i):
        try:
            results[i] = server.call(i, timeout=12)
        except BaseException as e:  # noqa: BLE001
            errors[i] = repr(e)

    server = Server(ThreadServlet(W, batch_size=2, batch_wait_time=0.01), capacity=64)
    server.__enter__()
    ths = [threading.Thread(target=ask, args=(server, 0))]
    ths[0].start()
    time.sleep(0.3)               # request 0 is inside `call` (blocked on the gate)
    for i in range(1, N):
        t = threading.Thread(target=ask, args=(server, i))
        t.start()
        ths.append(t)
        time.sleep(0.01)
    for t in ths:
        t.join(30)
    print('collector reached the wait line:', bool(paused), ' answered:', sorted(results), ' failed:', errors)
    sys.stdout.flush()
    if not paused:
        print('INCONCLUSIVE: the buffer never filled up')
        os._exit(2)
    if errors or len(results) != N:
        print('VIOLATED: requests accepted by the server never reached `call` (collector waits for a wake-up that cannot come)')
        os._exit(1)
    print('OK: every request was served')
    os._exit(0)


if __name__ == '__main__':
    main()
