"""Binder for spec/PipeOutcomeTrace.tla under detsched: COMPOSED pipelines and the sync/async adapters,

  `synciter_abuf`    SyncIter(AsyncStream(asrc).buffer(m))                 consumed synchronously
  `synciter_abuf2`   SyncIter(AsyncStream(asrc).buffer(m).map(f).buffer(m)) consumed synchronously
  `synciter_aparmap` SyncIter(AsyncStream(asrc).parmap(work, executor='thread'))
  `asynciter_buf`    AsyncIter(Stream(src).buffer(m))                       consumed asynchronously
  `buf_parmap_buf`   Stream(src).buffer(m).parmap(work, thread).buffer(m)   consumed synchronously

Only what the consumer observes is logged (Yield, End, Closed with the helper threads left over): the stages' insides are the
business of BufferOp / FifoStream."""
from __future__ import annotations

import random

from .common import SrcError

VARIANTS = ('synciter_abuf', 'synciter_abuf2', 'synciter_aparmap', 'asynciter_buf', 'buf_parmap_buf')


def gen_scenarios(rnd: random.Random, count, max_n=6):
    out = []
    for j in range(count):
        n = rnd.randint(0, max_n)
        srcfail = rnd.choice([0, 0] + list(range(1, n + 2)))
        lim = (srcfail - 1) if srcfail else n
        brk = rnd.choice([None] + list(range(1, lim + 1))) if lim >= 1 else None
        out.append({'n': n, 'srcfail': srcfail, 'maybreak': brk is not None, 'break_at': brk, 'm': rnd.choice([1, 2, 3]),
                    'variant': VARIANTS[j % len(VARIANTS)], 'how': rnd.choice(['close', 'close', 'del']),
                    'durs': [0] + [rnd.choice([0, 0, 1, 3]) for _ in range(n)]})
    return out


def header(sc):
    return {k: sc[k] for k in ('n', 'srcfail', 'maybreak')}


_installed = False


def _install():
    global _installed
    if _installed:
        return
    _installed = True
    import asyncio
    import asyncio.base_events
    import asyncio.futures
    import asyncio.tasks
    PyF, PyT = asyncio.futures._PyFuture, asyncio.tasks._PyTask
    asyncio.Future = asyncio.futures.Future = PyF
    asyncio.Task = asyncio.tasks.Task = PyT
    asyncio.base_events.futures.Future = PyF
    asyncio.base_events.tasks.Task = PyT


def _make_scenario(sc):
    import asyncio
    import gc
    import time
    from mbt import detsched
    from mpservice.streamer import Stream
    from mpservice.streamer._streamer_async import AsyncIter, AsyncStream, SyncIter

    n, srcfail, brk, m, durs = sc['n'], sc['srcfail'], sc['break_at'], sc['m'], sc['durs']
    variant = sc['variant']

    def src():
        for k in range(1, n + 1):
            if srcfail == k:
                raise SrcError('source fails')
            yield k
        if srcfail == n + 1:
            raise SrcError('source fails')

    async def asrc():
        for k in range(1, n + 1):
            if srcfail == k:
                raise SrcError('source fails')
            await asyncio.sleep(0)
            yield k
        if srcfail == n + 1:
            raise SrcError('source fails')

    def work(x):
        if durs[x]:
            time.sleep(durs[x] * 0.01)
        else:
            detsched.checkpoint('work')
        return x

    def closed():
        sched = detsched.current()
        # (the default executor threads of an event loop, `asyncio_N`, are the loop's and end with it)
        left = [t.name for t in sched.alive() if t is not sched.root and not t.name.startswith('asyncio_')]
        detsched.emit('Closed', leftover=len(left), names=left)

    def build_sync():
        if variant == 'synciter_abuf':
            return SyncIter(AsyncStream(asrc()).buffer(m))
        if variant == 'synciter_abuf2':
            return SyncIter(AsyncStream(asrc()).buffer(m).map(lambda x: x).buffer(m))
        if variant == 'synciter_aparmap':
            return SyncIter(AsyncStream(asrc()).parmap(work, executor='thread', concurrency=2))
        return Stream(src()).buffer(m).parmap(work, executor='thread', concurrency=2).buffer(m)

    if variant != 'asynciter_buf':
        def root():
            gen = iter(build_sync())
            k = 0
            kind = None
            try:
                while True:
                    try:
                        v = next(gen)
                    except StopIteration:
                        kind = 'none'
                        break
                    detsched.emit('Yield', i=v if isinstance(v, int) else -1)
                    k += 1
                    if brk is not None and k == brk:
                        kind = 'brk'
                        break
            except SrcError:
                kind = 'src'
            detsched.emit('End', k=kind)
            if sc['how'] == 'del':
                del gen
                gc.collect()
            else:
                gen.close()
            closed()

        return root

    async def main():
        gen = AsyncIter(Stream(src()).buffer(m)).__aiter__()
        k = 0
        kind = None
        try:
            while True:
                try:
                    v = await gen.__anext__()
                except StopAsyncIteration:
                    kind = 'none'
                    break
                detsched.emit('Yield', i=v if isinstance(v, int) else -1)
                k += 1
                if brk is not None and k == brk:
                    kind = 'brk'
                    break
        except SrcError:
            kind = 'src'
        detsched.emit('End', k=kind)
        await gen.aclose()
        # the stages below are finalized by the loop's asyncgen hooks / the sync generator's close: give the loop a turn
        await asyncio.sleep(0.05)

    def root_async():
        asyncio.run(main())
        gc.collect()
        closed()

    return root_async


def run_job(job):
    from mbt import detsched
    _install()
    traces, hangs, n_exec = [], [], 0
    for item in job['items']:
        sc, seed = item['sc'], item['seed']
        if item.get('strategy') == 'pct':
            st = detsched.PCTStrategy(seed, depth=3 + seed % 3, est_steps=600)
        else:
            st = detsched.RandomStrategy(seed, stay=0.5 + 0.4 * ((seed * 7919) % 10) / 10.0)
        res = detsched.run(_make_scenario(sc), st, max_steps=400000, stall_timeout=120, lag=0.02, max_idle_vtime=100.0)
        n_exec += 1
        ev = [{k: v for k, v in e.items() if k not in ('seq', 'th', 'names')} for e in res.trace]
        rec = {'id': item['id'], 'p': header(sc), 'ev': ev, 'sc': sc, 'seed': seed, 'status': res.status,
               'strategy': item.get('strategy', 'random')}
        if res.status != 'ok' or res.exc is not None or res.thread_errors:
            rec.update(detail=res.detail, waitmap=res.waitmap, exc=repr(res.exc) if res.exc is not None else None,
                       leftover=res.leftover, thread_errors=res.thread_errors)
            hangs.append(rec)
            if len(hangs) >= 25:
                break
        else:
            traces.append(rec)
    return {'traces': traces, 'hangs': hangs, 'n_exec': n_exec}
