"""Binder for spec/BatchWorker.tla: REAL mpserver Worker loops (`_start_batch` / `_start_single`) in detsched threads over
`_SimpleThreadQueue`s, arrivals fed at virtual times, EXACT virtual time (timers fire only when nothing is runnable)."""
from __future__ import annotations

import random
import re

from .common import ElemError, strip

U = 0.01


def gen_scenarios(rnd: random.Random, count, max_items=5):
    out = []
    for _ in range(count):
        b = rnd.choice([0, 1, 2, 2, 3, 3])
        w = rnd.choice([0, 1, 2, 3]) if b >= 2 else 0
        n = rnd.randint(0, max_items)
        arr = [{'gap': rnd.choice([0, 0, 1, 2, 3]), 'kind': rnd.choice(['ok', 'ok', 'ok', 'exc', 'pre'])} for _ in range(n)]
        # `bare`: an upstream failure arrives the way it does out of a PROCESS queue - unpickled back into the plain exception
        # (with its remote traceback attached) - instead of still wrapped; `hook`: the worker has a (strict) preprocess hook
        # even if it rejects nothing
        out.append({'b': b, 'w': w, 'arr': arr, 'nw': rnd.choice([1, 1, 2]), 'bare': rnd.random() < 0.5,
                    'hook': rnd.random() < 0.5, 'slow': [], 'dur': 0})
    return out


def flood_scenarios(rnd: random.Random, count):
    """More requests than the batch buffers hold (batch_size + 10 each) while the workers' first calls are slow: the
    collectors fill their buffers and have to wait for room - WITHOUT holding the input queue's read lock, so that a worker
    with room (or the same worker, later) serves what is still on the input queue."""
    out = []
    for _ in range(count):
        b = rnd.choice([2, 2, 3])
        nw = rnd.choice([1, 1, 2])
        w = rnd.choice([0, 1, 2])
        n = nw * (2 * b + 10) + rnd.choice([1, 3, 5])
        arr = [{'gap': rnd.choice([0, 0, 0, 0, 1]), 'kind': 'ok'} for _ in range(n)]
        for k in rnd.sample(range(2 * b, n), rnd.choice([0, 0, 1])):
            arr[k]['kind'] = rnd.choice(['exc', 'pre'])
        tail = rnd.choice([0, 0, 1, 2])       # lone late requests after the flood
        arr += [{'gap': rnd.choice([3, 6]), 'kind': 'ok'} for _ in range(tail)]
        out.append({'b': b, 'w': w, 'arr': arr, 'nw': nw, 'bare': False, 'hook': rnd.random() < 0.3,
                    'slow': list(range(1, (b * nw if rnd.random() < 0.8 else 1) + 1)), 'dur': rnd.choice([4, 8, 12])})
    return out


def header(sc):
    return {'b': sc['b'], 'w': sc['w'], 'arr': sc['arr'], 'slow': list(sc.get('slow') or []), 'dur': int(sc.get('dur') or 0)}


_installed = False
_ctx = {'qin': None, 'qout': None, 'bufs': {}, 't0': 0.0}


def _wk():
    import threading
    m = re.search(r'bw-(\d+)', threading.current_thread().name)
    return int(m.group(1)) if m else 0


def _ticks():
    import time
    return int(round((time.perf_counter() - _ctx['t0']) / U))


def _install():
    global _installed
    if _installed:
        return
    _installed = True
    from mbt import detsched
    from mpservice import _queues
    from mpservice.mpserver import _worker

    Q = _worker._SimpleThreadQueue
    oput, oget = Q.put, Q.get

    def ident(item):
        if item is None:
            return 0
        uid, x = item
        return uid

    def put(self, item, *a, **k):
        if detsched.current() is not None:
            if self is _ctx['qout'] and item is not None and isinstance(item, tuple):
                uid, y = item
                from mpservice.multiprocessing.remote_exception import RemoteException
                if isinstance(y, RemoteException):
                    e = y.exc
                    # `own`: the failure that leaves the worker for request uid is that request's own one
                    detsched.emit('Out', w=_wk(), id=uid, kind=('pre' if getattr(e, 'site', '') == 'pre' else 'exc'),
                                  own=bool(isinstance(e, ElemError) and e.i == uid))
                else:
                    detsched.emit('Res', w=_wk(), id=uid, same=bool(y == uid))
        return oput(self, item, *a, **k)

    def get(self, *a, **k):
        z = oget(self, *a, **k)
        if self is _ctx['qin'] and detsched.current() is not None and _wk():
            detsched.emit('InGet', w=_wk(), id=ident(z))
        return z

    Q.put, Q.get = put, get

    # The batch buffer (SingleLane) is read LOCK-FREE by the collector (`buffer.qsize()`, `buffer.full()`), so its events
    # must be logged at the very moment the deque changes: `SingleLane.get` still calls `notify()` (whose `_is_owned()`
    # try-lock is a scheduling point) between `popleft()` and its return - an event logged after the return could come
    # after the collector has already seen the shorter buffer.  The deque of every SingleLane is replaced by a subclass
    # that logs inside `append` / `popleft` (same thread, mutex held, nothing in between).
    import collections
    import threading

    class LogDeque(collections.deque):
        def append(self, item):
            collections.deque.append(self, item)
            if detsched.current() is not None and _wk():
                coll = '_build_input_batches' in threading.current_thread().name
                detsched.emit('BufPut', w=_wk(), id=ident(item), coll=coll)

        def popleft(self):
            z = collections.deque.popleft(self)
            if detsched.current() is not None and _wk():
                detsched.emit('BufGet', w=_wk(), id=ident(z), t=_ticks())
            return z

    SL = _queues.SingleLane
    sinit = SL.__init__

    def slinit(self, *a, **k):
        sinit(self, *a, **k)
        self._queue = LogDeque(self._queue, getattr(self._queue, "maxlen", None))

    SL.__init__ = slinit


def _make_scenario(sc):
    import threading
    import time
    from mbt import detsched
    from mpservice.mpserver import Worker
    from mpservice.mpserver._worker import _SimpleThreadQueue
    from mpservice.multiprocessing.remote_exception import RemoteException

    b, w, arr, nw = sc['b'], sc['w'], sc['arr'], sc['nw']
    kinds = {i + 1: a['kind'] for i, a in enumerate(arr)}
    slow, dur = set(sc.get('slow') or []), int(sc.get('dur') or 0)
    has_pre = any(a['kind'] == 'pre' for a in arr)

    class W(Worker):
        def call(self, x):
            bare = not isinstance(x, list)
            ids = [x] if bare else list(x)
            ok = all(isinstance(v, int) for v in ids)
            detsched.emit('Call', w=self.worker_index + 1, ids=ids if ok else [-1], t=_ticks(), bare=bare)
            if dur and slow.intersection(v for v in ids if isinstance(v, int)):
                time.sleep(dur * U)       # a slow call (virtual time)
            return x

    if has_pre or sc.get('hook'):
        def preprocess(self, x):
            if not isinstance(x, int):
                # a strict hook, as user code typically is: it must only ever be given genuine inputs
                raise TypeError(f'preprocess was given {type(x).__name__}, not an input')
            if kinds.get(x) == 'pre':
                raise ElemError(x, 'pre')
            return x

        W.preprocess = preprocess

    class LockProxy:
        def __init__(self, real):
            self.real = real

        def __enter__(self):
            self.real.acquire()
            detsched.emit('RLock', w=_wk())
            return True

        def __exit__(self, *a):
            detsched.emit('RUnlock', w=_wk())
            self.real.release()

        def acquire(self, *a, **k):
            r = self.real.acquire(*a, **k)
            detsched.emit('RLock', w=_wk())
            return r

        def release(self):
            detsched.emit('RUnlock', w=_wk())
            self.real.release()

    def root():
        q_in, q_out = _SimpleThreadQueue(), _SimpleThreadQueue()
        q_in._rlock = LockProxy(q_in._rlock)
        _ctx['qin'], _ctx['qout'] = None, None
        ths = []
        for k in range(nw):
            t = threading.Thread(target=W.run, name=f'bw-{k + 1}',
                                 kwargs=dict(q_in=q_in, q_out=q_out, worker_index=k, batch_size=b,
                                             batch_wait_time=(w * U if b >= 2 else None)))
            t.start()
            name = q_out.get()          # init handshake, as the servlet does
            assert name is not None
            ths.append(t)
        _ctx['qin'], _ctx['qout'] = q_in, q_out
        _ctx['t0'] = time.perf_counter()

        def feeder():
            for i, a in enumerate(arr, 1):
                if a['gap']:
                    time.sleep(a['gap'] * U)
                if a['kind'] == 'exc':
                    # an exception value as it arrives from an upstream servlet: already wrapped, with traceback text
                    try:
                        raise ElemError(i, 'up')
                    except ElemError as e:
                        x = RemoteException(e)
                        if sc.get('bare'):
                            import pickle
                            x = pickle.loads(pickle.dumps(x))     # what a process queue delivers: the plain exception
                else:
                    x = i
                detsched.emit('Arrive', id=i, t=_ticks())
                q_in.put((i, x))
            detsched.emit('Stop', t=_ticks())
            q_in.put(None)

        ft = threading.Thread(target=feeder, name='feeder')
        ft.start()
        nend = 0
        while nend < nw:
            z = q_out.get()
            if z is None:
                nend += 1
        ft.join()
        for t in ths:
            t.join()
        sched = detsched.current()
        names = [t.name for t in sched.alive() if t is not sched.root]
        detsched.emit('AllDone', leftover=len(names))

    return root


def _adversary(seed):
    """The schedule of the model's counterexample to the as-found design (RoomCheckUnderLock = FALSE; sensitivity run of the
    check): the collectors run ahead of the consumers until a collector stands at `with buffer._not_full:` next to a FULL
    buffer; from then on that collector runs only when nothing else can - the consumer meanwhile empties the buffer.  A
    collector that now waits for room (without looking again) waits for ever.  Thread priorities only: a legal schedule."""
    import inspect
    import random
    import sys
    from mbt import detsched
    from mpservice.mpserver import _worker
    src, first = inspect.getsourcelines(_worker.Worker._build_input_batches)
    wait_line = next((first + k for k, ln in enumerate(src) if 'with buffer._not_full' in ln), None)

    class Adversary(detsched.Strategy):
        def __init__(self):
            self.rnd = random.Random(seed)
            self.victims = set()      # collectors caught at the critical point

        def at_wait_line(self, ts):
            f = sys._current_frames().get(ts.ident)
            while f is not None:
                if f.f_code.co_name == '_build_input_batches':
                    buf = f.f_locals.get('buffer')
                    return f.f_lineno == wait_line and buf is not None and buf.full()
                f = f.f_back
            return False

        def pick(self, sched, runnable, current):
            for t in runnable:
                if '_build_input_batches' in t.name and t.tid not in self.victims and self.at_wait_line(t):
                    self.victims.add(t.tid)
            pool = [t for t in runnable if t.tid not in self.victims]
            if not self.victims:
                # fill phase: consumers (the workers' main threads) only when nothing else can run
                pool = [t for t in pool if not re.fullmatch(r'bw-\d+', t.name)] or pool
            pool = pool or runnable
            if current in pool and self.rnd.random() < 0.6:
                return current
            return pool[self.rnd.randrange(len(pool))]

    return Adversary()


def run_job(job):
    from mbt import detsched
    _install()
    traces, hangs, n_exec = [], [], 0
    for item in job['items']:
        sc, seed, strat = item['sc'], item['seed'], item.get('strategy', 'random')
        if strat == 'adversary':
            st = _adversary(seed)
        elif strat == 'pct':
            st = detsched.PCTStrategy(seed, depth=3 + seed % 4, est_steps=1500)
        else:
            st = detsched.RandomStrategy(seed, stay=0.3 + 0.6 * ((seed * 7919) % 10) / 10.0)
        # every other execution lets the clock drift by 1e-7 s per read (invisible after rounding to ticks of 0.01 s, but
        # `deadline - perf_counter()` is then slightly negative at the deadline, as it is in real time)
        res = detsched.run(_make_scenario(sc), st, max_steps=300000, stall_timeout=120, lag=0.0, max_idle_vtime=50.0,
                           clock_eps=1e-7 if item['id'] % 2 == 0 else 0.0)
        n_exec += 1
        rec = {'id': item['id'], 'p': header(sc), 'nw': sc['nw'], 'ev': strip(res.trace), 'sc': sc, 'seed': seed,
               'strategy': strat, 'status': res.status}
        if res.status != 'ok' or res.exc is not None or res.thread_errors:
            rec.update(detail=res.detail, waitmap=res.waitmap, exc=repr(res.exc) if res.exc is not None else None,
                       leftover=res.leftover, thread_errors=res.thread_errors)
            hangs.append(rec)
            if len(hangs) >= 25:
                break
        else:
            traces.append(rec)
    return {'traces': traces, 'hangs': hangs, 'n_exec': n_exec}
