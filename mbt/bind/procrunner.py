"""Binder for spec/ProcessRunner.tla (beyond the listed properties): TLC behaviours replayed on the REAL
mpservice.multiprocessing.runner.ProcessRunner (a real background process per behaviour).

External actions = public calls made by the replay, in the model's order: Start -> start(), Restart(o) -> restart(k, o),
Rejoin -> rejoin() (compared: which call's result comes back, the value computed by the long-lived object - its own call
counter -, exception class / args / remote traceback), Join -> join(timeout) (queues the stop marker), JoinReturn -> the
process has ended with exit code 0 and the object was entered and exited exactly once.  The worker's own steps (WorkerTake,
WorkerPut) happen by themselves; a blocking rejoin() simply waits for them."""
from __future__ import annotations

import os
import tempfile
import threading

try:
    from mpservice.multiprocessing.remote_exception import get_remote_traceback, is_remote_exception
    from mpservice.multiprocessing.runner import ProcessRunnee, ProcessRunner
except ImportError:   # pragma: no cover  (the check's parent process imports this module without mpservice on its path)
    ProcessRunnee = object
    ProcessRunner = None

STEP_TIMEOUT = 30.0


class RunneeError(Exception):
    pass


class Runnee(ProcessRunnee):
    def __init__(self, path, tag):
        self.path, self.tag, self.n = path, tag, 0

    def _note(self, what):
        with open(self.path, 'a') as f:
            f.write(what + '\n')

    def __enter__(self):
        self._note('enter')
        return self

    def __exit__(self, *a):
        self._note(f'exit {self.n}')

    def __call__(self, k, o, *, tag):
        self.n += 1
        if o == 'err':
            raise RunneeError(k, self.n)
        return ('r', k, self.n, tag == self.tag)


def _bounded(fn, timeout=STEP_TIMEOUT):
    box = {}

    def run():
        try:
            box['v'] = ('ret', fn())
        except BaseException as e:  # noqa: BLE001
            box['v'] = ('raise', e)

    t = threading.Thread(target=run, daemon=True)
    t.start()
    t.join(timeout)
    return box.get('v')


def replay(item):
    beh = item['beh']
    d = tempfile.mkdtemp(prefix='verif-pr-')
    path = os.path.join(d, 'marks.txt')
    runner = ProcessRunner(target=Runnee, args=(path,), kwargs={'tag': item['id']}, name=f'verif-runner-{item["id"]}')
    steps = 0
    started = False

    def bad(what, **kw):
        return {'id': item['id'], 'status': 'violation', 'steps': steps, 'sig': {'what': what}, 'detail': kw}

    try:
        last = None
        for name, st in beh[1:]:
            last = st
            base = name.split('(')[0]
            a = st['act']
            if base in ('WorkerTake', 'WorkerPut', 'Next'):
                continue
            if base == 'Start':
                runner.start()
                started = True
            elif base == 'Restart':
                runner.restart(a['k'], a['o'], tag=item['id'])
            elif base == 'Rejoin':
                out = _bounded(runner.rejoin)
                if out is None:
                    return bad('rejoin-blocks', act=a)
                if a['o'] == 'ok':
                    if out[0] != 'ret' or out[1] != ('r', a['k'], a['n'], True):
                        return bad('rejoin-value', act=a, real=repr(out))
                else:
                    e = out[1]
                    if out[0] != 'raise' or type(e).__name__ != 'RunneeError' or tuple(e.args) != (a['k'], a['n']):
                        return bad('rejoin-exception', act=a, real=repr(out))
                    if not is_remote_exception(e) or 'RunneeError' not in get_remote_traceback(e):
                        return bad('rejoin-exception-not-remote', act=a, real=repr(out))
            elif base == 'Join':
                out = _bounded(lambda: runner.join(timeout=0.05))
                if out is None or out[0] != 'ret':
                    return bad('join-timeout-call', act=a, real=repr(out))
            elif base == 'JoinReturn':
                pr = runner._process
                _bounded(lambda: pr.join(STEP_TIMEOUT), STEP_TIMEOUT + 5)
                if pr.exitcode != 0:
                    return bad('process-not-ended', act=a, exitcode=pr.exitcode)
                marks = open(path).read().split('\n')[:-1]
                if marks != ['enter', f'exit {a["n"]}']:
                    return bad('enter-exit', act=a, marks=marks)
            else:
                return {'id': item['id'], 'status': 'machinery', 'detail': f'unknown action {name}'}
            steps += 1
        # a join() that cannot return (two or more results uncollected): the model says the process is still there
        if last is not None and last['st'] == 'stopping' and last['wpc'] != 'exited' \
                and last['sent'] - last['got'] >= 2:
            pr = runner._process
            pr.join(1.0)
            if pr.exitcode is not None:
                return bad('process-ended-with-uncollected-results', sent=last['sent'], got=last['got'])
        return {'id': item['id'], 'status': 'ok', 'steps': steps}
    finally:
        try:
            pr = runner._process
            if started and pr.exitcode is None:
                pr.kill()
                pr.join(10)
            f = getattr(pr, '_finalizer_', None)
            if f is not None:
                f()
        except Exception:  # noqa: BLE001
            pass
        import shutil
        shutil.rmtree(d, ignore_errors=True)


def run_job(job):
    res = []
    for item in job['items']:
        try:
            res.append(replay(item))
        except Exception as e:  # noqa: BLE001
            import traceback
            res.append({'id': item['id'], 'status': 'violation', 'steps': 0, 'sig': {'what': 'unexpected-exception'},
                        'detail': {'exc': repr(e), 'tb': traceback.format_exc()[-1500:]}})
    return {'results': res, 'n_exec': len(res)}
