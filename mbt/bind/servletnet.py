"""Binder for spec/ServletNet.tla: the REAL Server over THREAD servlet trees (single / sequential with a batched second stage /
ensemble / switch) under detsched.  Values carry provenance (nested tuples), so what each caller received can be decoded into the
spec's value records.  Observation: logging ledger, wrappers on every _SimpleThreadQueue of the tree, harness workers."""
from __future__ import annotations

import random
import re

from .common import ElemError, strip

U = 0.01
TOPOS = ('single', 'seq', 'ens', 'switch')


def gen_scenarios(rnd: random.Random, count, topos=TOPOS, max_r=4):
    out = []
    for _ in range(count):
        topo = rnd.choice(topos)
        nr = rnd.randint(2, max_r)
        stages = {'single': ['S1'], 'seq': ['S1', 'S2'], 'ens': ['A', 'B'], 'switch': ['A', 'B']}[topo]
        fail = {s: sorted(r for r in range(1, nr + 1) if rnd.random() < 0.25) for s in stages}
        pre = {s: ([2] if rnd.random() < 0.3 else []) for s in stages}      # the stage's preprocess hook rejects request 2
        out.append({'topo': topo, 'R': nr, 'fail': fail, 'pre': pre, 'route': [rnd.choice('AB') for _ in range(nr)],
                    'failfast': rnd.random() < 0.6, 'abandon': [1] if rnd.random() < 0.25 else [],
                    'dur': {s: [rnd.choice([0, 0, 1, 2, 4]) for _ in range(nr + 1)] for s in stages},
                    'delay': [rnd.choice([0, 0, 1, 2]) for _ in range(nr + 1)],
                    'bwait': rnd.choice([0, 1, 2]), 'hop': rnd.random() < 0.5, 'hook': rnd.random() < 0.5,
                    'flavour': rnd.choice(['sync', 'sync', 'async'])})
        # `nil`: a worker of a FINAL stage whose genuine result for a request is None (a lookup miss, a side-effect call): an
        # ordinary result value.  Only for requests that fail nowhere (inside an EnsembleError a None slot means "not
        # reported yet").
        sc = out[-1]
        clean = [r for r in range(1, nr + 1) if all(r not in fail[s] and r not in pre[s] for s in stages)]
        finals = {'single': ['S1'], 'seq': ['S2'], 'ens': ['A', 'B'], 'switch': ['A', 'B']}[topo]
        sc['nil'] = {s: sorted(r for r in clean if rnd.random() < 0.3) for s in finals}
    return out


def corner_scenarios():
    """The window of D7 (request ids must never be reused while the servlet tree still holds the old one), for Server and
    AsyncServer: a fail-fast ensemble answers request 1 as soon as member A has failed, while member B is still busy with
    request 1's input; later requests are submitted inside that window (their futures are created after request 1's future
    died - the adversarial identity allocator then hands its identity out again)."""
    out = []
    for flavour in ('sync', 'async'):
        # requests 1 and 2 fail fast in A (request 2's answer makes the gather thread let go of request 1's future), B stays
        # busy with request 1's input; request 3 (and 4) arrive afterwards
        for nr, delays in ((3, [0, 0, 1, 3]), (4, [0, 0, 1, 3, 4]), (3, [0, 0, 2, 4])):
            out.append({'topo': 'ens', 'R': nr, 'fail': {'A': [1, 2], 'B': []}, 'pre': {'A': [], 'B': []},
                        'route': ['A'] * nr, 'failfast': True, 'abandon': [],
                        'dur': {'A': [0] * (nr + 1), 'B': [0, 9] + [0] * (nr - 1)}, 'delay': delays,
                        'bwait': 0, 'hop': False, 'hook': False, 'flavour': flavour})
    return out


def header(sc):
    fail = {s: sc['fail'].get(s, []) for s in ('S1', 'S2', 'A', 'B')}
    pre = {s: sc.get('pre', {}).get(s, []) for s in ('S1', 'S2', 'A', 'B')}
    return {'R': sc['R'], 'topo': sc['topo'], 'failfast': sc['failfast'], 'fail': fail, 'pre': pre,
            'route': sc['route'] if sc['topo'] == 'switch' else ['A'] * sc['R'], 'abandon': sc['abandon']}


_installed = False
_ctx = {'qname': {}, 'uid': {}, 'nextu': [0]}


def small_uid(uid):
    m = _ctx['uid']
    if uid not in m:
        _ctx['nextu'][0] += 1
        m[uid] = _ctx['nextu'][0]
    return m[uid]


def who():
    import threading
    n = threading.current_thread().name
    m = re.search(r'wk(\d)', n)
    if m:
        return 'w', int(m.group(1))
    if '_gather_output' in n:
        return 'gather', 0
    if 'EnsembleServlet._enqueue' in n:
        return 'enq', 0
    if 'EnsembleServlet._dequeue' in n:
        return 'deq', 0
    if '_enqueue' in n:
        return 'sw', 0
    return 'x', 0


def _install():
    global _installed
    if _installed:
        return
    _installed = True
    from mbt import detsched
    from mpservice.mpserver import _worker
    import asyncio
    import asyncio.base_events
    import asyncio.futures
    import asyncio.tasks
    # AsyncServer scenarios: the loop runs in a detsched thread; pure-Python Future / Task (their locks and callbacks are then
    # ordinary Python code under the scheduler)
    PyF, PyT = asyncio.futures._PyFuture, asyncio.tasks._PyTask
    asyncio.Future = asyncio.futures.Future = PyF
    asyncio.Task = asyncio.tasks.Task = PyT
    asyncio.base_events.futures.Future = PyF
    asyncio.base_events.tasks.Task = PyT
    # C02 quantifies over "every legal behaviour of the object-identity allocator used to mint request ids": should the code
    # under test derive request ids from `id(some future)`, this adversarial - but legal - allocator gives a new future the
    # identity of the most recently DEAD one (identities are only unique among objects alive at the same time).  The code as it
    # is (a counter) never calls it.
    import concurrent.futures
    import weakref
    from mpservice.mpserver import _server
    dead = _ctx.setdefault('dead_ids', [])

    def adversarial_id(obj):
        if isinstance(obj, (concurrent.futures.Future, asyncio.futures._PyFuture)):
            d = obj.__dict__
            if '_verif_id' not in d:
                v = dead.pop() if dead else id(obj)
                d['_verif_id'] = v
                weakref.finalize(obj, dead.append, v)
            return d['_verif_id']
        return id(obj)

    _server.id = adversarial_id
    Q = _worker._SimpleThreadQueue
    oget = Q.get

    def get(self, *a, **k):
        z = oget(self, *a, **k)
        nm = _ctx['qname'].get(id(self))
        if nm is not None and z is not None and isinstance(z, tuple) and detsched.current() is not None:
            w, n = who()
            detsched.emit('QGet', q=nm, who=w, n=n, u=small_uid(z[0]))
        return z

    Q.get = get
    oput = Q.put

    def put(self, item, *a, **k):
        nm = _ctx['qname'].get(id(self))
        if nm is not None and item is not None and isinstance(item, tuple) and detsched.current() is not None:
            # (the QPut event is logged by the queue's deque at the very moment of the append - see `name_queues`: an event
            # logged here, before the real put, could be overtaken by another worker's put when `emit` is a scheduling
            # point, as it is under the guided strategy)
            if nm == 'in' and who()[0] == 'x':
                # the caller hands the input to the servlet tree: by then the request must be in the ledger (the window
                # between the two statements contains no synchronisation point, so it is checked on the order of events)
                detsched.emit('InPut', u=small_uid(item[0]))
            if _ctx.get('hop'):
                # emulate a PROCESS queue: the item goes through a pickle round trip (a RemoteException wrapper arrives as
                # the original exception with its remote traceback attached, exactly as across a real process boundary)
                import pickle
                item = pickle.loads(pickle.dumps(item))
        return oput(self, item, *a, **k)

    Q.put = put


def decode(v):
    """harness value -> spec value record"""
    from mpservice.multiprocessing.remote_exception import EnsembleError, RemoteException
    if isinstance(v, RemoteException):
        v = v.exc
    if isinstance(v, EnsembleError):
        z = v.args[1]
        a, b = (member(x) for x in z['y'])
        return {'k': 'x', 'req': 0, 'path': [], 'a': a, 'b': b}
    if isinstance(v, ElemError):
        return {'k': 'e', 'req': v.i, 'path': [v.site], 'a': 0, 'b': 0}
    if isinstance(v, list) and len(v) == 2:
        return {'k': 'l', 'req': 0, 'path': [], 'a': member(v[0]), 'b': member(v[1])}
    path = []
    while isinstance(v, tuple) and len(v) == 2 and v[0] != 'in':
        path.append(v[0])
        v = v[1]
    if isinstance(v, tuple) and v[0] == 'in':
        return {'k': 'v', 'req': v[1], 'path': path[::-1], 'a': 0, 'b': 0}
    return {'k': 'bad', 'req': 0, 'path': [], 'a': 0, 'b': 0}


def member(x):
    from mpservice.multiprocessing.remote_exception import RemoteException
    if x is None:
        return 0
    if isinstance(x, RemoteException):
        x = x.exc
    if isinstance(x, ElemError):
        return x.i + 100
    d = decode(x)
    return d['req'] if d['k'] == 'v' else -1


def req_of(x):
    while isinstance(x, tuple) and len(x) == 2 and x[0] != 'in':
        x = x[1]
    return x[1] if isinstance(x, tuple) and x and x[0] == 'in' else 0


def _make_scenario(sc):
    import threading
    import time
    from mbt import detsched
    from mpservice.mpserver import (EnsembleServlet, SequentialServlet, Server, ServerBacklogFull, SwitchServlet,
                                    ThreadServlet, Worker)
    from mpservice._common import TimeoutError as MpTimeout

    topo, R = sc['topo'], sc['R']
    fail = {s: set(v) for s, v in sc['fail'].items()}
    nil = {s: set(v) for s, v in (sc.get('nil') or {}).items()}

    def unnil(r, y):
        """a None that IS the final stage's result for request r (scenario field `nil`) -> the value that stage would have
        produced otherwise (the projection to the model's value records knows no None)"""
        def val(stage):
            inner = ('in', r)
            if topo == 'seq':
                inner = ('S1', inner)
            return (stage, inner)
        if topo == 'ens':
            if isinstance(y, list) and len(y) == 2:
                return [val(s) if (v is None and r in nil.get(s, ())) else v for s, v in zip(('A', 'B'), y)]
            return y
        if y is None:
            stage = {'single': 'S1', 'seq': 'S2'}.get(topo) or sc['route'][r - 1]
            if r in nil.get(stage, ()):
                return val(stage)
        return y

    def make_worker(stage, wid0, batch=0):
        class Wk(Worker):
            def call(self, x):
                wid = wid0 + self.worker_index
                xs = x if batch else [x]
                reqs = [req_of(v) for v in xs]
                d = max(sc['dur'][stage][r] for r in reqs)
                if d:
                    time.sleep(d * U)
                else:
                    detsched.checkpoint('work')
                bad = [r for r in reqs if r in fail[stage]]
                detsched.emit('WDone', n=wid, reqs=reqs, ok=not bad)
                if bad:
                    raise ElemError(bad[0], stage)
                ys = [(None if req_of(v) in nil.get(stage, ()) else (stage, v)) for v in xs]
                return ys if batch else ys[0]

        if sc.get('pre', {}).get(stage) or sc.get('hook'):
            rejected = set(sc.get('pre', {}).get(stage) or [])

            def preprocess(self, x):
                if not isinstance(x, tuple):
                    # a strict hook, as user code typically is: it must only ever see genuine inputs
                    raise TypeError(f'preprocess of stage {stage} was given {type(x).__name__}, not an input')
                r = req_of(x)
                if r in rejected:
                    raise ElemError(r, 'P' + stage)
                return x

            Wk.preprocess = preprocess
        Wk.__name__ = f'W{stage}'
        return Wk

    def build():
        if topo == 'single':
            return ThreadServlet(make_worker('S1', 1), num_threads=2, worker_name='wk')      # threads wk-0, wk-1
        if topo == 'seq':
            return SequentialServlet(
                ThreadServlet(make_worker('S1', 1), num_threads=2, worker_name='wk'),
                ThreadServlet(make_worker('S2', 3, batch=2), num_threads=1, worker_name='wkb', batch_size=2,
                              batch_wait_time=sc['bwait'] * U))
        if topo == 'ens':
            return EnsembleServlet(ThreadServlet(make_worker('A', 1), worker_name='wka'),
                                   ThreadServlet(make_worker('B', 2), worker_name='wkb'), fail_fast=sc['failfast'])

        class Sw(SwitchServlet):
            def switch(self, x):
                return 0 if sc['route'][req_of(x) - 1] == 'A' else 1

        return Sw(ThreadServlet(make_worker('A', 1), worker_name='wka'),
                  ThreadServlet(make_worker('B', 2), worker_name='wkb'))

    tl = threading.local()

    class Ledger(dict):
        def __setitem__(self, uid, fut):
            dict.__setitem__(self, uid, fut)
            detsched.emit('Submit', r=getattr(tl, 'r', 0), u=small_uid(uid))

    # thread name -> worker id of the spec
    def name_threads(servlet):
        pass

    def root():
        sched = detsched.current()
        _ctx['qname'].clear()
        _ctx['hop'] = bool(sc.get('hop'))
        _ctx['uid'].clear()
        _ctx['nextu'][0] = 0
        _ctx.setdefault('dead_ids', []).clear()
        servlet = build()
        server = Server(servlet, capacity=16)
        server._uid_to_futures = Ledger()
        orig = server._enqueue

        def enqueue(x, *a, **k):
            # (a future that failed sits in a reference cycle with its exception's traceback; the cyclic collector - switched
            # off during scheduled runs - would free it at some arbitrary moment: here, which is the moment that matters)
            import gc
            gc.collect()
            tl.r = req_of(x)
            try:
                return orig(x, *a, **k)
            finally:
                tl.r = 0

        server._enqueue = enqueue
        server.__enter__()
        name_queues(server, servlet)

        def caller(r):
            if sc['delay'][r]:
                time.sleep(sc['delay'][r] * U)
            timeout = 3 * U if r in sc['abandon'] else 1000.0
            # (the exception is examined inside the `except` block and not kept: a local variable holding it would form a
            # reference cycle with its own traceback and keep the request's future alive for ever)
            try:
                y = server.call(('in', r), timeout=timeout)
            except MpTimeout:
                detsched.emit('Abandon', r=r)
                return
            except (ElemError, Exception) as e:
                report(r, e)
                return
            report(r, y)

        ths = [threading.Thread(target=caller, args=(r,), name=f'caller-{r}') for r in range(1, R + 1)]
        for t in ths:
            t.start()
        for t in ths:
            t.join()
        time.sleep(2.0)
        detsched.emit('Idle', backlog=server.backlog)
        server.__exit__(None, None, None)
        names = [t.name for t in sched.alive() if t is not sched.root]
        detsched.emit('Exit', leftover=len(names))

    import collections

    class LogDeque(collections.deque):
        """the deque inside a _SimpleThreadQueue: a worker's put is logged at the moment of the append"""
        qname = None

        def append(self, item):
            collections.deque.append(self, item)
            if item is not None and isinstance(item, tuple) and detsched.current() is not None:
                w, n = who()
                if w in ('w', 'wc'):
                    detsched.emit('QPut', q=self.qname, who=w, n=n, u=small_uid(item[0]))

    def log_puts(q, name):
        d = LogDeque(q._queue)
        d.qname = name
        q._queue = d

    def name_queues(server, servlet):
        _name_queues(server, servlet)
        by_id = {}
        for q in [server._q_in, server._q_out] + list(getattr(servlet, '_qs', [])) + list(getattr(servlet, '_qins', [])) \
                + list(getattr(servlet, '_qouts', [])):
            nm = _ctx['qname'].get(id(q))
            if nm is not None and id(q) not in by_id:
                by_id[id(q)] = nm
                log_puts(q, nm)

    def _name_queues(server, servlet):
        qn = _ctx['qname']
        qn[id(server._q_in)] = 'in'
        qn[id(server._q_out)] = 'out'
        if topo == 'seq':
            qn[id(servlet._qs[0])] = 'm1'
        if topo == 'ens':
            qn[id(servlet._qins[0])], qn[id(servlet._qins[1])] = 'ma', 'mb'
            qn[id(servlet._qouts[0])], qn[id(servlet._qouts[1])] = 'oa', 'ob'
        if topo == 'switch':
            qn[id(servlet._qins[0])], qn[id(servlet._qins[1])] = 'ma', 'mb'

    def report(r, y):
        d = decode(unnil(r, y))
        tb = True
        if d['k'] == 'e':
            # C04: original type (ElemError, checked by decode), original args, and the traceback of the failure site: as
            # text once it has crossed a process boundary, as live frames otherwise (thread servlets)
            from mpservice.multiprocessing.remote_exception import get_remote_traceback, is_remote_exception
            import traceback
            try:
                txt = get_remote_traceback(y) if is_remote_exception(y) else ''.join(traceback.format_exception(y))
            except Exception:
                txt = ''
            tb = ('raise ElemError' in txt and ('in call' in txt or 'in preprocess' in txt)
                  and y.args == (d['req'], d['path'][0]))
        detsched.emit('Ret', r=r, tb=bool(tb), **d)

    def root_async():
        # the same scenario on AsyncServer: the callers are tasks of one event loop (running in this detsched thread), the
        # gather thread and the servlet tree are the same threads as for Server
        import asyncio
        import contextvars
        from mpservice.mpserver import AsyncServer
        sched = detsched.current()
        _ctx['qname'].clear()
        _ctx['hop'] = bool(sc.get('hop'))
        _ctx['uid'].clear()
        _ctx['nextu'][0] = 0
        _ctx.setdefault('dead_ids', []).clear()
        cur = contextvars.ContextVar('verif_req', default=0)

        class ALedger(dict):
            def __setitem__(self, uid, fut):
                dict.__setitem__(self, uid, fut)
                detsched.emit('Submit', r=cur.get(), u=small_uid(uid))

        async def main():
            servlet = build()
            server = AsyncServer(servlet, capacity=16)
            server._uid_to_futures = ALedger()
            orig = server._enqueue

            async def enqueue(x, *a, **k):
                import gc
                gc.collect()      # see the sync variant
                tok = cur.set(req_of(x))
                try:
                    return await orig(x, *a, **k)
                finally:
                    cur.reset(tok)

            server._enqueue = enqueue
            await server.__aenter__()
            name_queues(server, servlet)

            async def caller(r):
                if sc['delay'][r]:
                    await asyncio.sleep(sc['delay'][r] * U)
                timeout = 3 * U if r in sc['abandon'] else 1000.0
                try:
                    y = await server.call(('in', r), timeout=timeout)
                except MpTimeout:
                    detsched.emit('Abandon', r=r)
                    return
                except (ElemError, Exception) as e:
                    report(r, e)
                    return
                report(r, y)

            await asyncio.gather(*[caller(r) for r in range(1, R + 1)])
            await asyncio.sleep(2.0)
            detsched.emit('Idle', backlog=server.backlog)
            await server.__aexit__(None, None, None)

        asyncio.run(main())
        names = [t.name for t in sched.alive() if t is not sched.root]
        detsched.emit('Exit', leftover=len(names))

    return root_async if sc.get('flavour') == 'async' else root


# worker ids of the spec by thread name: single/seq stage 1: wk-0 -> 1, wk-1 -> 2; seq stage 2: wkb-0 -> 3; ens/switch: wka-0 -> 1, wkb-0 -> 2
def spec_worker(name, topo):
    if 'wkb-' in name:
        return 3 if topo == 'seq' else 2
    if 'wka-' in name:
        return 1
    m = re.search(r'wk-(\d)', name)
    return int(m.group(1)) + 1 if m else 0


# spec -> code (L2): action of ServletNet -> (role, event).  Roles: c<r> caller of request r; w<i> worker i; wc<i> the collector
# thread of batching worker i; gather; enq / deq (ensemble helper threads); sw (switch helper thread)
def behaviour_to_item(beh, consts):
    """A TLC behaviour of ServletNet -> scenario + steering script (behaviours with abandoned requests are not steered)."""
    from mbt.tlc import split_action
    p = beh[0][1]['p']
    topo = consts['Topo']
    script = []
    for act, st in beh[1:]:
        name, args = split_action(act)
        if name == 'Abandon':
            return None
        if name == 'Submit':
            script.append({'role': f'c{args[0]}', 'ev': 'Submit', 'act': act})
        elif name == 'Return':
            script.append({'role': f'c{args[0]}', 'ev': 'Ret', 'act': act})
        elif name == 'Gather':
            script.append({'role': 'gather', 'ev': 'QGet', 'act': act})
        elif name == 'EnsEnq':
            script.append({'role': 'enq', 'ev': 'QGet', 'act': act})
        elif name == 'SwEnq':
            script.append({'role': 'sw', 'ev': 'QGet', 'act': act})
        elif name == 'EnsDeq':
            script.append({'role': 'deq', 'ev': 'QGet', 'act': act})
        elif name in ('WTake', 'WFinish', 'WPut', 'WPutSc'):
            i = args[0]
            batching = topo == 'seq' and i == 3
            role = f'wc{i}' if (name in ('WTake', 'WPutSc') and batching) else f'w{i}'
            script.append({'role': role, 'ev': {'WTake': 'QGet', 'WFinish': 'WDone', 'WPut': 'QPut', 'WPutSc': 'QPut'}[name],
                           'act': act})
    R = consts['R']
    stages = ('S1', 'S2', 'A', 'B')
    sc = {'topo': topo, 'R': R, 'fail': {s: sorted(p['fail'][s]) for s in stages}, 'pre': {s: sorted(p['pre'][s]) for s in stages},
          'route': [p['route'][r] for r in sorted(p['route'])] if isinstance(p['route'], dict) else list(p['route']),
          'failfast': consts['FailFast'], 'abandon': [], 'dur': {s: [0] * (R + 1) for s in stages}, 'delay': [0] * (R + 1),
          'bwait': 1, 'hop': False, 'hook': False, 'flavour': 'sync'}
    return {'sc': sc, 'script': script}


def _role_of_factory(topo):
    def role_of(t):
        n = t.name
        m = re.match(r'caller-(\d+)', n)
        if m:
            return 'c' + m.group(1)
        w = spec_worker(n, topo)
        if w:
            return ('wc' if '_build_input_batches' in n else 'w') + str(w)
        if '_gather_output' in n:
            return 'gather'
        if 'EnsembleServlet._enqueue' in n:
            return 'enq'
        if 'EnsembleServlet._dequeue' in n:
            return 'deq'
        if '._enqueue' in n:
            return 'sw'
        return 'x'
    return role_of


def run_job(job):
    import threading
    from mbt import detsched
    _install()
    traces, hangs, n_exec = [], [], 0
    for item in job['items']:
        sc, seed, strat = item['sc'], item['seed'], item.get('strategy', 'random')
        topo = sc['topo']
        # `who()` resolves worker threads through this hook
        global who

        def who(topo=topo):
            n = threading.current_thread().name
            w = spec_worker(n, topo)
            if w:
                return ('wc' if '_build_input_batches' in n else 'w'), w
            if '_gather_output' in n:
                return 'gather', 0
            if 'EnsembleServlet._enqueue' in n:
                return 'enq', 0
            if 'EnsembleServlet._dequeue' in n:
                return 'deq', 0
            if '._enqueue' in n:
                return 'sw', 0
            return 'x', 0

        if strat == 'pct':
            st = detsched.PCTStrategy(seed, depth=3 + seed % 4, est_steps=2500, fire=0.2)
        else:
            st = detsched.RandomStrategy(seed, stay=0.4 + 0.5 * ((seed * 7919) % 10) / 10.0, fire=0.25)
        guided = None
        if item.get('script') is not None:
            guided = st = detsched.GuidedStrategy(item['script'], _role_of_factory(topo), {}, seed=seed, patience=80)
            strat = 'guided'
        res = detsched.run(_make_scenario(sc), st, max_steps=500000, stall_timeout=120, lag=0.02, max_idle_vtime=3000.0)
        n_exec += 1
        rec = {'id': item['id'], 'p': header(sc), 'ev': strip(res.trace), 'sc': sc, 'seed': seed, 'strategy': strat,
               'status': res.status}
        if guided is not None:
            want = [x['ev'] for x in item['script']]
            got = [e['ev'] for e in rec['ev'] if e['ev'] in ('Submit', 'Ret', 'QGet', 'QPut', 'WDone')]
            rec['l2'] = {'steps': len(want), 'followed': guided.followed, 'skipped': guided.skipped,
                         'exact': got[:len(want)] == want}
        if res.status != 'ok' or res.exc is not None or res.thread_errors:
            rec.update(detail=res.detail, waitmap=res.waitmap, exc=repr(res.exc) if res.exc is not None else None,
                       leftover=res.leftover, thread_errors=res.thread_errors)
            hangs.append(rec)
            if len(hangs) >= 25:
                break
        else:
            traces.append(rec)
    return {'traces': traces, 'hangs': hangs, 'n_exec': n_exec}
