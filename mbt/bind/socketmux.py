"""Binder for spec/SocketMux.tla and spec/FifoPipe.tla (C18): runs the REAL transports and records events.

socket  a real SocketServer on a unix socket (its asyncio loop in a helper thread of this process) and a real SocketClient
        (its own loop thread, K connections); requester threads call request() / one thread iterates stream(); the handlers
        are harness coroutines gated by the harness, so that they finish - and responses are due - in the order the scenario
        asks for.  Observation, all inside this process and without touching /repo: wrappers around the module-level
        read_record / write_record of mpservice.socket (role told apart by thread), a logging SingleLane for the client's
        pending queue, a logging dict for its active table, the harness handlers and callers.
pipe    mpservice.pipe.Server in this process, mpservice.pipe.Client in a spawned process; each end has a sender and a
        receiver thread; events carry the system-wide monotonic clock and are merged by it.

No detsched (real sockets / processes): a scenario gets a generous wall-clock bound; one that exceeds it is reported as a
hang candidate and re-tried by the check in fresh processes.
"""
from __future__ import annotations

import os
import random
import shutil
import tempfile
import threading
import time

SCENARIO_BOUND = 90.0  # seconds; a scenario normally takes well under one
CLASSES = ['small', 'empty', 'newline', 'header', 'big', 'nested', 'raises']
BIG = 3 << 20


class HandlerError(Exception):
    """what the `raises` handler raises"""


def handler_exception_type(r):
    """which exception class the `raises` handler of request r raises: the harness' own class, and classes the transport's
    own code also catches for other purposes (the TimeoutError family is one class in Python >= 3.11: asyncio's, the
    builtin, socket.timeout; mpservice.mpserver.TimeoutError derives from it) - they must reach the requester all the same"""
    import asyncio
    from mpservice.mpserver import TimeoutError as MpTimeout
    return [HandlerError, TimeoutError, KeyError, asyncio.TimeoutError, MpTimeout, HandlerError, ValueError, OSError][r % 8]


# ---------------------------------------------------------------------------------------------------------------
# payload catalogue

def make_payload(cls, seed, r):
    rnd = random.Random(f'{cls}/{seed}/{r}')
    if cls == 'small':
        return rnd.choice([r, f'req-{r}', 3.5 + r, (r, 'x'), True])
    if cls == 'empty':
        return b''
    if cls == 'newline':
        return b'\n'.join(rnd.randbytes(rnd.randint(0, 40)) for _ in range(rnd.randint(2, 30))) + b'\n\r\n\n'
    if cls == 'header':
        # looks exactly like the record header `<id> <nbytes> <encoder>\n`, several times, also with the id of a live request
        n = rnd.randint(0, 99)
        return (f'{140000000000000 + r} {n} pickle\n'.encode() + rnd.randbytes(n) + b'17 0 none\n' + b'1 5 utf8\nhello'
                + f'{r} 3 pickle\n'.encode())
    if cls == 'big':
        head = rnd.randbytes(1 << 16)
        return head * (BIG >> 16) + b'tail %d 12 pickle\n' % r
    if cls == 'nested':
        return {'r': r, 'list': [1, (2, b'x\ny'), {'k': None, 'z': [rnd.random() for _ in range(5)]}],
                'text': 'multi\nline 中\U0001f600', 'bytes': rnd.randbytes(300), 'deep': [[[[['x' * 50]]]]] * 3}
    if cls == 'raises':
        return ('please fail', r, rnd.randbytes(8))
    raise KeyError(cls)


def random_payloads(seed, n):
    """seeded random nested picklables (hypothesis strategies), never None, equality well defined"""
    from hypothesis import HealthCheck, Phase, given, settings
    from hypothesis import seed as hseed
    from hypothesis import strategies as st
    leaf = st.one_of(st.integers(), st.text(max_size=40), st.binary(max_size=200), st.booleans(),
                     st.floats(allow_nan=False), st.none())
    tree = st.recursive(leaf, lambda c: st.one_of(st.lists(c, max_size=5), st.tuples(c, c),
                                                  st.dictionaries(st.text(max_size=8), c, max_size=4)), max_leaves=25)
    top = st.one_of(st.binary(min_size=0, max_size=70000), st.lists(tree, max_size=6), st.dictionaries(st.text(max_size=8), tree, max_size=5),
                    st.tuples(tree, tree), st.text(max_size=3000), st.integers(), st.floats(allow_nan=False))
    out = []

    @settings(max_examples=n, database=None, phases=[Phase.generate], deadline=None,
              suppress_health_check=list(HealthCheck), derandomize=False)
    @hseed(seed)
    @given(top)
    def collect(x):
        out.append(x)

    collect()
    while len(out) < n:
        out.append(('filler', len(out)))
    return out[:n]


# ---------------------------------------------------------------------------------------------------------------
# scenario generation (parent side)

def gen_socket_scenarios(rnd: random.Random, count, max_r=6, random_payload=False):
    out = []
    for _ in range(count):
        nr = rnd.randint(2, max_r)
        K = rnd.choice([1, 2, 2])
        B = rnd.choice([1, 1, 2, 3])
        PC = rnd.choice([1, 2, 4])
        cls = [rnd.choice(CLASSES) for _ in range(nr)]
        if 'big' not in cls and rnd.random() < 0.35:
            cls[rnd.randrange(nr)] = 'big'
        while cls.count('big') > 2:
            cls[cls.index('big')] = 'header'
        stream = []
        if rnd.random() < 0.5:
            k = rnd.randint(1, nr)
            start = rnd.randint(0, nr - k)
            stream = list(range(start + 1, start + k + 1))
        order = list(range(1, nr + 1))
        rnd.shuffle(order)
        out.append({'kind': 'socket', 'K': K, 'B': B, 'PC': PC, 'cls': cls, 'stream': stream, 'order': order,
                    'gated': rnd.random() < 0.75, 'delays': [rnd.choice([0, 0, 1, 3, 8]) for _ in range(nr)],
                    'start': [rnd.choice([0, 0, 0, 2, 5]) for _ in range(nr)], 'seed': rnd.randrange(1 << 30),
                    'random_payload': bool(random_payload and rnd.random() < 0.7)})
    return out


def gen_stall_scenarios(rnd: random.Random, rounds=1):
    """Multi-MB records (request 1 is echoed, so both directions) in flight while an event loop stands still for 0.3 s:
    srv_read   the server has read the header of the big request; the handler of ANOTHER request (2) then blocks the
               server's loop (time.sleep inside the coroutine)
    srv_write  the server has begun to write the big response; the handler of request 2 then blocks the server's loop
    cli_write  the client has begun to write the big request; a blocking callback then stalls the client's loop
    cli_read   the client has read the header of the big response; a blocking callback then stalls the client's loop"""
    out = []
    for _ in range(rounds):
        for kind in ('srv_read', 'srv_write', 'cli_write', 'cli_read'):
            for K in (1, 2):
                cls = ['big', 'small', rnd.choice(['small', 'header', 'newline', 'nested', 'raises', 'big'])]
                out.append({'kind': 'socket', 'K': K, 'B': rnd.choice([1, 2, 3]), 'PC': 4, 'cls': cls, 'stream': [],
                            'order': [1, 2, 3], 'gated': False, 'delays': [0, 0, 0], 'start': [0, 0, 0],
                            'seed': rnd.randrange(1 << 30), 'random_payload': False, 'bound': 40.0,
                            'stall': {'kind': kind, 'big': 1, 'blocker': 2, 'seconds': 0.3}})
    return out


def gen_pipe_scenarios(rnd: random.Random, count):
    out = []
    kinds = ['small', 'small', 'empty', 'newline', 'nested', 'over', 'over', 'big']
    for _ in range(count):
        out.append({'kind': 'pipe', 'seed': rnd.randrange(1 << 30),
                    'm1': [rnd.choice(kinds) for _ in range(rnd.randint(0, 7))],
                    'm2': [rnd.choice(kinds) for _ in range(rnd.randint(1, 7))]})
    return out


def socket_header(sc):
    return {'K': sc['K'], 'B': sc['B'], 'PC': sc['PC'], 'cls': sc['cls'], 'stream': sc['stream']}


def pipe_header(sc):
    return {'cap': len(sc['m1']) + len(sc['m2']) + 1, 'sz1': [1] * len(sc['m1']), 'sz2': [1] * len(sc['m2'])}


# ---------------------------------------------------------------------------------------------------------------
# socket: instrumentation (installed once per runner process)

_ctx = {'ev': None, 'srv_thread': None, 'id2r': {}, 'small': {}, 'writers': {}, 'conn_of': {}, 'lock': threading.Lock(),
        'stall': None, 'read_errors': []}
_installed = False


def _emit(ev, **kw):
    log = _ctx['ev']
    if log is not None:
        kw['ev'] = ev
        log.append(kw)


def _req_of(path, data):
    if path == '/s':
        return data[0] if isinstance(data, tuple) and data and isinstance(data[0], int) else None
    if path.startswith('/r'):
        return int(path[2:])
    return None


def _small_id(real):
    """request ids are id(fut): map each distinct value to a small integer (the same value -> the same integer)"""
    m = _ctx['small']
    if real not in m:
        m[real] = len(m) + 1
    return m[real]


def _install():
    global _installed
    if _installed:
        return
    _installed = True
    import mpservice.socket as S

    orig_write, orig_read = S.write_record, S.read_record

    def stall_due(kind, r=None):
        """a stall scenario waits for exactly this moment (once): a multi-MB record is about to be written / its payload
        is about to be read on the named side"""
        stl = _ctx['stall']
        if stl is None or stl['fired'] or stl['kind'] != kind or (r is not None and r != stl['big']):
            return False
        stl['fired'] = True
        return True

    def stall_client_loop():
        # a blocking callback in the client's event loop: runs in the next iteration, i.e. while the record is half way
        import asyncio
        asyncio.get_running_loop().call_soon(time.sleep, _ctx['stall']['seconds'])

    class ReaderProxy:
        """stands in for the StreamReader inside read_record: tells when the payload read of a multi-MB record begins"""

        def __init__(self, reader, side):
            self._r, self._side = reader, side

        def readuntil(self, sep=b'\n'):
            return self._r.readuntil(sep)

        async def readexactly(self, n):
            if n >= (1 << 20):
                if self._side == 'server' and stall_due('srv_read'):
                    _ctx['stall']['release_blocker']()  # another request's handler now blocks the server's loop
                elif self._side == 'client' and stall_due('cli_read'):
                    stall_client_loop()
            return await self._r.readexactly(n)

    async def write_record(writer, request_id, data, *, encoder='pickle'):
        if _ctx['ev'] is not None:
            if isinstance(request_id, int):  # client side: data = (path, payload)
                r = _req_of(data[0], data[1])
                if r is not None:
                    w = _ctx['writers']
                    c = w.setdefault(id(writer), len(w) + 1)
                    _ctx['conn_of'][r] = c
                    _ctx['id2r'][str(request_id)] = r  # the id as it goes on the wire
                    _emit('Take', r=r, c=c)
                    _emit('Write', r=r, c=c, id=_small_id(request_id))
                    if stall_due('cli_write', r):
                        stall_client_loop()
            else:  # server side: the id as read from the request header
                r = _ctx['id2r'].get(request_id)
                if r is not None:
                    _emit('Resp', r=r)
                    if stall_due('srv_write', r):
                        _ctx['stall']['release_blocker']()
        return await orig_write(writer, request_id, data, encoder=encoder)

    async def read_record(reader, *, timeout=None):
        server_side = threading.get_ident() == _ctx['srv_thread']
        # always through the proxy: a call that began before the scenario was armed may be the one that reads the big record
        reader = ReaderProxy(reader, 'server' if server_side else 'client')
        try:
            rid, data = await orig_read(reader, timeout=timeout)
        except (TimeoutError, EOFError):  # nothing to read at the moment / connection closed: the callers handle these
            raise
        except Exception as e:  # noqa: BLE001 - a record could not be parsed: the stream is out of step
            if _ctx['ev'] is not None:
                _ctx['read_errors'].append(('server' if server_side else 'client') + ': ' + repr(e)[:200])
            raise
        if _ctx['ev'] is not None and server_side:
            try:
                r = _req_of(data[0], data[1])
            except Exception:  # noqa: BLE001
                r = None
            if r is not None:
                _emit('SRecv', r=r)
        return rid, data

    S.write_record, S.read_record = write_record, read_record

    class LoggingLane(S.SingleLane):
        """the client's pending queue: logs the beginning of a put (with the request id = id(fut))"""

        def put(self, item, block=True, timeout=None):
            if getattr(self, '_verif_pending', False) and _ctx['ev'] is not None:
                try:
                    (path, data), fut = item
                    r = _req_of(path, data)
                except Exception:  # noqa: BLE001
                    r = None
                if r is not None:
                    fut._vr = r
                    _emit('Sub', r=r, id=_small_id(id(fut)))
            return super().put(item, block, timeout)

    S.SingleLane = LoggingLane


class _ActiveDict(dict):
    """the client's table id -> future"""

    def __setitem__(self, rid, fut):
        r = getattr(fut, '_vr', None)
        if r is not None:
            _emit('Reg', r=r, c=_ctx['conn_of'].get(r, 0))
        dict.__setitem__(self, rid, fut)

    def pop(self, rid, *a):
        try:
            fut = dict.pop(self, rid)
        except KeyError:
            _emit('CRecv', r=0, found=False)
            raise
        r = getattr(fut, '_vr', None)
        if r is not None:
            _emit('CRecv', r=r, found=True)
        return fut


def run_socket(sc):
    """-> dict(status, ev, detail)"""
    import asyncio
    import mpservice.socket as S
    from mpservice.multiprocessing.remote_exception import get_remote_traceback, is_remote_exception
    _install()
    nr = len(sc['cls'])
    reqs = list(range(1, nr + 1))
    stream = list(sc['stream'])
    payloads = {r: make_payload(sc['cls'][r - 1], sc['seed'], r) for r in reqs}
    if sc.get('random_payload'):
        rp = random_payloads(sc['seed'], nr)
        for r in reqs:
            if sc['cls'][r - 1] == 'nested' and rp[r - 1] is not None:
                payloads[r] = rp[r - 1]
    sent = {r: ((r, payloads[r]) if r in stream else payloads[r]) for r in reqs}
    ev = []
    _ctx.update(ev=None, id2r={}, small={}, writers={}, conn_of={}, stall=None, read_errors=[])
    stall = dict(sc['stall'], fired=False) if sc.get('stall') else None
    bound = float(sc.get('bound', SCENARIO_BOUND))
    if stall:
        gated_reqs = {'srv_read': {stall['blocker']}, 'srv_write': {stall['big'], stall['blocker']}}.get(stall['kind'], set())
    else:
        gated_reqs = set(reqs) if sc['gated'] else set()
    go = {r: threading.Event() for r in reqs}  # caller r may call request()
    tmpd = tempfile.mkdtemp(prefix='vsm')
    path = os.path.join(tmpd, 's')
    state = {'started': [], 'finished': set(), 'last_start': time.monotonic(), 'gates': {}, 'loop': None}
    cond = threading.Condition()

    def make_handler(fixed_r):
        async def verif_handler(data):
            if fixed_r is None:
                r, payload = data[0], data[1]
            else:
                r, payload = fixed_r, data
            intact = r in payloads and type(payload) is type(payloads[r]) and payload == payloads[r]
            gate = state['gates'].setdefault(r, asyncio.Event())
            _emit('HStart', r=r, intact=bool(intact))
            with cond:
                state['started'].append(r)
                state['last_start'] = time.monotonic()
                cond.notify_all()
            if r in gated_reqs:
                await gate.wait()
            elif sc['delays'][r - 1]:
                await asyncio.sleep(sc['delays'][r - 1] / 1000.0)
            if stall and r == stall['blocker'] and stall['kind'] in ('srv_read', 'srv_write'):
                time.sleep(stall['seconds'])  # a handler that does not yield: the server's only loop stands still
            _emit('HFin', r=r)
            with cond:
                state['finished'].add(r)
                cond.notify_all()
            if sc['cls'][r - 1] == 'raises':
                raise handler_exception_type(r)(r, payload)
            return ('echo', r, payload)
        return verif_handler

    app = S.SocketApplication()
    for r in reqs:
        app.add_route(f'/r{r}', make_handler(r))
    app.add_route('/s', make_handler(None))
    server = S.SocketServer(app, path=path, backlog=sc['B'])
    srv_err = []

    def serve():
        _ctx['srv_thread'] = threading.get_ident()

        async def main():
            state['loop'] = asyncio.get_running_loop()
            await server.serve()
        try:
            asyncio.run(main())
        except BaseException as e:  # noqa: BLE001
            srv_err.append(repr(e))

    st = threading.Thread(target=serve, name='verif-socket-server', daemon=True)
    st.start()
    deadline = time.monotonic() + bound
    client = S.SocketClient(path=path, num_connections=sc['K'], backlog=sc['PC'])
    client._active_requests = _ActiveDict()
    problems = []
    results = {}

    def check_result(r, y, is_exc):
        if sc['cls'][r - 1] == 'raises':
            ok = (is_exc and type(y) is handler_exception_type(r) and y.args == (r, payloads[r]) and is_remote_exception(y)
                  and 'verif_handler' in get_remote_traceback(y))
        else:
            exp = ('echo', r, payloads[r])
            ok = (not is_exc) and type(y) is tuple and len(y) == 3 and y[:2] == exp[:2] \
                and type(y[2]) is type(exp[2]) and y[2] == exp[2]
        if not ok:
            problems.append({'r': r, 'got': repr(y)[:300], 'is_exc': is_exc})
        return bool(ok)

    def caller(r):
        go[r].wait(bound)
        if sc['start'][r - 1]:
            time.sleep(sc['start'][r - 1] / 1000.0)
        try:
            y = client.request(f'/r{r}', sent[r], response_timeout=bound)
            is_exc = False
        except BaseException as e:  # noqa: BLE001
            y, is_exc = e, True
        results[r] = True
        _emit('Ret', r=r, ok=check_result(r, y, is_exc))

    def streamer():
        try:
            for x, y in client.stream('/s', [sent[r] for r in stream], return_x=True, return_exceptions=True,
                                      enqueue_timeout=SCENARIO_BOUND, response_timeout=SCENARIO_BOUND):
                r = x[0]
                results[r] = True
                _emit('Yield', r=r, ok=check_result(r, y, isinstance(y, BaseException)))
        except BaseException as e:  # noqa: BLE001
            problems.append({'stream': repr(e)})

    def controller():
        """release the gated handlers: always the started one the scenario ranks first, after the arrivals have settled"""
        rank = {r: i for i, r in enumerate(sc['order'])}
        released = set()
        while len(released) < nr and time.monotonic() < deadline:
            with cond:
                waiting = [r for r in state['started'] if r not in released]
                if not waiting:
                    cond.wait(0.01)
                    continue
                if len(state['started']) < nr and time.monotonic() - state['last_start'] < 0.03:
                    cond.wait(0.005)
                    continue
                r = min(waiting, key=lambda q: rank[q])
            released.add(r)
            gate = state['gates'][r]
            state['loop'].call_soon_threadsafe(gate.set)
            with cond:
                while r not in state['finished'] and time.monotonic() < deadline:
                    cond.wait(0.05)

    def set_gate(r):
        # runs in the server's loop thread
        state['gates'].setdefault(r, asyncio.Event()).set()

    def director():
        """stall scenarios: bring the requests into the position in which the stall is to hit"""
        big, blocker = stall['big'], stall['blocker']
        rest = [r for r in reqs if r not in (big, blocker)]

        def wait_started(r):
            with cond:
                while r not in state['started'] and time.monotonic() < deadline:
                    cond.wait(0.05)

        def wait_fired(limit=5.0):
            t0 = time.monotonic()
            while not stall['fired'] and time.monotonic() - t0 < limit and time.monotonic() < deadline:
                time.sleep(0.005)

        def release(r):
            state['loop'].call_soon_threadsafe(set_gate, r)

        if stall['kind'] == 'srv_read':
            go[blocker].set()
            wait_started(blocker)  # its handler waits at the gate
            for r in [big] + rest:
                go[r].set()
            wait_fired()  # the payload read of the big request has begun and the gate was opened from there
            release(blocker)  # (safety: never leave the blocker waiting)
        elif stall['kind'] == 'srv_write':
            go[big].set()
            wait_started(big)
            go[blocker].set()
            wait_started(blocker)
            for r in rest:
                go[r].set()
            release(big)  # its big response is written next; the write opens the blocker's gate
            wait_fired()
            release(blocker)
        else:
            for r in [blocker] + rest + [big]:
                go[r].set()

    status, detail = 'ok', None
    threads = []
    try:
        client.__enter__()
        client._pending_requests._verif_pending = True
        if stall:
            stall['release_blocker'] = lambda: set_gate(stall['blocker'])
            _ctx['stall'] = stall
        else:
            for e in go.values():
                e.set()
        _ctx['ev'] = ev
        threads = [threading.Thread(target=caller, args=(r,), name=f'verif-caller-{r}', daemon=True)
                   for r in reqs if r not in stream]
        if stream:
            threads.append(threading.Thread(target=streamer, name='verif-streamer', daemon=True))
        if stall:
            threads.append(threading.Thread(target=director, name='verif-director', daemon=True))
        elif sc['gated']:
            threads.append(threading.Thread(target=controller, name='verif-controller', daemon=True))
        for t in threads:
            t.start()
        # wait for the callers; notice at once if the client's event loop thread or the server died
        died = None
        while any(t.is_alive() for t in threads) and time.monotonic() < deadline:
            for t in threads:
                t.join(0.05)
                if t.is_alive():
                    break
            if client._tasks and client._tasks[0].done():
                died = 'client loop ended: ' + repr(client._tasks[0].exception())
            elif srv_err or not st.is_alive():
                died = 'server ended: ' + repr(srv_err)
            elif _ctx['read_errors']:
                died = 'a record could not be parsed, connection out of step: ' + '; '.join(_ctx['read_errors'][:3])
            if died:
                time.sleep(0.3)
                break
        alive = [t.name for t in threads if t.is_alive()]
        if alive:
            status = 'crash' if died else 'hang'
            if died:
                ev.append({'ev': 'Crash', 'what': died[:300]})  # no action of the spec matches: TLC rejects the trace here
            detail = {'alive': alive, 'died': died, 'started': list(state['started']), 'finished': sorted(state['finished']),
                      'returned': sorted(results), 'active': len(client._active_requests),
                      'pending': client._pending_requests.qsize(), 'server_error': srv_err,
                      'client_tasks': [repr(t.exception()) if t.done() else 'running' for t in client._tasks]}
        else:
            _emit('End', active=len(client._active_requests), pending=client._pending_requests.qsize())
    except BaseException as e:  # noqa: BLE001
        import traceback
        status, detail = 'error', traceback.format_exc()[-2000:]
        del e
    _ctx['ev'] = None
    _ctx['stall'] = None
    # tear down (not part of the property): ask the server to shut down, leave the client
    if status == 'ok':
        try:
            client.request('/shutdown', response_timeout=20)
            client.__exit__(None, None, None)
            st.join(20)
        except BaseException as e:  # noqa: BLE001
            detail = {'teardown': repr(e)}
    shutil.rmtree(tmpd, ignore_errors=True)
    return {'status': status, 'ev': ev, 'detail': detail, 'problems': problems, 'server_error': srv_err,
            'server_thread_alive': st.is_alive(), 'stall_fired': bool(stall and stall['fired'])}


# ---------------------------------------------------------------------------------------------------------------
# pipe

def pipe_message(kind, seed, d, k):
    rnd = random.Random(f'pipe/{kind}/{seed}/{d}/{k}')
    if kind == 'small':
        return rnd.choice([k, f'msg {d}.{k}', {'message': 'shut up', 'k': k}, (d, k, None)])
    if kind == 'empty':
        return b''
    if kind == 'newline':
        return b'\n' * rnd.randint(1, 50) + rnd.randbytes(rnd.randint(0, 2000)) + b'\n'
    if kind == 'nested':
        return {'d': d, 'k': k, 'v': [rnd.random() for _ in range(20)], 'b': [rnd.randbytes(100), (1, 2, [3, [4]])]}
    if kind == 'over':  # more than the 64 KiB pipe buffer: send() blocks until the peer reads
        return rnd.randbytes(200 * 1024)
    if kind == 'big':
        return rnd.randbytes(1 << 16) * 48  # 3 MiB
    raise KeyError(kind)


def _pipe_end(pipe, d_send, send_kinds, d_recv, recv_kinds, seed, ev, bound):
    """one end: a sender and a receiver thread"""
    errs = []

    def sender():
        try:
            for k, kind in enumerate(send_kinds, 1):
                obj = pipe_message(kind, seed, d_send, k)
                ev.append({'ts': time.monotonic_ns(), 'o': 0, 'ev': 'SendBegin', 'd': d_send, 'k': k})
                pipe.send(obj)
                ev.append({'ts': time.monotonic_ns(), 'o': 1, 'ev': 'SendEnd', 'd': d_send, 'k': k})
        except BaseException as e:  # noqa: BLE001
            errs.append(f'sender: {e!r}')

    def receiver():
        try:
            expected = [pipe_message(kind, seed, d_recv, k) for k, kind in enumerate(recv_kinds, 1)]
            for pos in range(1, len(recv_kinds) + 1):
                obj = pipe.recv()
                exp = expected[pos - 1]
                if type(obj) is type(exp) and obj == exp:
                    k, intact = pos, True
                else:
                    k = next((j for j, e in enumerate(expected, 1) if type(obj) is type(e) and obj == e), 0)
                    intact = False
                ev.append({'ts': time.monotonic_ns(), 'o': 2, 'ev': 'Recv', 'd': d_recv, 'k': k, 'intact': intact})
        except BaseException as e:  # noqa: BLE001
            errs.append(f'receiver: {e!r}')

    ths = [threading.Thread(target=sender, daemon=True), threading.Thread(target=receiver, daemon=True)]
    for t in ths:
        t.start()
    t0 = time.monotonic()
    for t in ths:
        t.join(max(0.0, bound - (time.monotonic() - t0)))
    return errs, [t.is_alive() for t in ths]


def pipe_peer(path, sc, out_path):
    """the Client end, in its own process"""
    import json
    from mpservice.pipe import Client
    ev = []
    c = Client(path)
    errs, alive = _pipe_end(c, 2, sc['m2'], 1, sc['m1'], sc['seed'], ev, SCENARIO_BOUND)
    with open(out_path + '.tmp', 'w') as f:
        json.dump({'ev': ev, 'errs': errs, 'alive': alive}, f)
    os.replace(out_path + '.tmp', out_path)
    os._exit(0)


def run_pipe(sc):
    import json
    import multiprocessing
    from mpservice.pipe import Server
    tmpd = tempfile.mkdtemp(prefix='vpp')
    path = os.path.join(tmpd, 'np', 'pipe')
    out_path = os.path.join(tmpd, 'peer.json')
    ctx = multiprocessing.get_context('spawn')
    peer = ctx.Process(target=pipe_peer, args=(path, sc, out_path), name='verif-pipe-peer')
    peer.start()
    ev = []
    s = Server(path)
    errs, alive = _pipe_end(s, 1, sc['m1'], 2, sc['m2'], sc['seed'], ev, SCENARIO_BOUND)
    peer.join(SCENARIO_BOUND)
    status, detail = 'ok', None
    pev = []
    if peer.is_alive():
        peer.kill()
        status, detail = 'hang', {'peer': 'did not finish', 'here_alive': alive, 'errs': errs}
    elif any(alive):
        status, detail = 'hang', {'here_alive': alive, 'errs': errs}
    else:
        try:
            with open(out_path) as f:
                po = json.load(f)
            pev = po['ev']
            errs += po['errs']
            if any(po['alive']):
                status, detail = 'hang', {'peer_alive': po['alive'], 'errs': errs}
        except Exception as e:  # noqa: BLE001
            status, detail = 'error', f'no result from the peer: {e!r}'
    crashed = None
    if status == 'ok' and errs:
        # send() / recv() of the transport itself raised: the transport did not deliver.  The trace ends with a `Crash` event,
        # which no action of the specification explains: TLC rejects it there.
        status, detail, crashed = 'crash', errs, errs[0]
    merged = sorted(ev + pev, key=lambda e: (e['ts'], e['o']))
    out = [{k: v for k, v in e.items() if k not in ('ts', 'o')} for e in merged]
    if crashed is not None:
        out.append({'ev': 'Crash', 'what': str(crashed)[:300]})
    if status == 'ok':
        out.append({'ev': 'End'})
    shutil.rmtree(tmpd, ignore_errors=True)
    return {'status': status, 'ev': out, 'detail': detail, 'problems': []}


def pipe_exit_sender(path, n):
    from mpservice.pipe import Server
    s = Server(path)
    for k in range(n):
        s.send(('msg', k))
    os._exit(0)  # a program that only sends, then ends


def run_pipe_exit(sc):
    """Lifetime lemma of FifoPipe (outside C18's clauses): the receiving end exists BEFORE anything is sent; the sender sends
    n small objects and exits; only then the receiver calls recv() for the first time."""
    import multiprocessing
    from mpservice.pipe import Client
    tmpd = tempfile.mkdtemp(prefix='vpx')
    path = os.path.join(tmpd, 'np', 'pipe')
    c = Client(path)
    p = multiprocessing.get_context('spawn').Process(target=pipe_exit_sender, args=(path, sc['n']), name='verif-pipe-sender')
    p.start()
    p.join(60)
    got = []

    def receiver():
        for _ in range(sc['n']):
            got.append(c.recv())

    t = threading.Thread(target=receiver, daemon=True)
    t.start()
    t.join(sc.get('wait', 6))
    res = {'sender_exit': p.exitcode, 'received': len(got), 'sent': sc['n'], 'recv_blocked': t.is_alive()}
    shutil.rmtree(tmpd, ignore_errors=True)
    return {'status': 'ok', 'ev': [], 'detail': res, 'problems': []}


# ---------------------------------------------------------------------------------------------------------------

def run_job(job):
    traces, hangs, errors, unrun = [], [], [], []
    n_exec = 0
    items = job['items']
    for idx, item in enumerate(items):
        sc = item['sc']
        t0 = time.monotonic()
        res = run_socket(sc) if sc['kind'] == 'socket' else run_pipe(sc) if sc['kind'] == 'pipe' else run_pipe_exit(sc)
        n_exec += 1
        rec = {'id': item['id'], 'kind': sc['kind'], 'p': socket_header(sc) if sc['kind'] == 'socket' else pipe_header(sc) if sc['kind'] == 'pipe' else {},
               'ev': res['ev'], 'sc': sc, 'status': res['status'], 'detail': res['detail'], 'problems': res['problems'],
               'wall': round(time.monotonic() - t0, 3), 'stall_fired': bool(res.get('stall_fired'))}
        if res['status'] == 'hang':
            hangs.append(rec)
            unrun = items[idx + 1:]  # threads / sockets of the hung scenario are still around: go on in a fresh process
            break
        if res['status'] == 'crash':
            # the client loop (or the server) died with callers still waiting: the trace (no End) goes to TLC, which names
            # the step; abandoned threads are still around: go on in a fresh process
            traces.append(rec)
            unrun = items[idx + 1:]
            break
        if res['status'] == 'error':
            errors.append(rec)
            if len(errors) >= 10:
                break
            continue
        traces.append(rec)
        if res.get('server_thread_alive'):
            unrun = items[idx + 1:]  # server did not shut down in time (not C18's concern): continue in a fresh process
            break
    return {'traces': traces, 'hangs': hangs, 'errors': errors, 'unrun': unrun, 'n_exec': n_exec}
