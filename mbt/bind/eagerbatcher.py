"""Binder for spec/EagerBatcher.tla (C19): the REAL mpservice.streamer._streamer.EagerBatcher.

job['kind'] == 'replay'  (spec -> code; plain interpreter, single thread)
    items = [{'id', 'lines': [json text of <<b, w, custom, arrival times, yields <<t, first, items>>>>, ...]}]
    Every line is the (unique) behaviour TLC computed for one eager scenario.  The real `EagerBatcher.__iter__` runs
    over a harness queue whose `get(timeout)` and the patched `time.perf_counter` read the same virtual clock and the
    arrival schedule; yields are stamped with virtual time and compared EXACTLY with the spec's `out`.  Each behaviour
    runs twice: on a FROZEN clock (integer; time moves only inside get) and on a TICKING clock (every read returns
    now + k*1e-7, k = reads so far, i.e. time elapses between statements; stamps rounded to the tick unit).

job['kind'] == 'threads'  (code -> spec; under detsched)
    items = [{'id', 'sc': {'b', 'w', 'custom', 'gaps': [...]}, 'seed', 'strategy'}]
    A real queue.Queue (subclass that only logs inside `_put`/`_get`, i.e. inside the queue's critical section) is fed
    by a producer thread that sleeps the gaps (virtual time); Put/Get/Timeout/Yield/End events with their virtual time
    are returned as traces for TLC (EagerBatcherTrace.tla).
"""
from __future__ import annotations

import json
import queue
import random
import time

END_CUSTOM = 'the-end'


def fresh_end():
    """the custom end marker as it arrives through a queue between processes: EQUAL to the one given to the constructor, never
    the same object (a string built at run time is not interned)"""
    m = ''.join(('the', '-', 'end'))
    assert m == END_CUSTOM and m is not END_CUSTOM
    return m


def payload(i, custom):
    """item number -> object put into the queue (with a custom end marker, None is ordinary data)"""
    if custom and i == 2:
        return None
    return i


def number(obj):
    return 2 if obj is None else obj


class Hang(Exception):
    pass


class VClock:
    """frozen virtual clock: time moves only inside the queue's get()"""

    def __init__(self):
        self.now = 0

    def __call__(self):
        return self.now

    peek = __call__

    def jump_to(self, t):
        self.now = t


class TickClock:
    """ticking virtual clock: every read is a hair later than the previous one (time elapses between statements), so
    `deadline - perf_counter()` is slightly NEGATIVE at the deadline instead of exactly 0"""

    EPS = 1e-7

    def __init__(self):
        self.base = 0.0
        self.k = 0

    def __call__(self):
        self.k += 1
        return self.base + self.k * self.EPS

    def peek(self):
        return self.base + self.k * self.EPS

    def jump_to(self, t):  # t >= peek()
        self.base = t - self.k * self.EPS


def grid(x):
    """virtual time -> tick unit (None if it is not within 1e-2 of the grid)"""
    r = int(round(x))
    return r if abs(x - r) < 1e-2 else None


class HarnessQueue:
    """Arrival schedule + virtual clock behind the `get` interface EagerBatcher uses (the clock it reads is the one
    `time.perf_counter` is patched to)."""

    def __init__(self, clock, arrivals):
        self.clock = clock
        self.arr = arrivals  # [(time, object)]
        self.k = 0
        self.gets = []  # (virtual time in ticks, object) of every successful get

    def _take(self):
        t, obj = self.arr[self.k]
        self.k += 1
        self.gets.append((grid(self.clock.peek()), obj))
        return obj

    def get(self, block=True, timeout=None):
        c = self.clock
        cur = c()
        if self.k < len(self.arr) and self.arr[self.k][0] <= cur:
            return self._take()
        if not block:
            raise queue.Empty
        if timeout is None:
            if self.k >= len(self.arr):
                raise Hang(f'get() would block forever at t={cur}')
            c.jump_to(self.arr[self.k][0])
            return self._take()
        if timeout < 0:
            raise ValueError("'timeout' must be a non-negative number")
        deadline = cur + timeout
        if self.k < len(self.arr) and self.arr[self.k][0] <= deadline:
            c.jump_to(self.arr[self.k][0])
            return self._take()
        c.jump_to(deadline)
        raise queue.Empty


def replay_one(case, tick=False):
    """returns None if the real EagerBatcher reproduces the spec's behaviour exactly, else a description.
    tick=False: frozen clock (integer time).  tick=True: ticking clock; times are compared after rounding to the tick
    unit, the expected batches are the same."""
    from mpservice.streamer import _streamer
    b, w, custom, times, exp = case
    n = len(times) - 1
    end = END_CUSTOM if custom else None
    arrivals = [(times[i], payload(i + 1, custom)) for i in range(n)] + [(times[n], fresh_end() if custom else None)]
    clock = TickClock() if tick else VClock()
    q = HarnessQueue(clock, arrivals)
    saved = time.perf_counter
    time.perf_counter = clock
    got = []
    try:
        try:
            eb = _streamer.EagerBatcher(q, b, w, end) if custom else _streamer.EagerBatcher(q, b, w)
            it = iter(eb)
            while True:
                try:
                    batch = next(it)
                except StopIteration:
                    break
                items = [number(x) for x in batch]
                first = next((t for t, obj in q.gets if obj != end and number(obj) == items[0]), None)
                got.append([grid(clock.peek()), first, items])
                if len(got) > n + 1:
                    return {'what': 'too-many-batches', 'got': got}
        except Hang as e:
            return {'what': 'hang', 'got': got, 'detail': str(e)}
        except Exception as e:
            return {'what': 'exception', 'got': got, 'detail': repr(e)}
    finally:
        time.perf_counter = saved
    if got != exp:
        return {'what': 'yields-differ', 'got': got}
    if q.k != n + 1:
        return {'what': 'end-marker-not-consumed-exactly', 'got': got, 'detail': f'{q.k} gets of {n + 1} arrivals'}
    return None


def _run_replay(job):
    res = {'n_cases': 0, 'mismatches': [], 'canaries': [], 'canary_items': 0, 'n_exec': 0}
    for item in job['items']:
        for line in item['lines']:
            case = json.loads(line)
            if item.get('canary'):
                res['n_cases'] += 1
                res['n_exec'] += 1
                res['canary_items'] += 1
                bad = replay_one(case)
                if bad is not None:
                    res['canaries'].append(bad['what'])
                continue
            # every behaviour twice: on the frozen clock and on the ticking clock
            for tick in (False, True):
                res['n_cases'] += 1
                res['n_exec'] += 1
                bad = replay_one(case, tick)
                if bad is not None and len(res['mismatches']) < 50:
                    res['mismatches'].append({'case': case, 'clock': 'ticking' if tick else 'frozen', **bad})
    return res


# ---- real queue + producer thread under detsched ------------------------------------------------------------------

def gen_scenarios(rnd: random.Random, count, max_n=30):
    out = []
    for k in range(count):
        small = k % 3 == 0
        n = rnd.randint(0, 6 if small else max_n)
        gapset = rnd.choice([[0, 1, 2, 3], [0, 0, 1], [1, 2], [0, 1, 1, 2, 5], [2, 3, 4], [0]])
        b = rnd.choice([1, 2, 3] if small else [1, 2, 3, 4, 5, 8])
        w = rnd.choice([0, 1, 2] if small else [0, 1, 2, 3, 4, 6])
        out.append({'b': b, 'w': w, 'custom': rnd.random() < 0.4, 'gaps': [rnd.choice(gapset) for _ in range(n + 1)]})
    return out


def header(sc):
    t, arr = 0, []
    n = len(sc['gaps']) - 1
    for k, g in enumerate(sc['gaps']):
        t += g
        arr.append({'t': t, 'x': 0 if k == n else k + 1})
    return {'b': sc['b'], 'w': sc['w'], 'custom': bool(sc['custom']), 'eager': False, 'arr': arr}


def _make_scenario(sc):
    import threading
    from mbt import detsched
    from mpservice.streamer import _streamer

    custom = sc['custom']
    end = END_CUSTOM if custom else None
    n = len(sc['gaps']) - 1
    t0 = [0.0]

    def T():
        d = detsched.now() - t0[0]
        r = int(round(d))
        if abs(d - r) > 1e-2:  # (with clock_eps timers fire a hair early / late)
            raise AssertionError(f'virtual time {d} is not on the integer grid')
        return r

    class LoggedQueue(queue.Queue):
        """a real queue.Queue; the log lines are written while the queue's mutex is held"""

        def _init(self, maxsize):
            super()._init(maxsize)
            self.nput = 0

        def _put(self, item):
            self.nput += 1
            detsched.emit('Put', i=self.nput, t=T())
            super()._put(item)

        def _get(self):
            item = super()._get()
            detsched.emit('Get', x=0 if (item is end if not custom else item == end) else number(item), t=T())
            return item

        def get(self, block=True, timeout=None):
            try:
                return super().get(block, timeout)
            except queue.Empty:
                detsched.emit('Timeout', t=T())
                raise

    def root():
        t0[0] = detsched.now()
        q = LoggedQueue()

        def producer():
            for k, g in enumerate(sc['gaps']):
                time.sleep(g)
                q.put((fresh_end() if custom else None) if k == n else payload(k + 1, custom))

        th = threading.Thread(target=producer, name='producer')
        th.start()
        eb = _streamer.EagerBatcher(q, sc['b'], sc['w'], end) if custom else _streamer.EagerBatcher(q, sc['b'], sc['w'])
        for batch in eb:
            detsched.emit('Yield', items=[number(x) for x in batch], t=T())
        detsched.emit('End', t=T())
        th.join()

    return root


def make_strategy(kind, seed):
    from mbt import detsched
    if kind == 'pct':
        return detsched.PCTStrategy(seed, depth=3 + seed % 3, est_steps=300)
    if kind == 'starve_consumer':
        return detsched.StarveStrategy(seed, lambda t: t.tid == 0)
    if kind == 'starve_producer':
        return detsched.StarveStrategy(seed, lambda t: t.name == 'producer')
    return detsched.RandomStrategy(seed, stay=0.2 + 0.7 * ((seed * 7919) % 10) / 10.0)


def _run_threads(job):
    from mbt import detsched
    from .common import strip
    traces, hangs, n_exec = [], [], 0
    for item in job['items']:
        sc, seed, strat = item['sc'], item['seed'], item.get('strategy', 'random')
        # item['eps'] > 0: ticking clock - every read of time.perf_counter()/monotonic() is a hair later than the last
        res = detsched.run(_make_scenario(sc), make_strategy(strat, seed), max_steps=200000, stall_timeout=60,
                           max_idle_vtime=2000.0, clock_eps=float(item.get('eps', 0.0)))
        n_exec += 1
        rec = {'id': item['id'], 'p': header(sc), 'ev': strip(res.trace), 'sc': sc, 'seed': seed, 'strategy': strat,
               'eps': float(item.get('eps', 0.0)), 'status': res.status}
        if res.status != 'ok' or res.exc is not None or res.thread_errors:
            rec.update(detail=res.detail, waitmap={k: repr(v) for k, v in (res.waitmap or {}).items()},
                       exc=repr(res.exc) if res.exc is not None else None, leftover=res.leftover)
            hangs.append(rec)
            if len(hangs) >= 25:
                break
        else:
            traces.append(rec)
    return {'traces': traces, 'hangs': hangs, 'n_exec': n_exec}


def run_job(job):
    kind = job.get('kind', 'replay')
    if kind == 'replay':
        return _run_replay(job)
    if kind == 'threads':
        return _run_threads(job)
    raise ValueError(kind)
