"""Binder for spec/BufferOp.tla: the REAL Stream.buffer (Buffer) and AsyncStream.buffer (AsyncBuffer) under detsched."""
from __future__ import annotations

import random

from .common import SrcError, install_singlelane_wrappers, strip


def gen_scenarios(rnd: random.Random, count, max_n=6, max_size=3, allow_base=True, kinds=('sync', 'sync', 'async')):
    out = []
    for _ in range(count):
        n = rnd.randint(0, max_n)
        srcfail = rnd.choice([0, 0] + list(range(1, n + 2)))
        brk = rnd.choice([None] + list(range(1, n + 1))) if n else None
        out.append({'n': n, 'maxsize': rnd.choice([1, 1, 2, 2, 3][:max(1, min(5, 2 * max_size - 1))]),
                    'srcfail': srcfail, 'srcbase': bool(srcfail) and allow_base and rnd.random() < 0.4,
                    'maybreak': brk is not None, 'break_at': brk, 'kind': rnd.choice(kinds),
                    'how': rnd.choice(['close', 'close', 'del'])})
    return out


def header(sc):
    return {k: sc[k] for k in ('n', 'maxsize', 'srcfail', 'srcbase', 'maybreak')}


def _make_scenario(sc):
    import asyncio
    import gc
    from mbt import detsched
    from mpservice.streamer import Stream
    from mpservice.streamer._streamer_async import AsyncStream
    from mpservice._common import StopRequested

    n, srcfail, srcbase, brk = sc['n'], sc['srcfail'], sc['srcbase'], sc['break_at']

    def pull(state):
        k = state[0] + 1
        if srcfail and k == srcfail:
            detsched.emit('SrcRaise')
            raise (StopRequested() if srcbase else SrcError('source failed'))
        if k > n:
            detsched.emit('SrcEnd')
            return None
        state[0] = k
        detsched.emit('Pull', i=k)
        return k

    def closed(kind):
        sched = detsched.current()
        names = [t.name for t in sched.alive() if t is not sched.root]
        detsched.emit('Closed', k=kind, wa=any('Buffer-worker' in nm for nm in names), alive=names)

    if sc['kind'] == 'sync':
        class Src:
            def __init__(self):
                self.st = [0]

            def __iter__(self):
                return self

            def __next__(self):
                k = pull(self.st)
                if k is None:
                    raise StopIteration
                return k

        def root():
            gen = iter(Stream(Src()).buffer(sc['maxsize']))
            k = 0
            try:
                while True:
                    detsched.emit('Next')
                    try:
                        v = next(gen)
                    except StopIteration:
                        closed('none')
                        break
                    detsched.emit('Yield', x=v if isinstance(v, int) else -1)
                    k += 1
                    if brk is not None and k == brk:
                        detsched.emit('Break')
                        if sc['how'] == 'del':
                            del gen
                            gc.collect()
                        else:
                            gen.close()
                        closed('none')
                        break
            except SrcError:
                closed('src')
            except StopRequested:
                closed('src')
    else:
        async def agen():
            st = [0]
            while True:
                k = pull(st)
                if k is None:
                    return
                yield k

        def root():
            async def main():
                gen = AsyncStream(agen()).buffer(sc['maxsize']).__aiter__()
                k = 0
                try:
                    while True:
                        detsched.emit('Next')
                        try:
                            v = await gen.__anext__()
                        except StopAsyncIteration:
                            closed('none')
                            break
                        detsched.emit('Yield', x=v if isinstance(v, int) else -1)
                        k += 1
                        if brk is not None and k == brk:
                            detsched.emit('Break')
                            await gen.aclose()
                            closed('none')
                            break
                except SrcError:
                    closed('src')
                except StopRequested:
                    closed('src')

            asyncio.run(main())
    return root


def make_strategy(kind, seed):
    from mbt import detsched
    if kind == 'pct':
        return detsched.PCTStrategy(seed, depth=3 + seed % 3, est_steps=200)
    if kind == 'starve_consumer':
        return detsched.StarveStrategy(seed, lambda t: t.tid == 0)
    if kind == 'starve_producer':
        return detsched.StarveStrategy(seed, lambda t: 'Buffer-worker' in t.name)
    return detsched.RandomStrategy(seed, stay=0.5 + 0.4 * ((seed * 7919) % 10) / 10.0)


# spec -> code (L2): action of BufferOp -> (role that performs it, event it logs; None = silent)
ROLE_EVENT = {
    'ProdPull': ('prod', 'Pull'), 'ProdSrcEnd': ('prod', 'SrcEnd'), 'ProdSrcRaise': ('prod', 'SrcRaise'),
    'ProdCheckStop': ('prod', None), 'ProdPut': ('prod', 'Put'), 'ProdPutFin': ('prod', 'Put'),
    'ProdPutStopped': ('prod', 'Put'), 'ProdPutExc': ('prod', 'Put'),
    'ConsStart': ('cons', 'Next'), 'ConsNext': ('cons', 'Next'), 'ConsGet': ('cons', 'Get'), 'ConsGetExc': ('cons', 'Get'),
    'ConsYield': ('cons', 'Yield'), 'ConsBreak': ('cons', 'Break'), 'FinSetStop': ('cons', None),
    'FinDrainOne': ('cons', 'Get'), 'FinDrainEmpty': ('cons', None), 'FinJoinTimeout': ('cons', None),
    'FinJoin': ('cons', 'Closed'),
}


def behaviour_to_item(beh):
    """A TLC behaviour of BufferOp (sync Buffer) -> scenario + steering script."""
    from mbt.tlc import split_action
    p = beh[0][1]['p']
    script, brk = [], None
    for act, st in beh[1:]:
        name = split_action(act)[0]
        if name == 'ConsNeverStarted':
            return None
        if name not in ROLE_EVENT:
            continue
        role, ev = ROLE_EVENT[name]
        if name == 'ConsBreak':
            brk = len(st['out'])
        script.append({'role': role, 'ev': ev, 'act': name})
    if brk == 0:
        return None
    sc = {'kind': 'sync', 'n': p['n'], 'maxsize': p['maxsize'], 'srcfail': p['srcfail'], 'srcbase': p['srcbase'],
          'maybreak': p['maybreak'], 'break_at': brk, 'how': 'close'}
    return {'sc': sc, 'script': script}


def _role_of(t):
    return 'cons' if t.tid == 0 else 'prod'


def run_job(job):
    from mbt import detsched
    install_singlelane_wrappers()
    traces, hangs, n_exec = [], [], 0
    for item in job['items']:
        sc, seed, strat = item['sc'], item['seed'], item.get('strategy', 'random')
        guided = None
        if item.get('script') is not None:
            guided = detsched.GuidedStrategy(item['script'], _role_of, {}, seed=seed, patience=40)
            strat = 'guided'
        res = detsched.run(_make_scenario(sc), guided or make_strategy(strat, seed), max_steps=60000, stall_timeout=60,
                           lag=0.02 if sc['kind'] == 'async' else 0.0, max_idle_vtime=30.0)
        n_exec += 1
        rec = {'id': item['id'], 'p': header(sc), 'ev': strip(res.trace), 'sc': sc, 'seed': seed, 'strategy': strat,
               'status': res.status}
        if guided is not None:
            want = [x['ev'] for x in item['script'] if x.get('ev')]
            got = [e['ev'] for e in rec['ev']]
            rec['l2'] = {'steps': len(want), 'followed': guided.followed, 'skipped': guided.skipped,
                         'exact': got[:len(want)] == want}
        if res.status != 'ok' or res.exc is not None or res.thread_errors:
            rec.update(detail=res.detail, waitmap=res.waitmap, exc=repr(res.exc) if res.exc is not None else None,
                       leftover=res.leftover)
            hangs.append(rec)
            if len(hangs) >= 25:
                break
        else:
            traces.append(rec)
    return {'traces': traces, 'hangs': hangs, 'n_exec': n_exec}
