"""Binder for spec/BufferOp.tla: the REAL Stream.buffer (Buffer) and AsyncStream.buffer (AsyncBuffer) under detsched."""
from __future__ import annotations

import random

from .common import SrcError, install_singlelane_wrappers, strip


def gen_scenarios(rnd: random.Random, count, max_n=6, max_size=3, allow_base=True, kinds=('sync', 'sync', 'async')):
    out = []
    for _ in range(count):
        n = rnd.randint(0, max_n)
        srcfail = rnd.choice([0, 0] + list(range(1, n + 2)))
        brk = rnd.choice([None] + list(range(1, n + 1))) if n else None
        out.append({'n': n, 'maxsize': rnd.choice([1, 1, 2, 2, 3][:max(1, min(5, 2 * max_size - 1))]),
                    'srcfail': srcfail, 'srcbase': bool(srcfail) and allow_base and rnd.random() < 0.4,
                    'maybreak': brk is not None, 'break_at': brk, 'kind': rnd.choice(kinds),
                    'how': rnd.choice(['close', 'close', 'del'])})
    return out


def header(sc):
    return {k: sc[k] for k in ('n', 'maxsize', 'srcfail', 'srcbase', 'maybreak')}


def _make_scenario(sc):
    import asyncio
    import gc
    from mbt import detsched
    from mpservice.streamer import Stream
    from mpservice.streamer._streamer_async import AsyncStream
    from mpservice._common import StopRequested

    n, srcfail, srcbase, brk = sc['n'], sc['srcfail'], sc['srcbase'], sc['break_at']

    def pull(state):
        k = state[0] + 1
        if srcfail and k == srcfail:
            detsched.emit('SrcRaise')
            raise (StopRequested() if srcbase else SrcError('source failed'))
        if k > n:
            detsched.emit('SrcEnd')
            return None
        state[0] = k
        detsched.emit('Pull', i=k)
        return k

    def closed(kind):
        sched = detsched.current()
        names = [t.name for t in sched.alive() if t is not sched.root]
        detsched.emit('Closed', k=kind, wa=any('Buffer-worker' in nm for nm in names), alive=names)

    if sc['kind'] == 'sync':
        class Src:
            def __init__(self):
                self.st = [0]

            def __iter__(self):
                return self

            def __next__(self):
                k = pull(self.st)
                if k is None:
                    raise StopIteration
                return k

        def root():
            gen = iter(Stream(Src()).buffer(sc['maxsize']))
            k = 0
            try:
                while True:
                    detsched.emit('Next')
                    try:
                        v = next(gen)
                    except StopIteration:
                        closed('none')
                        break
                    detsched.emit('Yield', x=v if isinstance(v, int) else -1)
                    k += 1
                    if brk is not None and k == brk:
                        detsched.emit('Break')
                        if sc['how'] == 'del':
                            del gen
                            gc.collect()
                        else:
                            gen.close()
                        closed('none')
                        break
            except SrcError:
                closed('src')
            except StopRequested:
                closed('src')
    else:
        async def agen():
            st = [0]
            while True:
                k = pull(st)
                if k is None:
                    return
                yield k

        def root():
            async def main():
                gen = AsyncStream(agen()).buffer(sc['maxsize']).__aiter__()
                k = 0
                try:
                    while True:
                        detsched.emit('Next')
                        try:
                            v = await gen.__anext__()
                        except StopAsyncIteration:
                            closed('none')
                            break
                        detsched.emit('Yield', x=v if isinstance(v, int) else -1)
                        k += 1
                        if brk is not None and k == brk:
                            detsched.emit('Break')
                            await gen.aclose()
                            closed('none')
                            break
                except SrcError:
                    closed('src')
                except StopRequested:
                    closed('src')

            asyncio.run(main())
    return root


def make_strategy(kind, seed):
    from mbt import detsched
    if kind == 'pct':
        return detsched.PCTStrategy(seed, depth=3 + seed % 3, est_steps=200)
    if kind == 'starve_consumer':
        return detsched.StarveStrategy(seed, lambda t: t.tid == 0)
    if kind == 'starve_producer':
        return detsched.StarveStrategy(seed, lambda t: 'Buffer-worker' in t.name)
    return detsched.RandomStrategy(seed, stay=0.5 + 0.4 * ((seed * 7919) % 10) / 10.0)


def run_job(job):
    from mbt import detsched
    install_singlelane_wrappers()
    traces, hangs, n_exec = [], [], 0
    for item in job['items']:
        sc, seed, strat = item['sc'], item['seed'], item.get('strategy', 'random')
        res = detsched.run(_make_scenario(sc), make_strategy(strat, seed), max_steps=60000, stall_timeout=60,
                           lag=0.02 if sc['kind'] == 'async' else 0.0, max_idle_vtime=30.0)
        n_exec += 1
        rec = {'id': item['id'], 'p': header(sc), 'ev': strip(res.trace), 'sc': sc, 'seed': seed, 'strategy': strat,
               'status': res.status}
        if res.status != 'ok' or res.exc is not None:
            rec.update(detail=res.detail, waitmap=res.waitmap, exc=repr(res.exc) if res.exc is not None else None,
                       leftover=res.leftover)
            hangs.append(rec)
            if len(hangs) >= 25:
                break
        else:
            traces.append(rec)
    return {'traces': traces, 'hangs': hangs, 'n_exec': n_exec}
