"""Binder for spec/ChildLog.tla: REAL children started through mpservice's Process - directly, as a ProcessServlet
worker, inside mpservice.concurrent.futures.ProcessPoolExecutor - that log n records of chosen sizes; the parent's root
logger has a recording handler (fast, or 2 ms per record).

Observed in the parent, in real order: every record handled (`Handle i`), join() / Server.__exit__ / executor shutdown
returning (`Join`), the child's exit code (`Exitcode`), the parent's logger thread having ended (`Stopped`).  The trace
is validated by ChildLogTrace.tla.  Every blocking call runs in a helper thread with a generous bound; not returning is
a *suspected hang* that the check re-tries in fresh processes.

Abstraction of sizes for the model: unit = 1 KiB; a record counts floor(payload bytes / unit) units (the pickled
LogRecord is larger), the pipe ceil(F_GETPIPE_SZ / unit) + 1 units: the model's pipe never blocks where the real one
did not (see ChildLogTrace.tla).
"""
from __future__ import annotations

import json
import logging
import os
import signal
import sys
import threading
import time

UNIT = 1024
LOGGER_NAME = 'verif.child'
EXIT_N = 3
SLOW_S = 0.002
# Every Process / Server / executor stays referenced until the runner process ends: a Process collected by the cyclic GC
# runs its finalizer (which joins the logger thread) at an arbitrary point (seen to deadlock another thread's start-up).
_KEEP = []


# ---- child side ---------------------------------------------------------------------------------------------------------

class TargetError(Exception):
    pass


def _level(hi, i):
    if not hi:
        return logging.DEBUG
    return (logging.INFO, logging.WARNING, logging.ERROR)[i % 3]


def passes(sc, i):
    """is record i to be handled under the PARENT's level settings?  `lvl`:
      'root'         root INFO, the records' logger unset         -> every record but the DEBUG ones
      'named_debug'  root INFO, the records' logger set to DEBUG  -> every record (the logger's own level decides, not root's)
      'named_error'  root INFO, the records' logger set to ERROR  -> only the ERROR records"""
    hi = not (sc['lo_every'] and i % sc['lo_every'] == 0)
    lvl = sc.get('lvl', 'root')
    if lvl == 'named_debug':
        return True
    if lvl == 'named_error':
        return _level(hi, i) >= logging.ERROR
    return hi


def set_parent_levels(sc):
    logging.getLogger().setLevel(logging.INFO)       # DEBUG records of the child are to be dropped by the parent's level
    logging.getLogger(LOGGER_NAME).setLevel({'named_debug': logging.DEBUG, 'named_error': logging.ERROR}
                                            .get(sc.get('lvl', 'root'), logging.NOTSET))


def emit_records(first, count, nbytes, lo_every):
    lg = logging.getLogger(LOGGER_NAME)
    for i in range(first, first + count):
        hi = not (lo_every and i % lo_every == 0)
        lg.log(_level(hi, i), 'r%d %s', i, '.' * nbytes)


def log_target(spec):
    """target of a plain Process: emit everything, then end the chosen way (the last record is emitted right before)"""
    n, mid = spec['n'], spec.get('mid_pause', 0)
    half = n // 2 if mid else n
    emit_records(1, half, spec['bytes'], spec['lo_every'])
    if mid:
        time.sleep(mid)
        emit_records(half + 1, n - half, spec['bytes'], spec['lo_every'])
    if spec.get('tail_pause'):
        time.sleep(spec['tail_pause'])
    kind = spec['kind']
    if kind == 'raise':
        raise TargetError('target failed after logging')
    if kind == 'exit0':
        sys.exit(0)
    if kind == 'exitN':
        sys.exit(EXIT_N)
    return n


_SCRIPT_KEEP = []


def script_main(sc, outp):
    """body of a launching SCRIPT (run with `python -c` in its own interpreter): configure logging, start a non-daemon
    Process, join it - and simply end.  Whatever the parent still has to handle after the script's last statement must be
    handled before the interpreter goes away.  The handler and the main thread write what they see to `outp`."""
    import threading
    from mpservice.multiprocessing import Process
    lock = threading.Lock()
    f = open(outp, 'a', buffering=1)

    def note(line):
        with lock:
            f.write(line + '\n')
            f.flush()

    class FileRecorder(logging.Handler):
        def emit(self, record):
            if record.name != LOGGER_NAME:
                return
            try:
                i = int(record.getMessage().split(' ', 1)[0][1:])
            except Exception:  # noqa: BLE001
                i = -1
            note(f'H {i}')
            if sc['slow']:
                time.sleep(SLOW_S)

    root = logging.getLogger()
    for h in list(root.handlers):
        root.removeHandler(h)
    set_parent_levels(sc)
    root.addHandler(FileRecorder(level=logging.NOTSET))
    p = Process(target=log_target, args=({k: sc[k] for k in ('n', 'bytes', 'lo_every', 'kind') if k in sc},),
                name='verif-log-script')
    _SCRIPT_KEEP.append(p)        # a script-level variable: still referenced when the script ends
    p.start()
    try:
        p.join()
        note('J ret')
    except BaseException:  # noqa: BLE001
        note('J raise')
    note(f'X {p.exitcode if p.exitcode is not None else 99}')
    # the script ends here


def pool_task(first, count, nbytes, lo_every):
    emit_records(first, count, nbytes, lo_every)
    return first + count - 1


def make_worker_cls():
    from mpservice.mpserver import Worker

    class LogWorker(Worker):
        def __init__(self, per_call, nbytes, lo_every, at_stop, **kwargs):
            super().__init__(**kwargs)
            self._per, self._nb, self._lo, self._at_stop = per_call, nbytes, lo_every, at_stop
            self._next = 1

        def call(self, x):
            emit_records(self._next, self._per, self._nb, self._lo)
            self._next += self._per
            return x

        def cleanup(self, exc=None):
            # records emitted right before the worker's target returns
            emit_records(self._next, self._at_stop, self._nb, self._lo)
            self._next += self._at_stop

    LogWorker.__qualname__ = 'LogWorker'     # picklable by reference as mbt.bind.childlog.LogWorker
    return LogWorker


try:  # importable by name in the child (the class must live at module level to be picklable by reference)
    LogWorker = make_worker_cls()
except Exception:  # noqa: BLE001 - mpservice not importable where only the scenario generator is used
    LogWorker = None


# ---- parent side --------------------------------------------------------------------------------------------------------

class Recorder(logging.Handler):
    def __init__(self, ev, slow):
        super().__init__(level=logging.NOTSET)
        self.ev = ev
        self.slow = slow

    def emit(self, record):
        if record.name != LOGGER_NAME:
            return
        try:
            msg = record.getMessage()
            i = int(msg.split(' ', 1)[0][1:])
        except Exception:  # noqa: BLE001
            i = -1
        self.ev.append({'ev': 'Handle', 'i': i})
        if self.slow:
            time.sleep(SLOW_S)


def _bounded(fn, bound):
    box = {}

    def run():
        try:
            box['out'] = ('ret', fn())
        except BaseException as e:  # noqa: BLE001
            box['out'] = ('raise', e)

    th = threading.Thread(target=run, daemon=True, name='verif-bounded')
    th.start()
    th.join(bound)
    if th.is_alive():
        return None
    return box['out']


def pipe_units():
    import fcntl
    r, w = os.pipe()
    try:
        sz = fcntl.fcntl(w, fcntl.F_GETPIPE_SZ)
    finally:
        os.close(r)
        os.close(w)
    return sz, (sz + UNIT - 1) // UNIT + 1


def header(sc, P):
    n = sc['n']
    s = min(P, sc['bytes'] // UNIT)
    return {'n': n, 's': [s] * n, 'hi': [passes(sc, i) for i in range(1, n + 1)],
            'P': P, 'kind': sc['kind']}


def run_case(item, bound):
    sc = item['sc']
    pipe_sz, P = pipe_units()
    ev = []
    rec = {'id': item['id'], 'p': header(sc, P), 'sc': sc, 'ev': ev, 'status': 'ok', 'pipe_sz': pipe_sz}
    n = sc['n']
    slack = bound + (n * SLOW_S * 4 if sc['slow'] else 0) + sc.get('mid_pause', 0) + sc.get('tail_pause', 0)
    root = logging.getLogger()
    for h in list(root.handlers):
        root.removeHandler(h)
    set_parent_levels(sc)
    recorder = Recorder(ev, sc['slow'])
    root.addHandler(recorder)
    t0 = time.time()
    procs = []

    def hang(what, detail):
        rec.update(status='hang', acc=what, detail=detail, handled_then=sum(1 for e in ev if e['ev'] == 'Handle'),
                   alive=[bool(p.is_alive()) for p in procs])
        return rec

    try:
        if sc['flavour'] == 'process':
            from mpservice.multiprocessing import Process
            p = Process(target=log_target, args=({k: sc[k] for k in ('n', 'bytes', 'lo_every', 'kind') if k in sc}
                                                 | {'mid_pause': sc.get('mid_pause', 0), 'tail_pause': sc.get('tail_pause', 0)},),
                        name=f'verif-log-{item["id"]}', daemon=bool(sc.get('daemon')))
            _KEEP.append(p)
            p.start()
            procs.append(p)
            out = _bounded(p.join, slack)
            if out is None:
                return hang('join', f'join() did not return within {slack:.1f}s')
            ev.append({'ev': 'Join', 'k': out[0]})
        elif sc['flavour'] == 'servlet':
            from mpservice.mpserver import ProcessServlet, Server
            calls, per = sc['calls'], sc['per_call']
            server = Server(ProcessServlet(LogWorker, per_call=per, nbytes=sc['bytes'], lo_every=sc['lo_every'],
                                           at_stop=n - calls * per))
            _KEEP.append(server)
            server.__enter__()
            procs.extend(server.servlet.workers)
            _KEEP.extend(procs)
            for x in range(calls):
                assert server.call(x, timeout=slack) == x
            out = _bounded(lambda: server.__exit__(None, None, None), slack)
            if out is None:
                return hang('join', f'Server.__exit__ did not return within {slack:.1f}s')
            ev.append({'ev': 'Join', 'k': out[0]})
        elif sc['flavour'] == 'pool':
            from mpservice.concurrent.futures import ProcessPoolExecutor
            calls, per = sc['calls'], sc['per_call']
            ex = ProcessPoolExecutor(max_workers=1)
            _KEEP.append(ex)
            futs = [ex.submit(pool_task, 1 + c * per, per, sc['bytes'], sc['lo_every']) for c in range(calls)]
            procs.extend(ex._processes.values())
            _KEEP.extend(procs)
            for f in futs:
                f.result(timeout=slack)
            out = _bounded(lambda: ex.shutdown(wait=True), slack)
            if out is None:
                return hang('join', f'ProcessPoolExecutor.shutdown did not return within {slack:.1f}s')
            ev.append({'ev': 'Join', 'k': out[0]})
        elif sc['flavour'] == 'script':
            import subprocess
            import tempfile
            d = tempfile.mkdtemp(prefix='verif-cl-')
            outp = os.path.join(d, 'seen.txt')
            here = os.path.dirname(os.path.dirname(os.path.dirname(os.path.abspath(__file__))))
            code = ('import sys; sys.path[:0] = %r; from mbt.bind import childlog as C; C.script_main(%r, %r)'
                    % ([here, os.environ.get('VERIF_REPO_SRC', '/repo/src')], sc, outp))
            try:
                pr = subprocess.run([sys.executable, '-c', code], timeout=slack, stdout=subprocess.DEVNULL,
                                    stderr=subprocess.DEVNULL, stdin=subprocess.DEVNULL)
            except subprocess.TimeoutExpired:
                return hang('join', f'the launching script had not ended after {slack:.1f}s')
            try:
                lines = open(outp).read().split()
            except OSError:
                lines = []
            import shutil
            shutil.rmtree(d, ignore_errors=True)
            for tag, val in zip(lines[0::2], lines[1::2]):
                if tag == 'H':
                    ev.append({'ev': 'Handle', 'i': int(val)})
                elif tag == 'J':
                    ev.append({'ev': 'Join', 'k': val})
                elif tag == 'X':
                    ev.append({'ev': 'Exitcode', 'c': int(val)})
            if pr.returncode != 0:
                rec.update(status='crash', detail=f'the launching script ended with exit code {pr.returncode}')
                return rec
            ev.append({'ev': 'Stopped'})       # the interpreter has gone: nothing more will ever be handled
            return rec
        else:
            raise AssertionError(sc['flavour'])
        if out[0] == 'raise':
            rec['join_exc'] = repr(out[1])[:200]
        for p in procs:
            ev.append({'ev': 'Exitcode', 'c': p.exitcode if p.exitcode is not None else 99})
            lt = p._logger_thread_
            o2 = _bounded(lt.join, slack)
            if o2 is None:
                return hang('logger', f'the logger thread had not ended {slack:.1f}s after join()')
            if o2[0] == 'raise':
                rec.update(status='crash', detail=f'logger thread raised {o2[1]!r}')
                return rec
        ev.append({'ev': 'Stopped'})
        return rec
    finally:
        rec['wall'] = round(time.time() - t0, 3)
        root.removeHandler(recorder)
        logging.getLogger(LOGGER_NAME).setLevel(logging.NOTSET)
        for p in procs:
            try:
                if p.pid is not None and p.exitcode is None:
                    os.kill(p.pid, signal.SIGKILL)
            except Exception:  # noqa: BLE001
                pass


def run_job(job):
    bound = float(job.get('bound', 20.0))
    budget = int(job.get('hang_budget', 2))
    traces, hangs, skipped, n = [], [], [], 0
    for item in job['items']:
        if len(hangs) >= budget:
            skipped.append(item['id'])
            continue
        rec = run_case(item, bound)
        n += 1
        (traces if rec['status'] == 'ok' else hangs).append(rec)
    return {'traces': traces, 'hangs': hangs, 'skipped': skipped, 'n_exec': n}


# ---- scenario space -------------------------------------------------------------------------------------------------------

# (records, payload bytes): none / far below / around / far beyond the 64 KiB pipe, few large and many small records
# the last shape: a burst of thousands of small records, far ahead of the parent (which handles them one at a time)
SHAPES = [(0, 0), (1, 50), (5, 100), (40, 1500), (50, 2000), (300, 100), (20, 8000), (6, 30000), (3, 100000), (2500, 30)]
KINDS = ('return', 'raise', 'exit0', 'exitN')


def process_scenario(shape, slow, kind, lo_every=0, mid_pause=0, tail_pause=0, lvl='root', daemon=False):
    n, nb = shape
    return {'flavour': 'process', 'n': n, 'bytes': nb, 'slow': slow, 'kind': kind, 'lo_every': lo_every,
            'mid_pause': mid_pause, 'tail_pause': tail_pause, 'lvl': lvl, 'daemon': daemon}


def hosted_scenario(flavour, calls, per_call, at_stop, nb, slow, lo_every=0):
    return {'flavour': flavour, 'n': calls * per_call + at_stop, 'bytes': nb, 'slow': slow, 'kind': 'return',
            'lo_every': lo_every, 'calls': calls, 'per_call': per_call}


def gen_scenarios(rnd, thorough):
    out = []
    k = 0
    for shape in SHAPES:
        for slow in (False, True):
            if thorough:
                for kind in KINDS:
                    for lo in (0, 3):
                        for pause in ((0, 0), (0.2, 0), (0, 0.2)):
                            out.append(process_scenario(shape, slow, kind, lo, *pause))
            else:
                kind = KINDS[k % 4]
                lo = (0, 3)[(k // 2) % 2]
                pause = ((0, 0), (0, 0), (0.2, 0), (0, 0.2))[(k // 3) % 4]
                k += 1
                out.append(process_scenario(shape, slow, kind, lo, *pause))
    # the parent's level settings are per logger: the records' own logger more / less verbose than root
    for j, shape in enumerate([(5, 100), (40, 1500), (300, 100), (6, 30000)] if thorough else [(5, 100), (40, 1500)]):
        for lvl in ('named_debug', 'named_error'):
            for lo in ((0, 3) if thorough else ((0, 3)[j % 2],)):
                out.append(process_scenario(shape, False, KINDS[(j + len(lvl)) % 4], lo, 0, 0, lvl=lvl))
    # daemonic children (Process(daemon=True); the workers of a multiprocessing Pool are daemonic too) ending right after
    # their last record
    for j, shape in enumerate([(5, 100), (50, 2000), (300, 100), (2500, 30)] + ([(40, 1500), (20, 8000)] if thorough else [])):
        for kind in (KINDS if thorough else (KINDS[j % 4], KINDS[(j + 2) % 4])):
            out.append(process_scenario(shape, j % 2 == 0, kind, 0, 0, 0, daemon=True))
    hosted = [(3, 2, 1, 100), (10, 5, 10, 2000), (30, 10, 0, 200), (4, 3, 8, 8000), (1, 0, 60, 1500)]
    for j, (calls, per, at_stop, nb) in enumerate(hosted if thorough else hosted[:3]):
        for slow in ((False, True) if thorough else (j % 2 == 0,)):
            out.append(hosted_scenario('servlet', calls, per, at_stop, nb, slow, lo_every=(0, 4)[j % 2])
                       | {'lvl': ('root', 'named_error', 'named_debug')[j % 3]})
            out.append(hosted_scenario('pool', calls, max(per, 1), 0, nb, slow, lo_every=(0, 4)[j % 2])
                       | {'lvl': ('named_debug', 'root', 'named_error')[j % 3]})
    # a launching script that ends right after join() while the parent still has a backlog to handle (slow handler)
    for j, (n, nb) in enumerate([(400, 60), (150, 2000), (30, 100)] + ([(800, 40), (60, 9000)] if thorough else [])):
        for kind in (KINDS if thorough else (KINDS[j % 4],)):
            out.append({'flavour': 'script', 'n': n, 'bytes': nb, 'slow': True, 'kind': kind, 'lo_every': (0, 3)[j % 2]})
    if True:
        for _ in range(40 if thorough else 8):
            n = rnd.choice([2, 7, 30, 64, 120, 250])
            nb = rnd.choice([10, 300, 1000, 3000, 12000])
            if n * nb > 1500000:
                nb = 1000
            out.append(process_scenario((n, nb), rnd.random() < 0.5, rnd.choice(KINDS), rnd.choice([0, 2, 5]),
                                        *rnd.choice([(0, 0), (0.1, 0), (0, 0.1)])))
    return out


if __name__ == '__main__':
    sys.path.insert(0, os.environ.get('VERIF_REPO_SRC', '/repo/src'))
    print(json.dumps(run_case({'id': 1, 'sc': json.loads(sys.argv[1])}, float(os.environ.get('VERIF_BOUND', '20'))),
                     default=repr)[:3000])
    sys.stdout.flush()
    os._exit(0)
