"""Binder for spec/RemoteExc.tla: replays behaviours enumerated by TLC into the REAL
mpservice.multiprocessing.remote_exception code, for every class of an exception catalogue.

After every action the projection of the real object(s) - class, args, extra state, wrapper or not, raise-site markers of
the live traceback, of the remote text and of the wrapper's text, nesting - is compared with the spec state that TLC
printed for that behaviour prefix.  Three ways to make a hop:
  pickle  pickle.loads(pickle.dumps(obj)) in this process
  proc    the object is SENT to / fetched from a long-lived child (a real mpservice.multiprocessing.Process) through a
          multiprocessing connection: pickled in one process, unpickled in another; the state lives alternately in the
          two processes, every other step runs in the child
  lib     the first Raise/Wrap/Hop is done by the library itself: the exception is raised by the target of an
          mpservice.multiprocessing.Process and fetched with Process.exception()
"""
from __future__ import annotations

import pickle
import random
import re
import subprocess
import traceback

MARK = re.compile(r', in site_(\d+)\n')
HOP_TIMEOUT = 120  # generous wall-clock bound for one exchange with the child


# ---------------------------------------------------------------------------------------------------------------
# exception catalogue

class CustomError(Exception):
    pass


class InitArgsError(Exception):
    """custom __init__ that passes its arguments on: default pickling calls cls(*args)"""

    def __init__(self, code, detail):
        super().__init__(code, detail)
        self.code = code
        self.detail = detail


class StatefulError(Exception):
    """custom __init__ whose args differ from its parameters, extra state, own __reduce__"""

    def __init__(self, code, detail, *, extra=None):
        super().__init__(f'{code}: {detail}')
        self.code = code
        self.detail = detail
        self.extra = extra

    def __reduce__(self):
        return _rebuild_stateful, (self.code, self.detail, self.extra)


def _rebuild_stateful(code, detail, extra):
    return StatefulError(code, detail, extra=extra)


class SlotsError(Exception):
    """state in __slots__ restored through __reduce__ with a state dict for __setstate__"""
    __slots__ = ('payload',)

    def __init__(self, msg, payload=None):
        super().__init__(msg)
        self.payload = payload

    def __reduce__(self):
        return type(self), self.args, {'payload': self.payload}

    def __setstate__(self, state):
        self.payload = state['payload']


class KeepsCauseError(Exception):
    """own __reduce__ that carries __cause__ through pickling (as tblib-style pickling support does): after a hop the
    exception arrives with a cause already set - the remote traceback must be attached all the same"""

    def __reduce__(self):
        return _rebuild_keeps_cause, (self.args, self.__cause__)


def _rebuild_keeps_cause(args, cause):
    e = KeepsCauseError(*args)
    e.__cause__ = cause
    return e


def _rtext(rnd, n=12):
    alphabet = 'abcXYZ 019\n\t"\'\\%{}[]\u00e9\u4e2d\U0001f600:'
    return ''.join(rnd.choice(alphabet) for _ in range(rnd.randint(0, n)))


def _make(key, seed):
    rnd = random.Random(f'{key}/{seed}')
    s1, s2 = _rtext(rnd), _rtext(rnd, 30)
    n = rnd.randint(-10 ** 12, 10 ** 12)
    if key == 'builtin0':
        return ValueError()
    if key == 'builtin1':
        return ValueError(s1)
    if key == 'builtin3':
        return TypeError(s1, n, (s2, None, 2.5, b'\x00\n\xff'))
    if key == 'keyerror':
        return KeyError(s1 or 'k')
    if key == 'oserror':
        return OSError(2, 'No such file or directory: ' + s1)
    if key == 'oserror_fn':
        return OSError(13, 'Permission denied', '/some/' + s1.replace('\x00', ''))
    if key == 'unicode':
        return UnicodeDecodeError('utf-8', b'\xff\xfe' + s1.encode(), 0, 1, 'invalid start byte')
    if key == 'custom':
        return CustomError(n, s1)
    if key == 'initargs':
        return InitArgsError(n, s2)
    if key == 'stateful':
        return StatefulError(n, s1, extra={'k': [1, s2], 'n': None})
    if key == 'slots':
        return SlotsError(s1, payload=(n, [s2]))
    if key == 'dictstate':
        e = RuntimeError(s1, n)
        e.detail = {'where': s2, 'n': [n, 1]}
        e.add_note('note: ' + s1)
        return e
    if key in ('cause', 'context'):
        return LookupError(s1, n)
    if key == 'keepcause':
        return KeepsCauseError(s1, n)
    if key == 'systemexit':
        return SystemExit(3)
    if key == 'group':
        return ExceptionGroup(s1, [ValueError(n), KeyError(s2)])
    if key == 'importerror':
        return ImportError('cannot import ' + s1, name='mod_' + str(abs(n)), path='/p/' + str(abs(n)))
    if key == 'calledprocess':
        return subprocess.CalledProcessError(abs(n) % 250 + 1, ['cmd', s1], output=b'out\n' + s2.encode(), stderr=b'err')
    if key == 'stopiteration':
        return StopIteration((s1, n))
    raise KeyError(key)


CATALOGUE = ['builtin0', 'builtin1', 'builtin3', 'keyerror', 'oserror', 'oserror_fn', 'unicode', 'custom', 'initargs',
             'stateful', 'slots', 'dictstate', 'cause', 'context', 'systemexit', 'group', 'importerror',
             'calledprocess', 'stopiteration', 'keepcause']

_ATTRS = ('errno', 'strerror', 'filename', 'encoding', 'object', 'start', 'end', 'reason', 'code', 'detail', 'extra',
          'payload', 'name', 'path', 'msg', 'returncode', 'cmd', 'output', 'stderr', 'value', 'message', 'exceptions')


def identity_of(exc):
    """class, args and extra state as comparable text (exceptions inside a group compare by repr)"""
    d = getattr(exc, '__dict__', None) or {}
    return {'cls': f'{type(exc).__module__}.{type(exc).__qualname__}',
            'args': repr(exc.args),
            'str': str(exc),
            'dict': repr(sorted((k, repr(v)) for k, v in d.items())),
            'attrs': repr([(a, repr(getattr(exc, a))) for a in _ATTRS if hasattr(exc, a)])}


# ---------------------------------------------------------------------------------------------------------------
# raise sites: a function whose NAME is the marker that the text projection looks for

_sites = {}


def _site(n):
    f = _sites.get(n)
    if f is None:
        ns = {}
        exec(compile(f'def site_{n}(mk, how):\n'
                     f'    if how == "cause":\n'
                     f'        raise mk() from LookupError("root cause of site {n}")\n'
                     f'    raise mk()\n', f'<verif-site-{n}>', 'exec'), ns)
        f = _sites[n] = ns[f'site_{n}']
    return f


def _with_context(n, mk):
    # the exception is raised while another one is being handled: __context__ is set (the handled exception's own
    # traceback shows this frame only, not the site)
    try:
        raise KeyError(f'context of site {n}')
    except KeyError:
        return _site(n)(mk, 'plain')


def _depth(d, n, mk, how):
    if d <= 1:
        return _with_context(n, mk) if how == 'context' else _site(n)(mk, how)
    return _depth(d - 1, n, mk, how)


def raise_at(n, mk, depth=1, how='plain'):
    """raise mk() at site n below `depth - 1` extra frames; returns the caught exception (with its live traceback)"""
    try:
        _depth(depth, n, mk, how)
    except BaseException as e:  # noqa: BLE001 - SystemExit is in the catalogue
        return e
    raise AssertionError('site did not raise')


def marks(text):
    return [int(x) for x in MARK.findall(text or '')]


# ---------------------------------------------------------------------------------------------------------------
# one step of a behaviour on the real objects

def _re():
    from mpservice.multiprocessing import remote_exception as M
    return M


def _levels(top, meta):
    """[(obj, exc)] innermost first; obj is the wrapper or the exception itself"""
    M = _re()
    out = []
    obj = top
    for pos in reversed(meta['pos']):
        exc = obj.exc if isinstance(obj, M.RemoteException) else obj
        out.append((obj, exc))
        obj = exc.args[1]['y'][pos - 1]
    exc = obj.exc if isinstance(obj, M.RemoteException) else obj
    out.append((obj, exc))
    out.reverse()
    return out


def _text_of(obj):
    M = _re()
    if isinstance(obj, M.RemoteException):
        return obj.tb
    if M.is_remote_exception(obj):
        return M.get_remote_traceback(obj)
    return None


def do_step(top, meta, name, k):
    """Apply one spec action (except the hops, which move the object) to the real object; returns the new top."""
    M = _re()
    how = {'cause': 'cause', 'context': 'context', 'keepcause': 'cause'}.get(meta['key'], 'plain')
    meta['checks'] = []
    if name == 'Raise':
        first = top.__traceback__ is None and not M.is_remote_exception(top) and not meta['pos']
        e = raise_at(k, lambda: top, meta['depth'] if first else 1, how if first else 'plain')
        if e is not top:
            meta['checks'].append(f'raise returned a different object: {e!r}')
        return e
    if name == 'Wrap':
        fmt = None
        if top.__traceback__ is not None:
            fmt = ''.join(traceback.format_exception(type(top), top, top.__traceback__))
        before = [_text_of(o) for o, _ in _levels(top, meta)]
        w = M.RemoteException(top)
        if w.exc is not top:
            meta['checks'].append('wrapper.exc is not the wrapped object')
        if fmt is not None and fmt not in w.tb:
            meta['checks'].append('wrapper text does not contain the formatted live traceback')
        for i, (o, _) in enumerate(_levels(w, meta)):
            if before[i] is not None and before[i] not in (_text_of(o) or ''):
                meta['checks'].append(f'level {i + 1}: text before Wrap is not contained in the text after Wrap')
        return w
    if name == 'WrapRefused':
        try:
            M.RemoteException(top)
        except ValueError:
            return top
        meta['checks'].append('RemoteException() accepted an exception with neither traceback nor remote text')
        return top
    if name == 'NestInEnsemble':
        y = top if isinstance(top, M.RemoteException) else M.RemoteException(top)
        # the results an ensemble has collected when it raises: every member reported (fail_fast=False), or only some of them
        # (fail_fast=True: raised at the first failure; `n` = members that have reported, None = not yet) - the failed member
        # sits at its OWN index, whatever n is
        sd = meta['seed']
        shapes = ([('plain', sd), None], [None, None], [None, None, None], [('plain', sd), None, ('plain', sd + 1)],
                  [None, None, ('plain', sd)])
        ylist = list(shapes[(sd + len(meta['pos'])) % len(shapes)])
        ylist[k - 1] = y
        z = {'y': ylist, 'n': sum(1 for v in ylist if v is not None)}
        meta['last_ens'] = {'n': z['n'], 'len': len(ylist), 'rest': [repr(v) for j, v in enumerate(ylist) if j != k - 1]}
        meta['pos'].append(k)
        return raise_at(meta['nraise_next'], lambda: M.EnsembleError(z))
    raise ValueError(name)


def project(top, meta):
    """Implementation state in the vocabulary of RemoteExc.tla (plus the texts themselves)."""
    M = _re()
    out = []
    for i, (obj, exc) in enumerate(_levels(top, meta)):
        wrapped = isinstance(obj, M.RemoteException)
        tb = exc.__traceback__
        live_txt = ''.join(traceback.format_tb(tb)) if tb is not None else ''
        is_remote = M.is_remote_exception(exc)
        rtxt = M.get_remote_traceback(exc) if is_remote else None
        lvl = {'wrapped': wrapped, 'hastb': tb is not None, 'live': marks(live_txt), 'is_remote': bool(is_remote),
               'remote': marks(rtxt), 'wtext': marks(obj.tb) if wrapped else [], 'rtxt': rtxt,
               'wtxt': obj.tb if wrapped else None, 'isexc': isinstance(exc, BaseException)}
        if i == 0:
            lvl['ident'] = identity_of(exc)
        else:
            res = exc.args[1] if len(exc.args) == 2 and isinstance(exc.args[1], dict) else {}
            y = list(res.get('y', []))
            pos = meta['pos'][i - 1]
            rest = [repr(v) for j, v in enumerate(y) if j != pos - 1]
            lvl['ident'] = {'cls': f'{type(exc).__module__}.{type(exc).__qualname__}', 'n': res.get('n'),
                            'len': len(y), 'rest': rest, 'msg': str(exc.args[0]) if exc.args else None}
        out.append(lvl)
    return out


def hop_local(top):
    return pickle.loads(pickle.dumps(top))


# ---------------------------------------------------------------------------------------------------------------
# the child of the 'proc' mode and the target of the 'lib' mode (run in a real mpservice Process)

def child_main(conn):
    top = None
    while True:
        msg = conn.recv()
        op = msg[0]
        try:
            if op == 'quit':
                conn.send(('bye',))
                return 0
            if op == 'take':  # the object arrives here: unpickled by conn.recv() in THIS process
                top = msg[2]
                conn.send(('proj', project(top, msg[1]), msg[1]))
            elif op == 'give':  # the object leaves: pickled by conn.send() in THIS process
                obj, top = top, None
                conn.send(('obj', obj))
            elif op == 'step':
                meta = msg[1]
                top = do_step(top, meta, msg[2], msg[3])
                conn.send(('proj', project(top, meta), meta))
            else:
                conn.send(('err', f'unknown op {op}'))
        except BaseException:  # noqa: BLE001
            conn.send(('err', traceback.format_exc()))


def lib_target(key, seed, depth, how):
    exc = _make(key, seed)
    _depth(depth, 1, lambda: exc, how)


# ---------------------------------------------------------------------------------------------------------------
# comparison of the projection with the spec state

def compare(spec_lv, proj, ident0, ens_ident):
    """-> list of mismatch descriptions (empty = conforms)"""
    bad = []
    if len(spec_lv) != len(proj):
        return [f'nesting: spec {len(spec_lv) - 1}, real {len(proj) - 1}']
    for i, (s, r) in enumerate(zip(spec_lv, proj)):
        where = f'level {i + 1}'
        if not r['isexc']:
            bad.append(f'{where}: not a BaseException')
        if r['wrapped'] != s['wrapped']:
            bad.append(f'{where}: wrapped spec {s["wrapped"]} real {r["wrapped"]}')
        if r['hastb'] != bool(s['live']) or r['live'] != s['live']:
            bad.append(f'{where}: live traceback sites spec {s["live"]} real {r["live"]} (hastb {r["hastb"]})')
        if r['is_remote'] != bool(s['remote']):
            bad.append(f'{where}: is_remote_exception spec {bool(s["remote"])} real {r["is_remote"]}')
        if r['remote'] != s['remote']:
            bad.append(f'{where}: remote traceback sites spec {s["remote"]} real {r["remote"]}')
        if r['wtext'] != s['wtext']:
            bad.append(f'{where}: wrapper text sites spec {s["wtext"]} real {r["wtext"]}')
        if i == 0:
            if r['ident'] != ident0:
                diff = {k: (ident0[k], r['ident'].get(k)) for k in ident0 if r['ident'].get(k) != ident0[k]}
                bad.append(f'{where}: class/args/state changed: {diff}')
        else:
            exp = ens_ident[i - 1]
            got = {k: r['ident'].get(k) for k in exp}
            if got != exp:
                bad.append(f'{where}: EnsembleError changed: expected {exp} got {got}')
        txt = r['wtxt'] if r['wrapped'] else r['rtxt']
        stext = s['wtext'] if s['wrapped'] else s['remote']
        if s['hopped'] and s['origin'] in stext:
            if not txt or f'in site_{s["origin"]}\n' not in txt:
                bad.append(f'{where}: origin marker site_{s["origin"]} not in the text after a hop')
    return bad


# ---------------------------------------------------------------------------------------------------------------

# Every Process object stays referenced until the runner ends with os._exit: an unreferenced SpawnProcess is finalized
# by a weakref callback that JOINS its logger thread; run by the cyclic GC inside threading._set_tstate_lock of a
# thread that is just starting, that join re-acquires threading._shutdown_locks_lock and Process.start() never returns
# (seen once in 16 loaded runs; a lifecycle hazard of context.py, not a C15 matter).
_KEEP = []


class _Child:
    def __init__(self):
        import multiprocessing
        from mpservice.multiprocessing import Process
        ctx = multiprocessing.get_context('spawn')
        self.conn, other = ctx.Pipe()
        self.proc = Process(target=child_main, args=(other,), name='verif-remoteexc-child')
        _KEEP.append(self.proc)
        self.proc.start()
        other.close()

    def ask(self, *msg):
        self.conn.send(msg)
        if not self.conn.poll(HOP_TIMEOUT):
            raise TimeoutError(f'no answer from the child within {HOP_TIMEOUT}s to {msg[0]}')
        rep = self.conn.recv()
        if rep[0] == 'err':
            raise RuntimeError('child: ' + rep[1])
        return rep

    def close(self):
        try:
            self.ask('quit')
            self.proc.join(30)
        except BaseException:  # noqa: BLE001
            pass
        if self.proc.is_alive():
            self.proc.kill()


def replay(item, beh, child=None):
    """Replay one behaviour (list of [name, k, spec_lv, refused]) for one catalogue entry.
    -> (n_steps, divergence | None)"""
    key, seed, depth, mode = item['key'], item['seed'], item['depth'], item['mode']
    meta = {'key': key, 'seed': seed, 'depth': depth, 'pos': [], 'others': [('plain', seed), None], 'nraise_next': 0,
            'checks': []}
    exc0 = _make(key, seed)
    ident0 = identity_of(exc0)
    plain = pickle.loads(pickle.dumps(exc0))
    if identity_of(plain) != ident0:
        raise AssertionError(f'catalogue entry {key} does not survive plain pickling: {ident0} -> {identity_of(plain)}')
    here = True  # the object is in this process
    top = exc0
    ens_ident = []
    first_txt = {}  # level -> text made by the first Wrap
    prev = None
    steps = 0
    k0 = 0
    if mode == 'lib':
        # Raise, Wrap, Hop done by the library: mpservice Process target raises, parent fetches Process.exception()
        from mpservice.multiprocessing import Process
        how = {'cause': 'cause', 'context': 'context', 'keepcause': 'cause'}.get(key, 'plain')
        p = Process(target=lib_target, args=(key, seed, depth, how), name='verif-remoteexc-lib')
        _KEEP.append(p)
        p.start()
        try:
            top = p.exception(timeout=HOP_TIMEOUT)
        except BaseException as e:  # noqa: BLE001
            return steps, {'step': 3, 'action': 'Hop(lib)', 'what': [f'Process.exception() failed: {e!r}'], 'kind': 'exc'}
        finally:
            if p.is_alive():
                p.kill()
        k0 = 3
        steps = 3
        pr = project(top, meta)
        bad = compare(beh[2][2], pr, ident0, ens_ident)
        if bad:
            return steps, {'step': 3, 'action': 'Raise,Wrap,Hop by mpservice.multiprocessing.Process', 'what': bad,
                           'kind': 'projection', 'spec': beh[2][2], 'real': _slim(pr)}
        first_txt[0] = pr[0]['rtxt']
        prev = pr
    for idx in range(k0, len(beh)):
        name, k, spec_lv, refused = beh[idx]
        steps += 1
        try:
            if name == 'NestInEnsemble':
                meta['nraise_next'] = spec_lv[-1]['origin']  # the site at which EnsembleError is raised
            if name in ('Hop', 'HopEnsemble', 'BareHop', 'Forward'):
                if name == 'Forward':
                    if here:
                        top = do_step(top, meta, 'Wrap', 0)
                    else:
                        child.ask('step', meta, 'Wrap', 0)
                if child is None:
                    top = hop_local(top)
                    pr = project(top, meta)
                elif here:
                    rep = child.ask('take', meta, top)
                    top, here, pr = None, False, rep[1]
                else:
                    top = child.ask('give')[1]
                    here = True
                    pr = project(top, meta)
            elif here:
                top = do_step(top, meta, name, k)
                pr = project(top, meta)
            else:
                rep = child.ask('step', meta, name, k)
                pr, meta = rep[1], rep[2]
        except TimeoutError as e:
            return steps, {'step': idx + 1, 'action': name, 'what': [repr(e)], 'kind': 'hang'}
        except BaseException as e:  # noqa: BLE001
            return steps, {'step': idx + 1, 'action': name, 'what': [f'real code raised {e!r}', traceback.format_exc()[-1500:]],
                           'kind': 'exc'}
        bad = list(meta.get('checks') or [])
        if name == 'NestInEnsemble':
            le = meta['last_ens']
            ens_ident.append({'cls': 'mpservice.multiprocessing.remote_exception.EnsembleError', 'n': le['n'], 'len': le['len'],
                              'rest': le['rest']})
        bad += compare(spec_lv, pr, ident0, ens_ident)
        for i, r in enumerate(pr):
            txt = r['wtxt'] if r['wrapped'] else r['rtxt']
            if r['wrapped'] and i not in first_txt:
                first_txt[i] = r['wtxt']
            sl = spec_lv[i]
            stext = sl['wtext'] if sl['wrapped'] else sl['remote']
            keeps = bool(sl['first']) and stext[:len(sl['first'])] == sl['first']  # the spec's ContainsOriginal
            if sl['hopped'] and keeps and i in first_txt and (not txt or first_txt[i] not in txt):
                bad.append(f'level {i + 1}: the originally formatted traceback is no longer contained in the text')
            if name == 'Forward' and prev is not None and i < len(prev):
                ptxt = prev[i]['wtxt'] if prev[i]['wrapped'] else prev[i]['rtxt']
                if ptxt != txt:
                    bad.append(f'level {i + 1}: text changed although the exception was only forwarded')
        if bad:
            return steps, {'step': idx + 1, 'action': name if not k else f'{name}({k})', 'what': bad, 'kind': 'projection',
                           'spec': spec_lv, 'real': _slim(pr)}
        prev = pr
    if child is not None and not here:
        child.ask('give')
    return steps, None


def _slim(pr):
    return [{k: (v if not isinstance(v, str) or len(v) < 1500 else v[:700] + ' ... ' + v[-700:]) for k, v in lv.items()}
            for lv in pr]


def _watchdog(st, limit):
    """A replay stuck for longer than `limit` s (all inner waits are bounded by HOP_TIMEOUT, so this means the library
    blocked somewhere without a timeout): report it as a hang of that item, hand back the items not yet run, leave."""
    import json
    import os
    import sys
    import time
    while True:
        time.sleep(1.0)
        if st['done']:
            return
        if time.time() - st['t'] > limit:
            item = st['item']
            out = dict(st['out'])
            out['hangs'] = out['hangs'] + [{'item': item, 'hist': [[a, k] for a, k, _, _ in st['behs'][item['beh']]],
                                           'step': 0, 'action': '?', 'what': [f'replay did not finish within {limit}s'],
                                           'kind': 'hang'}]
            out['unrun'] = st['items'][st['idx'] + 1:]
            if len(sys.argv) >= 4 and sys.argv[3].endswith('.json'):
                with open(sys.argv[3] + '.tmp', 'w') as f:
                    json.dump(out, f)
                os.replace(sys.argv[3] + '.tmp', sys.argv[3])
            os._exit(0)


def run_job(job):
    import threading
    import time
    behs = job['behs']
    out = {'n_replays': 0, 'n_steps': 0, 'divergences': [], 'hangs': [], 'unrun': []}
    st = {'t': time.time(), 'item': None, 'idx': -1, 'items': job['items'], 'behs': behs, 'out': out, 'done': False}
    threading.Thread(target=_watchdog, args=(st, job.get('stuck_after', HOP_TIMEOUT + 60)), daemon=True).start()
    child = None
    try:
        for idx, item in enumerate(job['items']):
            st.update(t=time.time(), item=item, idx=idx)
            beh = behs[item['beh']]
            if item['mode'] == 'proc' and child is None:
                child = _Child()
            steps, div = replay(item, beh, child if item['mode'] == 'proc' else None)
            out['n_replays'] += 1
            out['n_steps'] += steps
            if div is not None:
                rec = {'item': item, 'hist': [[a, k] for a, k, _, _ in beh], **div}
                if div['kind'] == 'hang':
                    out['hangs'].append(rec)
                    if child is not None:
                        child.proc.kill()
                        child = None
                else:
                    out['divergences'].append(rec)
                    if item['mode'] == 'proc' and child is not None:  # the child's state is unknown now
                        child.close()
                        child = None
                if len(out['divergences']) + len(out['hangs']) >= 40:
                    break
        st['t'] = time.time()
        if child is not None:
            child.close()
    finally:
        st['done'] = True
    return out
