"""Binder for spec/IterableQueue.tla: the REAL mpservice.queue.IterableQueue over queue.Queue with supplier / consumer /
renewer threads under detsched.  Every queue operation is logged from inside Queue._put/_get (i.e. under the queue's own
mutex: exact linearization order)."""
from __future__ import annotations

import random

from .common import strip


def gen_scenarios(rnd: random.Random, count):
    out = []
    for _ in range(count):
        if rnd.random() < 0.2:
            # stop-request scenario: suppliers never end (or nobody consumes a bounded queue); a stop is requested
            out.append({'m': rnd.choice([1, 2]), 'nc': rnd.choice([0, 1, 2]), 'k': rnd.choice([1, 2]), 'rounds': 1,
                        'qbound': rnd.choice([1, 2]), 'stop_at': rnd.choice([3, 7, 12, 25])})
            continue
        out.append({'m': rnd.choice([1, 2, 2, 3]), 'nc': rnd.choice([1, 2, 2, 3]), 'k': rnd.choice([0, 1, 2]),
                    'rounds': rnd.choice([1, 2, 2, 3]), 'qbound': rnd.choice([0, 0, 1, 2])})
    return out


def header(sc):
    return {'m': sc['m'], 'nc': max(1, sc['nc']), 'k': sc['k'], 'rounds': sc['rounds'], 'qbound': sc['qbound'],
            'stop': 'stop_at' in sc}


_installed = False
_ctx = {'roles': {}, 'who': None}


def _install():
    global _installed
    if _installed:
        return
    _installed = True
    import queue
    from mbt import detsched
    Q = queue.Queue
    oput, oget, ofull = Q._put, Q._get, Q.full

    def desc(item):
        if item is None:
            return {'kind': 'none', 's': 0, 'k': 0, 'r': 0}
        if isinstance(item, tuple) and len(item) == 3:
            return {'kind': 'item', 's': item[0], 'k': item[1], 'r': item[2]}
        return {'kind': 'other', 's': 0, 'k': 0, 'r': 0}

    def _put(self, item):
        oput(self, item)
        role = _ctx['roles'].get(id(self))
        if role is not None and detsched.current() is not None:
            w, n = _ctx['who']()
            detsched.emit('QPut', role=role, who=w, n=n, **desc(item))

    def _get(self):
        item = oget(self)
        role = _ctx['roles'].get(id(self))
        if role is not None and detsched.current() is not None:
            w, n = _ctx['who']()
            detsched.emit('QGet', role=role, who=w, n=n, **desc(item))
        return item

    def full(self):
        v = ofull(self)
        role = _ctx['roles'].get(id(self))
        if role == 'used' and detsched.current() is not None:
            w, n = _ctx['who']()
            detsched.emit('Full', role=role, who=w, n=n, val=bool(v))
        return v

    Q._put, Q._get, Q.full = _put, _get, full


def _make_scenario(sc):
    import queue
    import threading
    from mbt import detsched
    from mpservice.queue import IterableQueue

    m, nc, k, rounds = sc['m'], sc['nc'], sc['k'], sc['rounds']
    tl = threading.local()
    _ctx['who'] = lambda: getattr(tl, 'who', ('x', 0))

    def stop_root():
        import time
        from mpservice._common import StopRequested
        tl.who = ('r', 0)
        _ctx['roles'].clear()
        to_stop = threading.Event()
        iq = IterableQueue(queue.Queue(sc['qbound']), num_suppliers=m, to_stop=to_stop)
        base = iq._q.queue
        _ctx['roles'][id(base)] = 'q'
        _ctx['roles'][id(iq._spare_lids)] = 'spare'
        _ctx['roles'][id(iq._applied_lids)] = 'applied'
        _ctx['roles'][id(iq._used_lids)] = 'used'
        if hasattr(iq, '_extra_lid'):
            _ctx['roles'][id(iq._extra_lid)] = 'extra'
        tstop = [None]
        interval = iq._q.wait_interval_seconds

        def stopped(w, n):
            late = tstop[0] is None or time.perf_counter() - tstop[0] > interval + 1e-6
            detsched.emit('Stopped', who=w, n=n, late=bool(late))

        def supplier(s):
            tl.who = ('s', s)
            try:
                # never calls put_end: consumers end up blocked in get(); with no consumer the supplier itself
                # ends up blocked in put() on the bounded queue
                for j in range(1, k + 3):
                    iq.put((s, j, 1))
            except StopRequested:
                stopped('s', s)

        def consumer(c):
            tl.who = ('c', c)
            try:
                for z in iq:
                    pass
            except StopRequested:
                stopped('c', c)

        ths = [threading.Thread(target=supplier, args=(s,), name=f'sup-{s}') for s in range(1, m + 1)]
        ths += [threading.Thread(target=consumer, args=(c,), name=f'con-{c}') for c in range(1, nc + 1)]
        for t in ths:
            t.start()
        time.sleep(sc['stop_at'] * 0.1)
        tstop[0] = time.perf_counter()
        detsched.emit('StopSet')
        to_stop.set()
        for t in ths:
            t.join()
        detsched.emit('AllStopped')

    if 'stop_at' in sc:
        return stop_root

    def root():
        tl.who = ('r', 0)
        _ctx['roles'].clear()
        iq = IterableQueue(queue.Queue(sc['qbound']), num_suppliers=m)
        base = iq._q
        base = getattr(base, 'queue', base) if not isinstance(base, queue.Queue) else base
        _ctx['roles'][id(base)] = 'q'
        _ctx['roles'][id(iq._spare_lids)] = 'spare'
        _ctx['roles'][id(iq._applied_lids)] = 'applied'
        _ctx['roles'][id(iq._used_lids)] = 'used'
        if hasattr(iq, '_extra_lid'):
            _ctx['roles'][id(iq._extra_lid)] = 'extra'
        for rd in range(1, rounds + 1):
            got = {}

            def supplier(s, rd=rd):
                tl.who = ('s', s)
                for j in range(1, k + 1):
                    iq.put((s, j, rd))
                iq.put_end()
                detsched.emit('SupDone', n=s)

            def consumer(c, got=got):
                tl.who = ('c', c)
                mine = []
                for z in iq:
                    mine.append(z)
                got[c] = mine
                detsched.emit('ConsDone', n=c)

            ths = [threading.Thread(target=supplier, args=(s,), name=f'sup-{s}') for s in range(1, m + 1)]
            ths += [threading.Thread(target=consumer, args=(c,), name=f'con-{c}') for c in range(1, nc + 1)]
            for t in ths:
                t.start()
            for t in ths:
                t.join()
            allgot = sorted(x for v in got.values() for x in v)
            expect = sorted((s, j, rd) for s in range(1, m + 1) for j in range(1, k + 1))
            detsched.emit('RoundChecked', ok=allgot == expect, n=len(allgot))
            if rd < rounds:
                iq.renew()
                detsched.emit('RenewDone')

    return root


ROLE_EVENT = {
    'SupPut': ('s', 'QPut'), 'SupEndStart': ('s', None), 'SupTakeSpare': ('s', 'QGet'), 'SupApply': ('s', 'QPut'),
    'SupMarker': ('s', 'QPut'), 'N1': ('c', 'Full'), 'N2': ('c', 'QGet'), 'N4': ('c', 'Full'), 'PutBack': ('c', 'QPut'),
    'N5': ('c', 'QGet'), 'N6': ('c', 'QPut'), 'N7': ('c', 'Full'), 'Claim': ('c', 'QPut'),
    'Renew1': ('r', 'Full'), 'Renew2': ('r', 'QGet'), 'Renew3': ('r', 'RenewDone'),
}


def behaviour_to_item(beh, consts):
    """A TLC behaviour of IterableQueue -> scenario + steering script (spec -> code leg)."""
    from mbt.tlc import split_action
    script, prev = [], beh[0][1]
    for act, st in beh[1:]:
        name, args = split_action(act)
        if name in ROLE_EVENT:
            kind, ev = ROLE_EVENT[name]
            role = 'r' if kind == 'r' else f'{kind}{args[0]}'
            if name == 'Claim' and st['claim'] == prev['claim']:
                ev = None       # lost the claim: put(block=False) raises Full, no event
            script.append({'role': role, 'ev': ev, 'act': act})
        prev = st
    sc = {'m': consts['M'], 'nc': consts['NC'], 'k': consts['K'], 'rounds': consts['Rounds'], 'qbound': consts['QBound']}
    return {'sc': sc, 'script': script}


def _role_of(t):
    if t.tid == 0:
        return 'r'
    if t.name.startswith('sup-'):
        return 's' + t.name[4:]
    if t.name.startswith('con-'):
        return 'c' + t.name[4:]
    return 'x'


def run_job(job):
    from mbt import detsched
    _install()
    traces, hangs, n_exec = [], [], 0
    for item in job['items']:
        sc, seed, strat = item['sc'], item['seed'], item.get('strategy', 'random')
        guided = None
        if item.get('script') is not None:
            guided = detsched.GuidedStrategy(item['script'], _role_of, {}, seed=seed, patience=40)
            strat = 'guided'
        if strat == 'guided':
            st = guided
        elif strat == 'pct':
            st = detsched.PCTStrategy(seed, depth=3 + seed % 4, est_steps=800, fire=0.2)
        else:
            st = detsched.RandomStrategy(seed, stay=0.3 + 0.6 * ((seed * 7919) % 10) / 10.0, fire=0.25)
        # stop scenarios run with exact virtual time: "within the wait interval" is then checked exactly
        res = detsched.run(_make_scenario(sc), st, max_steps=200000, stall_timeout=120,
                           lag=0.0 if 'stop_at' in sc else 0.02, max_idle_vtime=50.0)
        n_exec += 1
        rec = {'id': item['id'], 'p': header(sc), 'ev': strip(res.trace), 'sc': sc, 'seed': seed, 'strategy': strat,
               'status': res.status}
        if guided is not None:
            want = [x['ev'] for x in item['script'] if x.get('ev')]
            got = [e['ev'] for e in rec['ev'] if e['ev'] in ('QPut', 'QGet', 'Full', 'RenewDone')
                   and not (e.get('who') == 'r' and e.get('role') in ('used', 'spare', 'extra') and e['ev'] != 'Full')]
            rec['l2'] = {'steps': len(want), 'followed': guided.followed, 'skipped': guided.skipped,
                         'exact': got[:len(want)] == want}
        if res.status != 'ok' or res.exc is not None or res.thread_errors:
            rec.update(detail=res.detail, waitmap=res.waitmap, exc=repr(res.exc) if res.exc is not None else None,
                       leftover=res.leftover, thread_errors=res.thread_errors)
            hangs.append(rec)
            if len(hangs) >= 25:
                break
        else:
            traces.append(rec)
    return {'traces': traces, 'hangs': hangs, 'n_exec': n_exec}
