"""Binder for spec/FifoStream.tla: runs the REAL fifo_stream / Parmapper under detsched and records events.

Observation uses only harness-owned objects (source iterator, worker function, preprocessor, consumer loop) and
wrappers installed in THIS process around public library names (SingleLane.put/get, Future.result/cancel,
ThreadPoolExecutor.submit).  No edit of /repo.
"""
from __future__ import annotations

import random


from .common import ElemError, SrcError, SubmitError, install_future_wrappers, install_singlelane_wrappers, strip, unpp


# ---------------------------------------------------------------------------------------------------------------
# scenario grid (parent side, no mpservice import needed)

def gen_scenarios(rnd: random.Random, count, max_n=6, max_cap=3, max_conc=3, allow_base=True):
    out = []
    for _ in range(count):
        n = rnd.randint(0, max_n)
        variant = rnd.choice(['fifo', 'fifo', 'parmap'])
        conc = rnd.randint(1, max_conc)
        cap = 2 * conc if variant == 'parmap' else rnd.randint(1, max_cap)
        idx = list(range(1, n + 1))
        rnd.shuffle(idx)
        nf = rnd.choice([0, 0, 1, 1, 2])
        npf = rnd.choice([0, 0, 0, 1, 2])
        fail = sorted(idx[:nf])
        prefail = sorted(idx[nf:nf + npf])
        srcfail = rnd.choice([0, 0, 0] + list(range(1, n + 2)))
        srcbase = bool(srcfail) and allow_base and rnd.random() < 0.3
        brk = rnd.choice([None, None] + list(range(1, n + 1))) if n else None
        # the submission function itself raises for one element (direct fifo_stream only)
        subfail = 0
        if variant == 'fifo' and not srcfail and n and rnd.random() < 0.25:
            cand = [i for i in range(1, n + 1) if i not in prefail]
            subfail = rnd.choice(cand) if cand else 0
        okidx = [i for i in range(1, n + 1) if i not in fail and i not in prefail]
        retobj = sorted(rnd.sample(okidx, min(len(okidx), rnd.choice([0, 0, 1, 2])))) if okidx else []
        out.append({'n': n, 'cap': cap, 'conc': conc, 'retexc': rnd.random() < 0.5, 'fail': fail, 'subfail': subfail,
                    'retobj': retobj,
                    'prefail': prefail, 'srcfail': srcfail, 'srcbase': srcbase, 'maybreak': brk is not None,
                    'mode': 'sync', 'variant': variant, 'retx': rnd.random() < 0.6, 'break_at': brk,
                    'usepre': bool(prefail) or rnd.random() < 0.3,
                    # an idle input stream: virtual pause (units of 0.01 s) before the source yields element k
                    'srcdelay': ([rnd.choice([0, 0, 0, 12, 15, 30]) for _ in range(n + 2)] if rnd.random() < 0.35 else None)})
    return out


def header(sc):
    h = {k: sc[k] for k in ('n', 'cap', 'conc', 'retexc', 'fail', 'prefail', 'srcfail', 'srcbase', 'maybreak', 'mode')}
    h['subfail'] = sc.get('subfail', 0)
    return h


# ---------------------------------------------------------------------------------------------------------------
# child side

def _install_wrappers():
    install_singlelane_wrappers()
    install_future_wrappers()


def _make_scenario(sc):
    """Returns fn() to be run as the detsched root thread."""
    from mbt import detsched
    from mpservice.streamer import Stream, fifo_stream
    from mpservice.concurrent.futures import ThreadPoolExecutor
    try:
        from mpservice.queue import StopRequested
    except Exception:  # pragma: no cover
        StopRequested = None

    n, fail, prefail = sc['n'], set(sc['fail']), set(sc['prefail'])
    srcfail, srcbase = sc['srcfail'], sc['srcbase']
    srcdelay = sc.get('srcdelay')

    class Src:
        def __init__(self):
            self.pos = 0

        def __iter__(self):
            return self

        def __next__(self):
            k = self.pos + 1
            if srcdelay and srcdelay[min(k, len(srcdelay) - 1)]:
                import time
                time.sleep(srcdelay[min(k, len(srcdelay) - 1)] * 0.01)
            if srcfail and k == srcfail:
                detsched.emit('SrcRaise')
                if srcbase:
                    raise StopRequested()
                raise SrcError('source failed')
            if k > n:
                detsched.emit('SrcEnd')
                raise StopIteration
            self.pos = k
            detsched.emit('Pull', i=k)
            return k

    gates = sc.get('_gates')

    retobj = set(sc.get('retobj') or [])

    def work(x):
        x = unpp(x)
        detsched.emit('WStart', i=x)
        detsched.checkpoint('work')
        if gates is not None:
            # spec -> code replay: element x finishes when the behaviour says so
            spins = 0
            while not (gates.get(x) or gates.get('*')) and spins < 2500:
                detsched.checkpoint('gate')
                spins += 1
        if x in fail:
            detsched.emit('WFinish', i=x, kind='err')
            raise ElemError(x)
        detsched.emit('WFinish', i=x, kind='ok')
        if x in retobj:
            # the function RETURNS an exception object (e.g. a stage that passes upstream failures on as values): that is
            # its result for this element, not a failure
            return ElemError(x, 'returned')
        return ('r', x)

    work._verif_work = True

    def pre(x):
        if x in prefail:
            detsched.emit('PreFail', i=x)
            raise ElemError(x, 'pre')
        return ('pp', x)      # a TRANSFORMING preprocessor: `func` gets the transformed value, return_x the original element

    usepre = sc.get('usepre') or bool(prefail)
    retx, retexc, brk = sc['retx'], sc['retexc'], sc['break_at']

    def classify_y(y):
        if isinstance(y, ElemError) and y.site == 'returned':
            return y.i, 'ok'
        if isinstance(y, ElemError):
            return y.i, 'err'
        if isinstance(y, tuple) and len(y) == 2 and y[0] == 'r':
            return y[1], 'ok'
        return -2, 'bad'

    def consume(gen):
        sched = detsched.current()
        k = 0

        def closed(kind, i):
            names = [t.name for t in sched.alive() if t is not sched.root]
            detsched.emit('Closed', k=kind, i=i, fa=any('feeder' in nm or nm == 'parmapper' for nm in names),
                          alive=names)

        try:
            while True:
                detsched.emit('Next')
                try:
                    v = next(gen)
                except StopIteration:
                    closed('none', 0)
                    break
                if retx:
                    x, y = v
                    x = x if isinstance(x, int) else -1      # paired with its own ORIGINAL input
                else:
                    x, y = 0, v
                yi, kind = classify_y(y)
                detsched.emit('Yield', x=x, y=yi, kind=kind)
                k += 1
                if brk is not None and k == brk:
                    detsched.emit('Break')
                    gen.close()
                    closed('none', 0)
                    break
        except ElemError as e:
            closed('err', e.i)
        except SrcError:
            closed('src', 0)
        except SubmitError:
            closed('sub', 0)
        except BaseException as e:
            if StopRequested is not None and isinstance(e, StopRequested):
                closed('src', 0)
            else:
                raise

    if sc['variant'] == 'parmap':
        def root():
            s = Stream(Src())
            kw = {}
            if usepre:
                kw['preprocessor'] = pre
            s.parmap(work, executor='thread', concurrency=sc['conc'], return_x=retx, return_exceptions=retexc, **kw)
            assert s.streamlets[-1]._fifo_capacity == sc['cap'], 'parmap capacity is not 2*concurrency'
            consume(iter(s))
            detsched.emit('ExecShut')
    else:
        def root():
            with ThreadPoolExecutor(sc['conc']) as ex:
                def func(x):
                    if unpp(x) == sc.get('subfail', 0):
                        detsched.emit('SubFail', i=unpp(x))
                        raise SubmitError(unpp(x))
                    return ex.submit(work, x, loud_exception=False)

                gen = fifo_stream(Src(), func, capacity=sc['cap'], return_x=retx, return_exceptions=retexc,
                                  preprocessor=pre if usepre else None)
                consume(gen)
            detsched.emit('ExecShut')
    return root


def make_strategy(kind, seed):
    from mbt import detsched
    if kind == 'pct':
        return detsched.PCTStrategy(seed, depth=3 + seed % 3, est_steps=300)
    if kind == 'starve_consumer':
        return detsched.StarveStrategy(seed, lambda t: t.tid == 0)
    if kind == 'starve_workers':
        return detsched.StarveStrategy(seed, lambda t: 'ThreadPoolExecutor' in t.name or 'parmapper-thread' in t.name)
    return detsched.RandomStrategy(seed, stay=0.5 + 0.4 * ((seed * 7919) % 10) / 10.0)


ROLE_EVENT = {
    'FeederPull': ('feeder', 'Pull'), 'FeederSrcEnd': ('feeder', 'SrcEnd'), 'FeederSrcRaise': ('feeder', 'SrcRaise'),
    'FeederCheckStop': ('feeder', None), 'FeederPreFail': ('feeder', 'PreFail'), 'FeederSubmit': ('feeder', 'Submit'),
    'FeederSubmitRaise': ('feeder', 'SubFail'),
    'FeederPut': ('feeder', 'Put'), 'FeederPutEnd': ('feeder', 'Put'), 'FeederPutExc': ('feeder', 'Put'),
    'WorkerTake': ('worker', None), 'WorkerSetRunning': ('worker', None), 'WorkerSkip': ('worker', None),
    'WorkerStart': ('worker', 'WStart'), 'WorkerFinish': ('worker', 'WFinish'),
    'ConsStart': ('cons', 'Next'), 'ConsNext': ('cons', 'Next'), 'ConsGet': ('cons', 'Get'), 'ConsAwait': ('cons', 'Await'),
    'ConsYield': ('cons', 'Yield'), 'ConsBreak': ('cons', 'Break'), 'ConsSetStop': ('cons', None),
    'FinDrainOne': ('cons', 'Get'), 'FinCancel': ('cons', 'Cancel'), 'FinDrainEmpty': ('cons', None),
    'FinJoin': ('cons', 'Closed'), 'ExecShutdown': ('cons', 'ExecShut'),
}


def behaviour_to_item(beh):
    """A TLC behaviour of FifoStream ([(action, state), ...], Mode sync) -> scenario + steering script."""
    p = beh[0][1]['p']
    if p.get('mode') != 'sync':
        return None
    script, brk, prev = [], None, beh[0][1]
    from mbt.tlc import split_action
    for act, st in beh[1:]:
        act = split_action(act)[0]
        if act not in ROLE_EVENT:
            prev = st
            continue
        role, ev = ROLE_EVENT[act]
        step = {'role': role, 'ev': ev, 'act': act}
        if act == 'WorkerFinish':
            fin = [i + 1 for i, (a, b) in enumerate(zip(prev['fut'], st['fut'])) if a == 'running' and b in ('ok', 'err')]
            if fin:
                step['open'] = fin[0]
        if act == 'ConsBreak':
            brk = len(st['out'])
        script.append(step)
        prev = st
    if any(a.startswith('ConsNeverStarted') for a, _ in beh):
        return None
    sc = {'n': p['n'], 'cap': p['cap'], 'conc': p['conc'], 'retexc': p['retexc'], 'fail': list(p['fail']),
          'prefail': list(p['prefail']), 'srcfail': p['srcfail'], 'srcbase': p['srcbase'],
          'maybreak': p['maybreak'], 'mode': 'sync', 'variant': 'fifo', 'retx': True, 'break_at': brk,
          'usepre': bool(p['prefail']), 'subfail': p.get('subfail', 0)}
    if brk == 0:
        return None
    return {'sc': sc, 'script': script}


def _role_of(t):
    if t.tid == 0:
        return 'cons'
    if 'feeder' in t.name or t.name == 'parmapper':
        return 'feeder'
    return 'worker'


def run_job(job):
    from mbt import detsched
    _install_wrappers()
    traces, hangs, n_exec = [], [], 0
    for item in job['items']:
        sc, seed, strat = item['sc'], item['seed'], item.get('strategy', 'random')
        guided = None
        if item.get('script') is not None:
            gates = {}
            sc = dict(sc, _gates=gates)
            guided = detsched.GuidedStrategy(item['script'], _role_of, gates, seed=seed)
        root = _make_scenario(sc)
        res = detsched.run(root, guided or make_strategy(strat, seed), max_steps=80000, stall_timeout=60,
                           lag=0.1 if sc.get('srcdelay') else 0.0, max_idle_vtime=100.0)
        sc = {k: v for k, v in sc.items() if k != '_gates'}
        n_exec += 1
        evs = strip(res.trace)
        rec = {'id': item['id'], 'p': header(sc), 'ev': evs, 'sc': sc, 'seed': seed, 'strategy': strat,
               'status': res.status}
        if guided is not None:
            want = [s['ev'] for s in item['script'] if s.get('ev')]
            got = [e['ev'] for e in evs]
            rec['l2'] = {'steps': len(want), 'followed': guided.followed, 'skipped': guided.skipped,
                         'exact': got[:len(want)] == want}
        if res.status != 'ok' or res.exc is not None or res.thread_errors:
            rec['detail'] = res.detail
            rec['waitmap'] = res.waitmap
            rec['exc'] = repr(res.exc) if res.exc is not None else None
            rec['leftover'] = res.leftover
            hangs.append(rec)
            if len(hangs) >= 25:
                break
        else:
            traces.append(rec)
    return {'traces': traces, 'hangs': hangs, 'n_exec': n_exec}
