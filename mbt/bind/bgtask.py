"""Binder for spec/BackgroundTask.tla (beyond the listed properties): TLC behaviours replayed on the REAL
mpservice.background_task.BackgroundTask over a one-worker ThreadPoolExecutor.

Every external action of the model is one public call (`submit`, `submit_and_forget`, `Task.cancel(wait=False)`,
`Task.result(timeout=0)`, `Task.exception()`) or the harness letting the running task return / raise; the user `run` blocks on
a gate of its own, so "which task runs, which are queued" is decided by the executor exactly as in the model (one worker:
the earliest pending task runs).  After every step: what the call returned / raised, and for EVERY task ever created its
`callers`, `_result_retrieved`, `cancelled()`, `done()`, plus the whole catalog (task id -> which task object) are compared
with the model's state.
"""
from __future__ import annotations

import concurrent.futures
import threading
import time

STEP_TIMEOUT = 5.0


class TaskError(Exception):
    pass


def _world():
    from mpservice.background_task import BackgroundTask
    from mpservice.concurrent.futures import ThreadPoolExecutor

    started = []      # one entry per invocation of `run`: {'key', 'gate', 'outcome'}
    lock = threading.Lock()

    class BT(BackgroundTask):
        @classmethod
        def run(cls, key, *, _cancelled, _info):
            me = {'key': key, 'gate': threading.Event(), 'outcome': 'ok'}
            with lock:
                started.append(me)
            me['gate'].wait()          # (the cancel flag is deliberately ignored: using it is optional)
            if me['outcome'] == 'err':
                raise TaskError(key)
            return ('done', key)

        @classmethod
        def get_task_id(cls, key):
            return key

    ex = ThreadPoolExecutor(max_workers=1)
    return BT(ex), ex, started


def _wait(pred, timeout=STEP_TIMEOUT):
    t0 = time.monotonic()
    while True:
        if pred():
            return True
        if time.monotonic() - t0 > timeout:
            return False
        time.sleep(0.0005)


def _observe(bt, objs):
    cat = {}
    for k, v in list(bt._tasks.items()):
        cat[k] = next((j + 1 for j, o in enumerate(objs) if o is v), -1)
    return {'tasks': [{'callers': o.callers, 'retrieved': o._result_retrieved, 'cflag': bool(o.cancelled()),
                       'done': bool(o.done())} for o in objs],
            'cat': cat}


def _expected(st):
    return {'tasks': [{'callers': t['callers'], 'retrieved': t['retrieved'], 'cflag': bool(t['cflag']),
                       'done': t['fut'] != 'pending'} for t in st['tasks']],
            'cat': {i: t for i, t in st['cat'].items() if t != 0}}


def _n_started(st):
    """invocations of `run` so far in the model: finished tasks + the running one (the earliest pending)"""
    fin = sum(1 for t in st['tasks'] if t['fut'] in ('ok', 'err'))
    return fin + (1 if any(t['fut'] == 'pending' for t in st['tasks']) else 0)


def replay(item):
    beh = item['beh']
    bt, ex, started = _world()
    objs = []
    steps = 0

    def bad(what, **kw):
        return {'id': item['id'], 'status': 'violation', 'steps': steps, 'sig': {'what': what, 'action': kw.get('action', '')},
                'detail': kw}

    try:
        for name, st in beh[1:]:
            a = st['act']
            kind, arg, want = a['name'], a['arg'], a['ret']
            got = None
            try:
                if kind == 'submit':
                    h = bt.submit(arg)
                    k = next((j for j, o in enumerate(objs) if o is h), None)
                    if k is None:
                        objs.append(h)
                        k = len(objs) - 1
                    got = str(k + 1)
                elif kind == 'forget':
                    bt.submit_and_forget(arg)
                    if len(st['tasks']) > len(objs):       # the model created a task: it is listed (pending, callback attached)
                        h = bt._tasks.get(arg)
                        if h is None or any(o is h for o in objs):
                            return bad('forgotten-task-not-listed', action=kind, act=a)
                        objs.append(h)
                    got = 'none'
                elif kind == 'finish':
                    me = started[-1] if started else None
                    if me is None or me['gate'].is_set():
                        return bad('no-running-invocation', action=kind, act=a)
                    fut = objs[arg - 1].future
                    me['outcome'] = want
                    me['gate'].set()
                    try:
                        fut.exception(timeout=STEP_TIMEOUT)
                    except concurrent.futures.CancelledError:
                        pass
                    got = want
                elif kind == 'cancel':
                    got = str(objs[arg - 1].cancel(wait=False))
                elif kind == 'result':
                    try:
                        v = objs[arg - 1].result(timeout=0)
                        got = 'ok' if v == ('done', st['tasks'][arg - 1]['id']) else f'value:{v!r}'
                    except TaskError:
                        got = 'err'
                elif kind == 'exception':
                    v = objs[arg - 1].exception()
                    got = 'none' if v is None else 'exc' if isinstance(v, TaskError) else f'value:{v!r}'
                else:
                    return {'id': item['id'], 'status': 'machinery', 'detail': f'unknown action {a}'}
            except concurrent.futures.CancelledError:
                got = 'CancelledError'
            except concurrent.futures.TimeoutError:
                got = 'TimeoutError'
            except KeyError:
                got = 'KeyError'
            if got != want:
                return bad('return-value', action=kind, act=a, real=got)
            # the executor picks up the next queued task by itself: wait until it has
            n = _n_started(st)
            if not _wait(lambda: len(started) >= n):
                return bad('task-not-started', action=kind, act=a, started=len(started), expected=n)
            exp = _expected(st)
            # done-callbacks run in the worker thread right after the future's waiters are released
            if not _wait(lambda: _observe(bt, objs) == exp, 2.0):
                return bad('state', action=kind, act=a, real=_observe(bt, objs), spec=exp)
            if len(started) != n:
                return bad('extra-invocation', action=kind, act=a, started=len(started), expected=n)
            steps += 1
        return {'id': item['id'], 'status': 'ok', 'steps': steps}
    finally:
        # let everything finish before the task objects go away (Task.__del__ cancels and waits)
        for _ in range(200):
            for me in list(started):
                me['gate'].set()
            if all(o.future.done() for o in objs):
                break
            time.sleep(0.005)
        ex.shutdown(wait=True, cancel_futures=True)


def run_job(job):
    res = []
    for item in job['items']:
        try:
            res.append(replay(item))
        except Exception as e:  # noqa: BLE001
            import traceback
            res.append({'id': item['id'], 'status': 'violation', 'steps': 0,
                        'sig': {'what': 'unexpected-exception', 'action': type(e).__name__},
                        'detail': {'exc': repr(e), 'tb': traceback.format_exc()[-1500:]}})
    return {'results': res, 'n_exec': len(res)}
