"""Observation wrappers shared by the stream binders (installed in the harness process only)."""
from __future__ import annotations

_done = set()


class ElemError(Exception):
    def __init__(self, i, site='call'):
        super().__init__(i, site)
        self.i = i
        self.site = site


class SrcError(Exception):
    pass


class SubmitError(Exception):
    """raised by the submission function itself (`func` of fifo_stream / async_fifo_stream) for one element"""


def unpp(x):
    """harness preprocessors TRANSFORM the element (the documented "extract part of the element" use): x -> ('pp', x)"""
    return x[1] if isinstance(x, tuple) and len(x) == 2 and x[0] == 'pp' else x


def fid(fut):
    i = getattr(fut, '_vi', None)
    if i is None:
        e = getattr(fut, '_exception', None)
        i = getattr(e, 'i', 0)
    return i


def classify(item):
    import concurrent.futures
    from mpservice.streamer import _streamer
    if item is None:
        return {'t': 'end', 'x': 0, 'f': 0}
    if isinstance(item, BaseException):
        return {'t': 'exc', 'x': 0, 'f': 0}
    if isinstance(item, str):
        if item == _streamer.FINISHED:
            return {'t': 'fin', 'x': 0, 'f': 0}
        if item == _streamer.STOPPED:
            return {'t': 'stopped', 'x': 0, 'f': 0}
    if isinstance(item, tuple) and len(item) == 2 and isinstance(item[1], concurrent.futures.Future):
        # (an element that is not the original int - e.g. the preprocessor's output queued in its place - becomes -1: the
        # model never has it, and TLC would not compare an int with a tuple)
        return {'t': 'item', 'x': item[0] if isinstance(item[0], int) else -1, 'f': fid(item[1])}
    if isinstance(item, int):
        return {'t': 'item', 'x': item, 'f': 0}
    return {'t': 'other', 'x': 0, 'f': 0}


def install_singlelane_wrappers():
    if 'sl' in _done:
        return
    _done.add('sl')
    from mbt import detsched
    from mpservice import _queues

    # Events are logged at the very moment the deque changes (inside `append` / `popleft`, mutex held): `SingleLane.get`
    # and `put` still call `notify()` - whose `_is_owned()` try-lock is a scheduling point - between the change and their
    # return, and the other side reads `empty()` / `full()` / `qsize()` lock-free.
    import collections

    class LogDeque(collections.deque):
        def append(self, item):
            collections.deque.append(self, item)
            if detsched.current() is not None:
                detsched.emit('Put', qlen=len(self), **classify(item))

        def popleft(self):
            z = collections.deque.popleft(self)
            if detsched.current() is not None:
                detsched.emit('Get', qlen=len(self), **classify(z))
            return z

    orig_init = _queues.SingleLane.__init__

    def init(self, *a, **k):
        orig_init(self, *a, **k)
        # (keep whatever bound the class gave its deque)
        self._queue = LogDeque(self._queue, getattr(self._queue, 'maxlen', None))

    _queues.SingleLane.__init__ = init

    # lock-free reads of shared state (`empty()`, `full()`, `qsize()`): a scheduling point right AFTER the value was read,
    # so that check-then-act sequences built on them can be interleaved with the other side
    for nm in ('empty', 'full', 'qsize'):
        orig = getattr(_queues.SingleLane, nm)

        def read(self, _o=orig):
            v = _o(self)
            detsched.checkpoint('lockfree-read')
            return v

        setattr(_queues.SingleLane, nm, read)


def install_future_wrappers():
    if 'fut' in _done:
        return
    _done.add('fut')
    import concurrent.futures
    from mbt import detsched
    import mpservice.concurrent.futures as mcf

    F = concurrent.futures.Future
    orig_result = F.result
    orig_cancel = F.cancel

    def result(self, timeout=None):
        i = fid(self)
        try:
            y = orig_result(self, timeout)
        except ElemError:
            if i and detsched.current() is not None:
                detsched.emit('Await', f=i, kind='err')
            raise
        if i and detsched.current() is not None:
            detsched.emit('Await', f=i, kind='ok')
        return y

    def cancel(self):
        i = fid(self)
        did = orig_cancel(self)
        if i and detsched.current() is not None:
            detsched.emit('Cancel', f=i, did=bool(did))
        return did

    F.result = result
    F.cancel = cancel

    orig_submit = mcf.ThreadPoolExecutor.submit

    def submit(self, fn, /, *args, **kwargs):
        tagged = bool(args) and isinstance(unpp(args[0]), int) and detsched.current() is not None \
            and getattr(fn, '_verif_work', False)
        if tagged:
            # logged BEFORE the real submission: a pool worker may enter the function before submit() returns
            detsched.emit('Submit', i=unpp(args[0]))
        fut = orig_submit(self, fn, *args, **kwargs)
        if tagged:
            fut._vi = unpp(args[0])
        return fut

    mcf.ThreadPoolExecutor.submit = submit


def strip(events):
    return [{k: v for k, v in e.items() if k not in ('seq', 'th', 'alive')} for e in events]
