"""Binder for spec/FifoStreamObsTrace.tla: the REAL Parmapper / fifo_stream with a PROCESS executor (real worker processes, OS
scheduling, no detsched).  Only the consumer thread's own events are logged - their order is exact because they come from one
thread - plus shared-memory call counters read after the executor has gone.  Per-element durations force later elements to
finish before earlier ones."""
from __future__ import annotations

import random
import threading
import time

from .common import ElemError, SrcError, unpp

U = 0.03
HANG_S = 90.0

_shared = None


def _init(counts, running, maxrun, lock):
    global _shared
    _shared = (counts, running, maxrun, lock)


def work(x, *, durs, fail, retobj=()):
    x = unpp(x)
    counts, running, maxrun, lock = _shared
    with lock:
        counts[x] += 1
        running.value += 1
        if running.value > maxrun.value:
            maxrun.value = running.value
    try:
        time.sleep(durs[x] * U)
        if x in fail:
            raise ElemError(x)
        if x in retobj:
            return ElemError(x, 'returned')     # an exception object RETURNED as the result
        return ('r', x)
    finally:
        with lock:
            running.value -= 1


def gen_scenarios(rnd: random.Random, count, max_n=4):
    out = []
    for _ in range(count):
        n = rnd.randint(0, max_n)
        conc = rnd.randint(1, 2)
        variant = rnd.choice(['parmap', 'parmap', 'fifo'])
        cap = 2 * conc if variant == 'parmap' else rnd.randint(1, 2)
        idx = list(range(1, n + 1))
        rnd.shuffle(idx)
        nf = rnd.choice([0, 0, 1, 1, 2])
        npf = rnd.choice([0, 0, 0, 1])
        fail = sorted(idx[:nf])
        prefail = sorted(idx[nf:nf + npf])
        srcfail = rnd.choice([0, 0, 0] + list(range(1, n + 2)))
        brk = rnd.choice([None, None] + list(range(1, n + 1))) if n else None
        okidx = [i for i in range(1, n + 1) if i not in fail and i not in prefail]
        retobj = sorted(rnd.sample(okidx, min(len(okidx), rnd.choice([0, 0, 1])))) if okidx else []
        out.append({'n': n, 'cap': cap, 'conc': conc, 'retexc': rnd.random() < 0.5, 'fail': fail, 'prefail': prefail,
                    'retobj': retobj,
                    'srcfail': srcfail, 'srcbase': False, 'maybreak': brk is not None, 'mode': 'sync', 'variant': variant,
                    'retx': rnd.random() < 0.6, 'break_at': brk, 'usepre': bool(prefail) or rnd.random() < 0.3,
                    # durations in units: early elements slow, later ones fast = completion order inverted
                    'durs': [0] + [rnd.choice([0, 1, 3, 6]) for _ in range(n)]})
    return out


def header(sc):
    h = {k: sc[k] for k in ('n', 'cap', 'conc', 'retexc', 'fail', 'prefail', 'srcfail', 'srcbase', 'maybreak', 'mode')}
    h['subfail'] = 0
    return h


def _run_scenario(sc, ev):
    import multiprocessing

    from mpservice.concurrent.futures import ProcessPoolExecutor
    from mpservice.multiprocessing import MP_SPAWN_CTX
    from mpservice.streamer import Stream, fifo_stream

    n, fail, prefail = sc['n'], set(sc['fail']), set(sc['prefail'])
    srcfail = sc['srcfail']
    ctx = MP_SPAWN_CTX
    counts = ctx.Array('i', n + 2, lock=False)
    running = ctx.Value('i', 0, lock=False)
    maxrun = ctx.Value('i', 0, lock=False)
    lock = ctx.Lock()

    def src():
        for k in range(1, n + 1):
            if srcfail == k:
                raise SrcError('source fails')
            yield k
        if srcfail == n + 1:
            raise SrcError('source fails')

    def pre(x):
        if x in prefail:
            raise ElemError(x, 'pre')
        return ('pp', x)      # TRANSFORMING preprocessor

    retx, retexc, brk = sc['retx'], sc['retexc'], sc['break_at']
    usepre = sc.get('usepre') or bool(prefail)

    def classify_y(y):
        if isinstance(y, ElemError) and y.site == 'returned':
            return y.i, 'ok'
        if isinstance(y, ElemError):
            return y.i, 'err'
        if isinstance(y, tuple) and len(y) == 2 and y[0] == 'r':
            return y[1], 'ok'
        return -2, 'bad'

    def closed(kind, i):
        names = [t.name for t in threading.enumerate() if 'feeder' in t.name or t.name == 'parmapper']
        ev.append({'ev': 'Closed', 'k': kind, 'i': i, 'fa': bool(names)})

    def consume(gen):
        k = 0
        try:
            while True:
                ev.append({'ev': 'Next'})
                try:
                    v = next(gen)
                except StopIteration:
                    closed('none', 0)
                    break
                x, y = v if retx else (0, v)
                x = x if isinstance(x, int) else -1
                yi, kind = classify_y(y)
                ev.append({'ev': 'Yield', 'x': x, 'y': yi, 'kind': kind})
                k += 1
                if brk is not None and k == brk:
                    ev.append({'ev': 'Break'})
                    gen.close()
                    closed('none', 0)
                    break
        except ElemError as e:
            closed('err', e.i)
        except SrcError:
            closed('src', 0)

    kw = dict(durs=sc['durs'], fail=sorted(fail), retobj=sorted(sc.get('retobj') or []))
    if sc['variant'] == 'parmap':
        s = Stream(src())
        pk = {'preprocessor': pre} if usepre else {}
        s.parmap(work, executor='process', concurrency=sc['conc'], return_x=retx, return_exceptions=retexc,
                 executor_initializer=_init, executor_init_args=(counts, running, maxrun, lock), **pk, **kw)
        assert s.streamlets[-1]._fifo_capacity == sc['cap'], 'parmap capacity is not 2*concurrency'
        consume(iter(s))
    else:
        with ProcessPoolExecutor(sc['conc'], initializer=_init, initargs=(counts, running, maxrun, lock)) as ex:
            def func(x):
                return ex.submit(work, x, loud_exception=False, **kw)

            consume(fifo_stream(src(), func, capacity=sc['cap'], return_x=retx, return_exceptions=retexc,
                                preprocessor=pre if usepre else None))
    # the executor has been shut down (wait=True): no worker process may be left
    t0 = time.time()
    while multiprocessing.active_children() and time.time() - t0 < 10:
        time.sleep(0.02)
    ev.append({'ev': 'ExecShut', 'procs': len(multiprocessing.active_children())})
    ev.append({'ev': 'Calls', 'c': [counts[i] for i in range(1, n + 1)] + [0], 'maxconc': maxrun.value})


def run_job(job):
    traces, hangs, n_exec = [], [], 0
    for item in job['items']:
        sc = item['sc']
        ev, box = [], {}

        def target():
            try:
                _run_scenario(sc, ev)
            except BaseException as e:  # noqa: BLE001 - reported, not swallowed
                import traceback
                box['exc'] = ''.join(traceback.format_exception(type(e), e, e.__traceback__))[-3000:]

        th = threading.Thread(target=target, daemon=True, name='scenario')
        th.start()
        th.join(HANG_S)
        n_exec += 1
        rec = {'id': item['id'], 'p': header(sc), 'ev': list(ev), 'sc': sc}
        if th.is_alive():
            rec['hang'] = {'after_s': HANG_S, 'events_so_far': list(ev)[-10:]}
            hangs.append(rec)
            break       # the interpreter is wedged: the rest of this job is re-queued by the check
        if 'exc' in box:
            rec['hang'] = {'crash': box['exc']}
            hangs.append(rec)
            continue
        traces.append(rec)
    return {'traces': traces, 'hangs': hangs, 'n_exec': n_exec}
