"""Binder for spec/ManagedReg.tla: a REAL server process; several client threads (each has its own connection, hence its own
server thread) call a hosted method that returns `managed(obj)` without a typeid, for an unregistered class and for a class
registered with a callable.  Inside the server process `Server.create` can be slowed down at its entry (installed through a
hosted method; a delay is a legal schedule of the server threads) so that the calls of different clients overlap between the
registry look-up and the creation.  Clients log `Call` / `Ret` in one list under a lock (exact order of the client side); the
server's own steps are silent in the trace specification."""
from __future__ import annotations

import random
import threading
import time

try:
    from mpservice.multiprocessing.server_process import ServerProcess, managed
except Exception:  # noqa: BLE001   (module imported by the parent only for gen_scenarios)
    ServerProcess = None
    managed = None

CALL_S = 60.0


class Item:
    """not registered anywhere"""

    def __init__(self, v):
        self.v = v

    def get(self):
        return self.v


class RegItem:
    """registered with a callable under its own name: managed() has to make up 'ManagedRegitem'"""

    def __init__(self, v=0):
        self.v = v

    def get(self):
        return self.v


class Maker:
    def make(self, cls, v):
        return managed(Item(v) if cls == 'Item' else RegItem(v))

    def slow_create(self, ms):
        """runs in the server process: every Server.create on behalf of managed() starts `ms` later"""
        from mpservice.multiprocessing import server_process as sp
        if getattr(sp.Server, '_verif_orig_create', None) is None:
            sp.Server._verif_orig_create = sp.Server.create
        orig = sp.Server._verif_orig_create

        def create(self, c, typeid, /, *args, **kwds):
            if c is None and ms:
                time.sleep(ms / 1000.0)
            return orig(self, c, typeid, *args, **kwds)

        sp.Server.create = create
        return ms


if ServerProcess is not None:
    for _name, _cls in (('VerifMaker', Maker), ('RegItem', RegItem)):
        try:
            ServerProcess.register(_name, _cls)
        except ValueError:
            pass


def gen_scenarios(rnd: random.Random, count):
    out = []
    for j in range(count):
        nt = 2 + (j % 2)
        out.append({'nt': nt, 'ms': [25, 0, 40][j % 3],
                    'calls': [[[rnd.choice(['Item', 'RegItem', 'Item']) if j % 4 else 'Item', rnd.choice([1, 2])]
                               for _ in range(2)] for _ in range(nt)],
                    # stagger (ms) of each thread's first call: 0 = all at once
                    'stagger': [rnd.choice([0, 0, 5, 12]) for _ in range(nt)]})
    return out


def run_item(item):
    sc = item['sc']
    evs, lock = [], threading.Lock()

    def log(**e):
        with lock:
            evs.append(e)

    server = ServerProcess()
    server.start()
    hang = []
    try:
        maker = server.VerifMaker()
        maker.slow_create(sc['ms'])
        barrier = threading.Barrier(sc['nt'])

        def client(t):
            try:
                barrier.wait(30)
            except threading.BrokenBarrierError:
                pass
            if sc['stagger'][t - 1]:
                time.sleep(sc['stagger'][t - 1] / 1000.0)
            for cls, v in sc['calls'][t - 1]:
                log(ev='Call', t=t, c=cls, v=v)
                try:
                    p = maker.make(cls, v)
                    got = p.get()
                    del p
                except BaseException as e:  # noqa: BLE001
                    log(ev='Ret', t=t, ok=False, got=0, exc=repr(e)[-300:])
                    continue
                log(ev='Ret', t=t, ok=True, got=got if isinstance(got, int) else -1)

        ths = [threading.Thread(target=client, args=(t,), daemon=True) for t in range(1, sc['nt'] + 1)]
        for th in ths:
            th.start()
        for th in ths:
            th.join(CALL_S)
            if th.is_alive():
                hang.append(th.name)
        del maker
    finally:
        try:
            server.shutdown()
        except Exception:  # noqa: BLE001
            pass
    return {'id': item['id'], 'p': {'nt': sc['nt']}, 'nt': sc['nt'], 'ev': evs, 'sc': sc, 'hang': hang}


def run_job(job):
    traces, hangs = [], []
    for item in job['items']:
        r = run_item(item)
        (hangs if r['hang'] else traces).append(r)
    return {'traces': traces, 'hangs': hangs, 'n_exec': len(job['items'])}
