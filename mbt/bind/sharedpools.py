"""Binder for spec/SharedPools.tla (beyond the listed properties): TLC behaviours replayed on the REAL
mpservice.concurrent.futures.get_shared_thread_pool registry.  Every model reference is one strong reference held by the
replay (the registry's values are weak); after every call: which executor came back (identity), ValueError, and the whole
registry (name -> which executor) plus every executor's `_max_workers` and shutdown flag are compared with the model."""
from __future__ import annotations

import gc
import weakref


def replay(item):
    from mpservice.concurrent import futures as F
    beh = item['beh']
    prefix = f'verif-{item["id"]}-'
    wrefs = []        # executor index (model) -> weakref
    held = {}         # executor index -> list of strong references (one per model reference)
    default_mw = None
    steps = 0

    def bad(what, **kw):
        return {'id': item['id'], 'status': 'violation', 'steps': steps, 'sig': {'what': what}, 'detail': kw}

    def index_of(obj):
        return next((k + 1 for k, w in enumerate(wrefs) if w() is obj), None)

    try:
        for name, st in beh[1:]:
            a = st['act']
            if a['name'] == 'get':
                try:
                    ex = F.get_shared_thread_pool(prefix + a['n'], a['m'] or None)
                    k = index_of(ex)
                    if k is None:
                        wrefs.append(weakref.ref(ex))
                        k = len(wrefs)
                    held.setdefault(k, []).append(ex)
                    got = str(k)
                    del ex
                except ValueError:
                    got = 'ValueError'
                if got != a['ret']:
                    return bad('return-value', act=a, real=got)
            elif a['name'] == 'drop':
                held[a['o']].pop()
                gc.collect()
            elif a['name'] == 'shutdown':
                held[a['o']][0].shutdown(wait=False)
            else:
                return {'id': item['id'], 'status': 'machinery', 'detail': f'unknown action {a}'}
            # observation
            real_reg = {}
            for nm, ex in list(F._global_thread_pools_.items()):
                if nm.startswith(prefix):
                    real_reg[nm[len(prefix):]] = index_of(ex)
                del ex
            spec_reg = {n: o for n, o in st['reg'].items() if o != 0}
            if real_reg != spec_reg:
                return bad('registry', act=a, real=real_reg, spec=spec_reg)
            for k, o in enumerate(st['objs'], 1):
                ex = wrefs[k - 1]()
                if (ex is not None) != (o['refs'] > 0):
                    return bad('lifetime', act=a, executor=k, alive=ex is not None, refs=o['refs'])
                if ex is not None:
                    if o['mw'] == 'def':
                        default_mw = default_mw or ex._max_workers
                        mw_ok = ex._max_workers == default_mw
                    else:
                        mw_ok = ex._max_workers == int(o['mw'])
                    if not mw_ok or bool(ex._shutdown) != o['shut']:
                        return bad('executor-state', act=a, executor=k, max_workers=ex._max_workers, shutdown=ex._shutdown,
                                   spec=o)
                del ex
            steps += 1
        return {'id': item['id'], 'status': 'ok', 'steps': steps}
    finally:
        for refs in held.values():
            for ex in refs:
                try:
                    ex.shutdown(wait=False)
                except Exception:  # noqa: BLE001
                    pass
        held.clear()
        gc.collect()


def run_job(job):
    res = []
    for item in job['items']:
        try:
            res.append(replay(item))
        except Exception as e:  # noqa: BLE001
            import traceback
            res.append({'id': item['id'], 'status': 'violation', 'steps': 0, 'sig': {'what': 'unexpected-exception'},
                        'detail': {'exc': repr(e), 'tb': traceback.format_exc()[-1500:]}})
    return {'results': res, 'n_exec': len(res)}
