"""Binder for spec/ServerLifecycle.tla on THREAD servlet trees under detsched: enter (a worker at any position of a compound
tree may fail in __init__), a workload with failing / timed-out / abandoned requests, exit, re-enter."""
from __future__ import annotations

import random

from .common import ElemError, strip

U = 0.01


class InitFailure(Exception):
    pass


def gen_scenarios(rnd: random.Random, count):
    # corners: one worker per stage, nothing fails at start, work still pending in every stage at exit: the ledger must be
    # empty after exit (Exited.single => backlog = 0)
    out = [{'topo': t, 'n1': 1, 'n2': 1, 'total': 1 if t == 'single' else 2, 'fail_at': 0, 'ab': ab, 'failfast': ff}
           for t, ab, ff in (('seq', 5, False), ('seq', 2, True), ('ens', 5, False), ('ens', 5, True), ('switch', 5, False),
                             ('single', 5, False))]
    for _ in range(count):
        topo = rnd.choice(['single', 'seq', 'ens', 'switch'])
        n1, n2 = rnd.choice([1, 2, 3]), rnd.choice([1, 2])
        total = n1 if topo == 'single' else n1 + n2
        out.append({'topo': topo, 'n1': n1, 'n2': n2, 'total': total,
                    'fail_at': rnd.choice([0, 0] + list(range(1, total + 1))),
                    'ab': rnd.choice([0, 2, 5]), 'failfast': rnd.random() < 0.5})
    return out


def header(sc):
    return {'nwk': sc['total'], 'failAt': sc['fail_at'], 'ab': min(sc['ab'], 3), 'rs': 1}


def _make_scenario(sc):
    import threading
    import time
    from mbt import detsched
    from mpservice.mpserver import (EnsembleServlet, SequentialServlet, Server, SwitchServlet, ThreadServlet, Worker)
    from mpservice._common import TimeoutError as MpTimeout

    state = {'cycle': 1, 'count': 0}

    class LW(Worker):
        def __init__(self, **kwargs):
            super().__init__(**kwargs)
            state['count'] += 1
            idx = state['count']
            if state['cycle'] == 1 and idx == sc['fail_at']:
                detsched.emit('InitFail', i=idx)
                raise InitFailure(f'worker {idx} refuses to start')
            detsched.emit('InitOk', i=idx)

        def call(self, x):
            if isinstance(x, tuple) and x[0] == 'fail':
                raise ElemError(1)
            if isinstance(x, tuple) and x[0] == 'slow':
                time.sleep(5 * U)
            return x

    def build():
        n1, n2 = sc['n1'], sc['n2']
        if sc['topo'] == 'single':
            return ThreadServlet(LW, num_threads=n1)
        if sc['topo'] == 'seq':
            return SequentialServlet(ThreadServlet(LW, num_threads=n1), ThreadServlet(LW, num_threads=n2))
        if sc['topo'] == 'ens':
            return EnsembleServlet(ThreadServlet(LW, num_threads=n1), ThreadServlet(LW, num_threads=n2),
                                   fail_fast=sc['failfast'])

        class Sw(SwitchServlet):
            def switch(self, x):
                return 0 if (x if isinstance(x, int) else 0) % 2 == 0 else 1

        return Sw(ThreadServlet(LW, num_threads=n1), ThreadServlet(LW, num_threads=n2))

    def root():
        sched = detsched.current()

        def leftover():
            return [t.name for t in sched.alive() if t is not sched.root]

        server = Server(build(), capacity=8)
        for cycle in (1, 2):
            state['cycle'], state['count'] = cycle, 0
            try:
                server.__enter__()
            except InitFailure:
                # give stopping threads the chance to finish (virtual time)
                time.sleep(1.0)
                names = leftover()
                detsched.emit('EnterFailed', procs=len(names), threads=0, names=names)
                return
            detsched.emit('Entered', alive=sum(1 for w in server.servlet.workers if w.is_alive()))
            server.call(1, timeout=1000)
            try:
                server.call(('fail', 1), timeout=1000)
            except Exception:
                pass
            try:
                server.call(('slow', 2), timeout=2 * U)
            except MpTimeout:
                pass
            if sc['ab']:
                it = server.stream(iter(range(10, 10 + sc['ab'] + 1)), timeout=1000)
                next(it)
                it.close()
            server.__exit__(None, None, None)
            names = leftover()
            detsched.emit('Exited', procs=len(names), threads=0, names=names, backlog=server.backlog,
                          single=(sc['n1'] == 1 and (sc['topo'] == 'single' or sc['n2'] == 1)))
            if cycle == 1:
                detsched.emit('Reenter')

    return root


def run_job(job):
    from mbt import detsched
    traces, hangs, n_exec = [], [], 0
    for item in job['items']:
        sc, seed, strat = item['sc'], item['seed'], item.get('strategy', 'random')
        if strat == 'pct':
            st = detsched.PCTStrategy(seed, depth=3 + seed % 4, est_steps=3000, fire=0.2)
        else:
            st = detsched.RandomStrategy(seed, stay=0.4 + 0.5 * ((seed * 7919) % 10) / 10.0, fire=0.25)
        res = detsched.run(_make_scenario(sc), st, max_steps=600000, stall_timeout=120, lag=0.02, max_idle_vtime=3000.0)
        n_exec += 1
        evs = [{k: v for k, v in e.items() if k not in ('seq', 'th')} for e in res.trace
               if e['ev'] in ('Entered', 'EnterFailed', 'Exited', 'Reenter')]
        for e in evs:
            e.pop('names', None)
        rec = {'id': item['id'], 'p': header(sc), 'ev': evs, 'sc': sc, 'seed': seed, 'strategy': strat,
               'status': res.status, 'full': strip(res.trace)[-40:]}
        if res.status != 'ok' or res.exc is not None or res.thread_errors:
            rec.update(detail=res.detail, waitmap=res.waitmap, exc=repr(res.exc) if res.exc is not None else None,
                       leftover=res.leftover, thread_errors=res.thread_errors)
            hangs.append(rec)
            if len(hangs) >= 25:
                break
        else:
            traces.append(rec)
    return {'traces': traces, 'hangs': hangs, 'n_exec': n_exec}
