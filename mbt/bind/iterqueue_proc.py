"""Binder for spec/IterableQueueProcTrace.tla: the REAL IterableQueue over multiprocessing queues, every supplier and every
consumer in its own PROCESS (spawn), several rounds separated by renew().  No detsched (OS scheduling; small seeded pauses
vary the interleavings).  Every process logs its own event sequence; TLC searches for an interleaving."""
from __future__ import annotations

import random
import threading
import time

HANG_S = 120.0
STEP_S = 60.0


def gen_scenarios(rnd: random.Random, count):
    out = []
    # a fixed set of configurations (they are CONSTANTS of the specification: one TLC run per configuration)
    configs = [(1, 2, 2, 2, 0), (2, 2, 2, 2, 1), (2, 1, 3, 2, 0), (2, 3, 1, 1, 2), (2, 2, 3, 1, 0), (1, 3, 1, 2, 2),
               (2, 2, 0, 2, 0), (2, 2, 1, 2, 2), (1, 1, 2, 3, 0), (2, 1, 1, 3, 1)]
    for j in range(count):
        m, nc, k, rounds, qb = configs[j % len(configs)]
        # who calls renew() between the rounds: the creating process, or consumer 1's process - on ITS copy of the queue
        # object, which arrived there by pickling - when asked to, or ('self', single consumer only) consumer 1 on its own,
        # the moment its iteration has ended ("the consumer calls renew upon finishing iteration"), while the tokens it has
        # just moved between the helper queues are still on their way: in that variant the helper queues of the consumer
        # process deliver with a latency of 30 ms (a multiprocessing queue delivers through a background thread and promises
        # no speed; `full()` is decided at once by the queue's semaphore, `empty()` and `get()` by what has arrived)
        if rounds > 1 and nc == 1:
            renewer = ('self', 'main', 'c1')[(j // len(configs)) % 3]
        else:
            renewer = ('main', 'c1')[(j // len(configs)) % 2] if rounds > 1 else 'main'
        out.append({'m': m, 'nc': nc, 'k': k, 'rounds': rounds, 'qbound': qb,
                    'renewer': renewer, 'slow_ms': 30 if renewer == 'self' else 0,
                    # pauses (ms) before each operation of each party: varies who sees the bottom first
                    'pause': {f'{role}{n}': [rnd.choice([0, 0, 1, 3, 8]) for _ in range(8)]
                              for role, cnt in (('s', m), ('c', nc)) for n in range(1, cnt + 1)}})
    return out


def header(sc):
    return {k: sc[k] for k in ('m', 'nc', 'k', 'rounds', 'qbound')}


def _pause(sc, who, j):
    ms = sc['pause'][who][j % 8]
    if ms:
        time.sleep(ms / 1000.0)


def supplier_main(iq, s, sc, go, res_q):
    evs = []
    try:
        for r in range(1, sc['rounds'] + 1):
            if not go[r - 1].wait(STEP_S):
                raise RuntimeError(f'round {r} never started')
            for k in range(1, sc['k'] + 1):
                _pause(sc, f's{s}', k + r)
                iq.put((s, k, r))
                evs.append({'ev': 'Put', 'n': s})
            _pause(sc, f's{s}', r)
            iq.put_end()
            evs.append({'ev': 'SupDone', 'n': s})
            res_q.put(('done', 's', s, r))
        res_q.put(('events', 's', s, evs))
    except BaseException as e:  # noqa: BLE001
        import traceback
        res_q.put(('error', 's', s, ''.join(traceback.format_exception(type(e), e, e.__traceback__))[-2000:], evs))


def _slow_delivery(q, ms):
    """the queue's feeder thread (of THIS process) takes `ms` longer to write each item into the pipe"""
    send = q._send_bytes

    def slow_send(*a, **k):
        time.sleep(ms / 1000.0)
        return send(*a, **k)

    q._send_bytes = slow_send


def consumer_main(iq, c, sc, go, res_q, renew_req=None, renew_ack=None):
    evs = []
    revs = []       # what renew() does on the helper queues (validated against RenewTokensTrace)
    try:
        if sc.get('slow_ms'):
            for nm in ('_used_lids', '_spare_lids', '_applied_lids'):
                _slow_delivery(getattr(iq, nm), sc['slow_ms'])
        if renew_req is not None:          # this process is the one that calls renew()
            used_get = iq._used_lids.get

            def logged_get(*a, **k):
                z = used_get(*a, **k)
                revs.append({'ev': 'GetUsed'})
                return z

            iq._used_lids.get = logged_get
        for r in range(1, sc['rounds'] + 1):
            if not go[r - 1].wait(STEP_S):
                raise RuntimeError(f'round {r} never started')
            j = 0
            _pause(sc, f'c{c}', r)
            for z in iq:
                s, k, rr = z
                evs.append({'ev': 'Got', 'n': c, 's': s, 'k': k, 'r': rr})
                j += 1
                _pause(sc, f'c{c}', j + r)
            evs.append({'ev': 'ConsDone', 'n': c})
            res_q.put(('done', 'c', c, r))
            if renew_req is not None and r < sc['rounds']:
                if sc.get('renewer') != 'self' and not renew_req[r - 1].wait(STEP_S):
                    raise RuntimeError(f'round {r}: the request to renew never came')
                revs.append({'ev': 'RenewStart'})
                iq.renew()
                revs.append({'ev': 'RenewEnd'})
                renew_ack[r - 1].set()
        res_q.put(('events', 'c', c, evs, revs))
    except BaseException as e:  # noqa: BLE001
        import traceback
        res_q.put(('error', 'c', c, ''.join(traceback.format_exception(type(e), e, e.__traceback__))[-2000:], evs, revs))


def _run_scenario(sc, box):
    import queue as stdq

    from mpservice.multiprocessing import Event, Process, Queue
    from mpservice.queue import IterableQueue

    m, nc, rounds = sc['m'], sc['nc'], sc['rounds']
    iq = IterableQueue(Queue(sc['qbound']), num_suppliers=m)
    go = [Event() for _ in range(rounds)]
    res_q = Queue()
    procs = []
    for s in range(1, m + 1):
        procs.append(Process(target=supplier_main, args=(iq, s, sc, go, res_q), name=f'sup{s}'))
    by_c1 = sc.get('renewer') in ('c1', 'self')
    renew_req = [Event() for _ in range(rounds)] if by_c1 else None
    renew_ack = [Event() for _ in range(rounds)] if by_c1 else None
    for c in range(1, nc + 1):
        extra = (renew_req, renew_ack) if (by_c1 and c == 1) else ()
        procs.append(Process(target=consumer_main, args=(iq, c, sc, go, res_q) + extra, name=f'con{c}'))
    box['procs'] = procs
    for p in procs:
        p.start()
    main_evs = []
    seqs = {}
    pending = []

    def recv(timeout):
        try:
            return res_q.get(timeout=timeout)
        except stdq.Empty:
            return None

    for r in range(1, rounds + 1):
        go[r - 1].set()
        done = 0
        while done < m + nc:
            msg = recv(STEP_S)
            if msg is None:
                box['hang'] = {'what': f'round {r}: only {done} of {m + nc} parties finished within {STEP_S}s'}
                return
            if msg[0] == 'error':
                box['crash'] = {'who': f'{msg[1]}{msg[2]}', 'traceback': msg[3], 'events': msg[4]}
                if len(msg) > 5 and msg[5]:
                    box['renew_ev'] = msg[5]
                return
            if msg[0] == 'done':
                done += 1
            else:
                pending.append(msg)
        if r < rounds:
            if by_c1:
                renew_req[r - 1].set()
                if not renew_ack[r - 1].wait(STEP_S):
                    box['hang'] = {'what': f'round {r}: renew() in consumer 1 did not return within {STEP_S}s'}
                    return
            else:
                iq.renew()
            main_evs.append({'ev': 'Renewed'})
    got = len([x for x in pending if x[0] == 'events'])
    for msg in pending:
        seqs[(msg[1], msg[2])] = msg[3]
        if len(msg) > 4 and msg[4]:
            box['renew_ev'] = msg[4]
    while got < m + nc:
        msg = recv(STEP_S)
        if msg is None:
            box['hang'] = {'what': 'event lists not delivered'}
            return
        if msg[0] == 'error':
            box['crash'] = {'who': f'{msg[1]}{msg[2]}', 'traceback': msg[3], 'events': msg[4]}
            if len(msg) > 5 and msg[5]:
                box['renew_ev'] = msg[5]
            return
        if msg[0] == 'events':
            seqs[(msg[1], msg[2])] = msg[3]
            if len(msg) > 4 and msg[4]:
                box['renew_ev'] = msg[4]
            got += 1
    for p in procs:
        p.join(STEP_S)
        if p.is_alive():
            box['hang'] = {'what': f'process {p.name} does not exit'}
            return
    box['seqs'] = [seqs[('s', s)] for s in range(1, m + 1)] + [seqs[('c', c)] for c in range(1, nc + 1)] + [main_evs]


def run_job(job):
    traces, hangs, n_exec, renew_traces = [], [], 0, []
    for item in job['items']:
        sc = item['sc']
        box = {}

        def target():
            try:
                _run_scenario(sc, box)
            except BaseException as e:  # noqa: BLE001 - reported, not swallowed
                import traceback
                box['crash'] = {'who': 'main', 'traceback': ''.join(traceback.format_exception(type(e), e, e.__traceback__))[-3000:]}

        th = threading.Thread(target=target, daemon=True, name='scenario')
        th.start()
        th.join(HANG_S)
        n_exec += 1
        rec = {'id': item['id'], 'sc': sc}
        if th.is_alive() or 'hang' in box or 'crash' in box:
            rec['hang'] = box.get('hang') or box.get('crash') or {'what': f'scenario still running after {HANG_S}s'}
            rec['kind'] = 'crash' if 'crash' in box else 'hang'
            hangs.append(rec)
            if box.get('renew_ev'):       # what renew() did before the crash is validated all the same
                renew_traces.append({'id': item['id'], 'p': {'m': sc['m'], 'rounds': sc['rounds']}, 'ev': box['renew_ev'], 'sc': sc})
            for p in box.get('procs', []):
                try:
                    if p.is_alive():
                        p.kill()
                except Exception:  # noqa: BLE001
                    pass
            if th.is_alive():
                break
            continue
        seqs = box['seqs']
        rec['p'] = dict(header(sc), seqs=seqs)
        rec['ev'] = [e for s in seqs for e in s]
        traces.append(rec)
        if box.get('renew_ev'):
            renew_traces.append({'id': item['id'], 'p': {'m': sc['m'], 'rounds': sc['rounds']}, 'ev': box['renew_ev'], 'sc': sc})
    return {'traces': traces, 'hangs': hangs, 'n_exec': n_exec, 'renew_traces': renew_traces}
