"""Binder for spec/SingleLane.tla: the REAL mpservice._queues.SingleLane with one writer and one reader thread under detsched,
LINE MODE on _queues.py (a scheduling point before every source line of put / get, and at every lock operation).

Observation (installed on the one queue object of the scenario, nothing in /repo is edited):
  * the mutex is replaced by a logging proxy around the real lock (`Lock` after the acquire, `Unlock` before the release),
  * the two conditions by logging subclasses of threading.Condition over that proxy (`Wait`, `Woke(gotit)`, `Notify(n released)`),
  * the deque by a logging subclass (`Put` / `Get` with the item and the new length, at the append / popleft itself),
  * the harness threads log every call (`Call(mode)`) and its outcome (`Ret`).
A run that ends with threads blocked for ever is not a verdict by itself: its trace ends with `Stuck(blocked threads)` and
TLC decides whether the model can be stuck there, too (a reader waiting on an empty queue whose writer has finished).
"""
from __future__ import annotations

import random

from .common import strip

MODES = ('block', 'timed', 'nowait')


def gen_scenarios(rnd: random.Random, count, max_ops=5):
    out = []
    for _ in range(count):
        nw, nr = rnd.randint(1, max_ops), rnd.randint(1, max_ops)
        style = rnd.random()
        if style < 0.35:
            # balanced all-blocking programs: must run to completion
            n = rnd.randint(1, max_ops)
            ops = [['block'] * n, ['block'] * n]
        elif style < 0.6:
            ops = [[rnd.choice(('block', 'timed')) for _ in range(nw)], [rnd.choice(('block', 'timed')) for _ in range(nr)]]
        else:
            ops = [[rnd.choice(MODES) for _ in range(nw)], [rnd.choice(MODES) for _ in range(nr)]]
        out.append({'cap': rnd.choice([0, 1, 1, 2, 2, 3]), 'ops': ops,
                    # close(): the owner of the queue closes it after that many scheduling points of its own (None: never)
                    'close_after': rnd.choice([None, None, None, 0, 3, 8, 15, 30, 60]),
                    'tmo': [rnd.choice([0, 0.01, 0.02, 0.5]) for _ in range(2)], 'line': rnd.random() < 0.8})
    return out


def header(sc):
    return {'cap': sc['cap'], 'ops': sc['ops'], 'mayclose': sc.get('close_after') is not None}


def _make_scenario(sc):
    import collections
    import threading
    from queue import Empty, Full
    from mbt import detsched
    from mpservice._queues import SingleLane

    tl = threading.local()

    def me():
        return getattr(tl, 't', 0)

    class LockProxy:
        def __init__(self, real):
            self.real = real

        def acquire(self, blocking=True, timeout=-1):
            ok = self.real.acquire(blocking, timeout)
            if ok and blocking:
                detsched.emit('Lock', t=me())
            elif ok:
                # a successful TRY-lock is Condition._is_owned() finding the mutex free: notify() called without the mutex
                detsched.emit('TryLockGotIt', t=me())
            return ok

        def release(self):
            detsched.emit('Unlock', t=me())
            self.real.release()

        def __enter__(self):
            self.acquire()
            return True

        def __exit__(self, *a):
            self.release()

        def locked(self):
            return self.real.locked()

    class LogCondition(threading.Condition):
        def wait(self, timeout=None):
            detsched.emit('Wait', t=me())
            g = threading.Condition.wait(self, timeout)
            detsched.emit('Woke', t=me(), gotit=bool(g))
            return g

        def notify(self, n=1):
            before = len(self._waiters)
            threading.Condition.notify(self, n)
            detsched.emit('Notify', t=me(), n=before - len(self._waiters))

    class LogDeque(collections.deque):
        def append(self, item):
            collections.deque.append(self, item)
            detsched.emit('Put', t=me(), qlen=len(self), w=item[0], n=item[1])

        def popleft(self):
            z = collections.deque.popleft(self)
            detsched.emit('Get', t=me(), qlen=len(self), w=z[0], n=z[1])
            return z

    def root():
        sl = SingleLane(sc['cap'])
        # the attributes the class is built from; if a restructured class no longer has them the binder cannot observe it
        for a in ('_mutex', '_not_empty', '_not_full', '_queue'):
            if not hasattr(sl, a):
                raise RuntimeError(f'binding broken: SingleLane has no attribute {a}')
        proxy = LockProxy(sl._mutex)
        sl._mutex = proxy
        sl._not_empty = LogCondition(proxy)
        sl._not_full = LogCondition(proxy)
        sl._queue = LogDeque(sl._queue, getattr(sl._queue, 'maxlen', None))    # keep whatever bound the class gave its deque

        def kw(t, mode):
            if mode == 'block':
                return {}
            if mode == 'nowait':
                return {'block': False}
            return {'timeout': sc['tmo'][t - 1]}

        def writer():
            tl.t = 1
            n = 1
            for mode in sc['ops'][0]:
                detsched.emit('Call', t=1, mode=mode)
                try:
                    sl.put((1, n), **kw(1, mode))
                except Full:
                    detsched.emit('Ret', t=1, ok=False, w=0, n=0)
                    continue
                except ValueError:          # the queue is closed
                    detsched.emit('Ret', t=1, ok=False, w=0, n=1)
                    continue
                detsched.emit('Ret', t=1, ok=True, w=1, n=n)
                n += 1

        def reader():
            tl.t = 2
            for mode in sc['ops'][1]:
                detsched.emit('Call', t=2, mode=mode)
                try:
                    z = sl.get(**kw(2, mode))
                except Empty:
                    detsched.emit('Ret', t=2, ok=False, w=0, n=0)
                    continue
                except ValueError:
                    detsched.emit('Ret', t=2, ok=False, w=0, n=1)
                    continue
                detsched.emit('Ret', t=2, ok=True, w=z[0], n=z[1])

        ths = [threading.Thread(target=writer, name='writer'), threading.Thread(target=reader, name='reader')]
        for t in ths:
            t.start()
        if sc.get('close_after') is not None:
            for _ in range(sc['close_after']):
                detsched.checkpoint('owner')
            sl.close()
            detsched.emit('Close')
        for t in ths:
            t.join()
        detsched.emit('AllDone', qlen=sl.qsize(), locked=bool(proxy.locked()))

    return root


def _strategy(detsched, strat, seed):
    if strat == 'pct':
        return detsched.PCTStrategy(seed, depth=2 + seed % 4, est_steps=300, fire=0.25)
    return detsched.RandomStrategy(seed, stay=0.3 + 0.6 * ((seed * 7919) % 10) / 10.0, fire=0.3)


def _record(item, sc, res, strat, seed):
    ev = strip(res.trace)
    rec = {'id': item['id'], 'p': header(sc), 'ev': ev, 'sc': sc, 'seed': seed, 'strategy': strat, 'status': res.status}
    crashed = res.exc is not None or bool(res.thread_errors) or res.status not in ('ok', 'deadlock')
    if res.status == 'deadlock' and not crashed:
        # who is blocked: decided by TLC against the model (TStuck)
        blocked = sorted({1 if 'writer' in k else 2 for k in res.waitmap if ('writer' in k or 'reader' in k)})
        ev.append({'ev': 'Stuck', 'blocked': blocked})
    if crashed:
        rec.update(detail=res.detail, waitmap=res.waitmap, exc=repr(res.exc) if res.exc is not None else None,
                   leftover=res.leftover, thread_errors=res.thread_errors)
    return rec, crashed


def run_job(job):
    from mbt import detsched
    traces, crashes, n_exec, dfs_runs = [], [], 0, 0
    for item in job['items']:
        sc = item['sc']
        lf = ('mpservice/_queues.py',) if sc.get('line') else ()
        if item.get('strategy') == 'dfs':
            # stateless exhaustive exploration of the schedule tree of the real code (preemption bound)
            d = detsched.DFSStrategy(preemption_bound=item.get('bound', 2), max_runs=item.get('max_runs', 4000))
            seen = set()
            while d.more():
                res = detsched.run(_make_scenario(sc), d, max_steps=100000, stall_timeout=120, max_idle_vtime=50.0,
                                   line_files=lf)
                d.runs += 1
                n_exec += 1
                dfs_runs += 1
                rec, crashed = _record(item, sc, res, 'dfs', d.runs)
                if crashed:
                    crashes.append(rec)
                    break
                key = repr(rec['ev'])
                if key not in seen and len(seen) < item.get('max_keep', 400):   # distinct event sequences only (capped; all runs are checked for crashes)
                    seen.add(key)
                    traces.append(rec)
            continue
        seed, strat = item['seed'], item.get('strategy', 'random')
        res = detsched.run(_make_scenario(sc), _strategy(detsched, strat, seed), max_steps=100000, stall_timeout=120,
                           lag=0.05, max_idle_vtime=50.0, line_files=lf)
        n_exec += 1
        rec, crashed = _record(item, sc, res, strat, seed)
        if crashed:
            crashes.append(rec)
            if len(crashes) >= 25:
                break
        else:
            traces.append(rec)
    return {'traces': traces, 'crashes': crashes, 'n_exec': n_exec, 'dfs_runs': dfs_runs}
