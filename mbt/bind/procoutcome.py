"""Binder for spec/ProcOutcome.tla: REAL mpservice.multiprocessing.Process / mpservice.threading.Thread objects.

One case = one worker whose target ends in a chosen way (kind), optionally a signal delivered while the child is parked
at a chosen phase, then every accessor called in a chosen order.  The child reports its phase over a pipe and parks:

  boot     while the process object is being unpickled in the child (before run())
  run      inside the target
  between  after the result was sent, while the error is being pickled (exception / exit-code object with a parking __reduce__)
  final    after run() returned (both messages sent), in a multiprocessing.util.Finalize with a high exit priority

Every accessor runs in a helper thread and is given `bound` seconds; not returning is a *suspected hang* which the check
re-tries in fresh processes before it counts.  Observations become the trace validated by ProcOutcomeTrace.tla.
"""
from __future__ import annotations

import json
import os
import signal
import sys
import threading
import time

KINDS = ('ret', 'raise', 'raiseX', 'exitNone', 'exit0', 'exitN', 'exitStr')
PHASES = ('boot', 'run', 'between', 'final')
SIGS = ('TERM', 'KILL', 'INT')
BETWEEN_KINDS = ('raise', 'exitStr')
PROC_ACCS = ('join', 'result', 'exception', 'done', 'exitcode', 'wait', 'as_completed')
THREAD_ACCS = ('join', 'result', 'exception', 'done', 'wait', 'as_completed')
EXIT_N = 3
EXIT_STR = 'bye from the target'
PARK_SECONDS = 300
# Every worker object stays referenced until the runner process ends: a Process collected by the cyclic GC runs its
# finalizer (which joins the logger thread) at an arbitrary point, e.g. inside another thread's start-up (seen to deadlock).
_KEEP = []


# ---- catalogue (a small stand-in for the C15 catalogue): both sides build the objects from the index ----------------------

class HarnessError(Exception):
    pass


class HarnessBase(BaseException):
    pass


class TwoArgError(Exception):
    """constructor signature differs from `cls(text)`"""

    def __init__(self, a, b):
        super().__init__(a, b)


class CodedError(Exception):
    """a validating constructor: given one string (a traceback text) it raises ValueError, not TypeError"""

    def __init__(self, code):
        self.code = int(code)
        super().__init__(code)


_KNOWN = {'alpha': 1, 'beta': 2}


class LookupNameError(Exception):
    """constructor raises KeyError for an unknown name"""

    def __init__(self, name):
        self.value = _KNOWN[name]
        super().__init__(name)


class Resp:
    def __init__(self, status):
        self.status = status

    def __eq__(self, other):
        return type(other) is Resp and other.status == self.status

    def __hash__(self):
        return hash(self.status)

    def __repr__(self):
        return f'Resp({self.status})'


class StatusError(Exception):
    """constructor raises AttributeError for anything without `.status`"""

    def __init__(self, resp):
        self.status = resp.status
        super().__init__(resp)


def make_value(vi):
    return [
        lambda: 42, lambda: 'text é', lambda: (1, 'a', 2.5), lambda: {'k': [1, 2, {'z': None}]},
        lambda: b'\x00\xff' * 10, lambda: list(range(2000)), lambda: frozenset({1, 2, 3}), lambda: 10 ** 30,
        lambda: 3.25, lambda: True, lambda: '', lambda: 'x' * 200000, lambda: [], lambda: 0,
    ][vi]()


N_VALUES = 14


def make_exc(ei):
    return [
        lambda: ValueError('bad', 3), lambda: KeyError('k'), lambda: HarnessError(1, 'two'),
        lambda: ZeroDivisionError('division by zero'), lambda: OSError(2, 'no such thing'), lambda: RuntimeError(),
        lambda: HarnessBase('b'), lambda: AssertionError('a'), lambda: StopIteration(5), lambda: TypeError('t'),
        lambda: ValueError('y' * 300000, 9),      # an outcome far beyond the 64 KiB of a pipe buffer
    ][ei]()


N_EXCS = 11


def make_excx(ei):
    import json as _json
    return [
        lambda: UnicodeDecodeError('utf-8', b'\xff', 0, 1, 'invalid start byte'),
        lambda: _json.JSONDecodeError('Expecting value', 'doc', 0),
        lambda: TwoArgError(1, 'b'),
        lambda: CodedError(404),
        lambda: LookupNameError('beta'),
        lambda: StatusError(Resp(503)),
    ][ei]()


N_EXCX = 6
_rot = [0]
_rotkw = [0]
_rotv = [0]
_rote = [0]


# ---- child side ---------------------------------------------------------------------------------------------------------

_CHILD = {'park': None, 'conn': None}


def _park(conn, ph):
    """report the phase and wait for the signal (TERM / KILL end the process here, INT raises KeyboardInterrupt here)"""
    conn.send(ph)
    time.sleep(PARK_SECONDS)


class _GateHandle:
    def __init__(self, conn):
        self.conn = conn


def _boot_gate(conn, park):
    if park:
        _park(conn, 'boot')
    return _GateHandle(conn)


class BootGate:
    """argument of the target; its unpickling in the child is the `boot` phase"""

    def __init__(self, conn, park):
        self.conn = conn
        self.park = park

    def __reduce__(self):
        return (_boot_gate, (self.conn, self.park))


def _maybe_park_between():
    if _CHILD['park'] == 'between':
        _CHILD['park'] = None
        _park(_CHILD['conn'], 'between')


class ParkErr(Exception):
    def __reduce__(self):
        _maybe_park_between()
        return (ParkErr, self.args)


class ParkStr(str):
    def __reduce__(self):
        _maybe_park_between()
        return (ParkStr, (str(self),))


def _raise_it(e):
    raise e


def _end(spec):
    kind = spec['kind']
    if kind == 'ret':
        return None if spec['vi'] < 0 else make_value(spec['vi'])
    if kind == 'raise':
        _raise_it(ParkErr(7, 'p') if spec.get('park') == 'between' else make_exc(spec['ei']))
    if kind == 'raiseX':
        _raise_it(make_excx(spec['ei']))
    if kind == 'exitNone':
        sys.exit()
    if kind == 'exit0':
        sys.exit(0)
    if kind == 'exitN':
        sys.exit(EXIT_N)
    if kind == 'exitStr':
        sys.exit(ParkStr(EXIT_STR) if spec.get('park') == 'between' else EXIT_STR)
    raise AssertionError(kind)


def child_target(gate, spec):
    import multiprocessing.util
    conn = gate.conn
    park = spec.get('park')
    _CHILD.update(conn=conn, park=park)
    if park == 'final':
        multiprocessing.util.Finalize(None, _park, args=(conn, 'final'), exitpriority=100)
    if park == 'run':
        _park(conn, 'run')
    return _end(spec)


def thread_target(spec):
    return _end(spec)


# ---- parent side --------------------------------------------------------------------------------------------------------

def _tb_text(e):
    c = e.__cause__
    if c is None:
        return ''
    tb = getattr(c, 'tb', None)
    if isinstance(tb, str):
        return tb
    return ' '.join(str(a) for a in c.args) or str(c)


def _expected_exc(sc):
    if sc['kind'] == 'raise':
        return ParkErr(7, 'p') if sc.get('phase') == 'between' else make_exc(sc['ei'])
    if sc['kind'] == 'raiseX':
        return make_excx(sc['ei'])
    return None


def ident_exc(e, sc):
    """name of the exception in the vocabulary of the spec; anything unexpected gets a name the spec does not know"""
    exp = _expected_exc(sc)
    tb = _tb_text(e)
    if exp is not None and type(e) is type(exp) and e.args == exp.args:
        if '_raise_it' in tb and type(e).__name__ in tb:
            return 'e' if sc['kind'] == 'raise' else 'eX'
        return 'e?no-traceback-text'
    if type(e) is KeyboardInterrupt:
        return 'KI' if '_park' in tb else 'KI?no-traceback-text'
    if type(e) is SystemExit:
        if type(e.code) is int and e.code == EXIT_N:
            return 'exit'
        if isinstance(e.code, str) and str(e.code) == EXIT_STR:
            return 'exitS'
        return f'exit?{e.code!r}'
    if isinstance(e, OSError) and type(e).__name__ != 'TimeoutError' and '_raise_it' not in tb:
        # OSError(errno, msg) picks the subclass that belongs to the errno (2 -> FileNotFoundError)
        return f'os{e.errno}'
    if type(e).__name__ == 'TimeoutError':
        return 'TimeoutError'
    if type(e) is AttributeError and "'NoneType' object" in str(e):
        return 'AttributeError'         # wait()/as_completed() found w._future_ still None
    return f'?{type(e).__name__}{e.args!r}'[:80]


def ident_val(v, sc):
    if v is None:
        return 'None'
    if sc['kind'] == 'ret' and sc['vi'] >= 0:
        exp = make_value(sc['vi'])
        if type(v) is type(exp) and v == exp:
            return 'v'
    if isinstance(v, BaseException):
        return ident_exc(v, sc)
    return f'v?{type(v).__name__}'


def _bounded(fn, bound):
    box = {}

    def run():
        try:
            box['out'] = ('ret', fn())
        except BaseException as e:  # noqa: BLE001 - whatever the accessor raises is the observation
            box['out'] = ('raise', e)

    th = threading.Thread(target=run, daemon=True, name='verif-accessor')
    th.start()
    th.join(bound)
    if th.is_alive():
        return None
    return box['out']


def _do_acc(w, acc, flavour):
    if acc == 'join':
        return w.join()
    if acc == 'result':
        return w.result()
    if acc == 'exception':
        return w.exception()
    if acc == 'done':
        return 'T' if w.done() else 'F'
    if acc == 'exitcode':
        c = w.exitcode
        return 'None' if c is None else str(c)
    if flavour == 'proc':
        from mpservice.multiprocessing import as_completed, wait
    else:
        from mpservice.threading import as_completed, wait
    if acc == 'wait':
        done, notdone = wait([w])
        return 'done' if (w in done and not notdone) else 'notdone'
    if acc == 'as_completed':
        got = list(as_completed([w]))
        return 'done' if got == [w] else 'notdone'
    raise AssertionError(acc)


def _acc_event(acc, out, sc):
    k, v = out
    if k == 'raise':
        x = ident_exc(v, sc)
    elif acc in ('done', 'exitcode', 'wait', 'as_completed'):
        x = v
    else:
        x = ident_val(v, sc)
    return {'ev': 'Acc', 'acc': acc, 'k': k, 'x': x}


def header(sc):
    return {'flavour': sc['flavour'], 'kind': sc['kind'],
            'val': 'None' if (sc['kind'] == 'ret' and sc['vi'] < 0) else 'v'}


def run_case(item, bound):
    sc = item['sc']
    ev = []
    rec = {'id': item['id'], 'p': header(sc), 'sc': sc, 'ev': ev, 'status': 'ok'}
    t0 = time.time()
    w = None
    pr = None
    try:
        if sc['flavour'] == 'proc':
            import multiprocessing
            from mpservice.multiprocessing import Process
            pr, cw = multiprocessing.get_context('spawn').Pipe(duplex=False)
            spec = {'kind': sc['kind'], 'vi': sc.get('vi', 0), 'ei': sc.get('ei', 0),
                    'park': sc['phase'] if sc['phase'] != 'none' else None}
            if not sc.get('viakw'):
                w = Process(target=child_target, args=(BootGate(cw, sc['phase'] == 'boot'), spec),
                            name=f'verif-case-{item["id"]}')
            else:
                # the arguments travel in a kwargs dict that the CALLER keeps alive (as a caller re-using one dict for several
                # processes does)
                kw = {'spec': spec}
                _KEEP.append(kw)
                w = Process(target=child_target, args=(BootGate(cw, sc['phase'] == 'boot'),), kwargs=kw,
                            name=f'verif-case-{item["id"]}')
            _KEEP.append(w)
            w.start()
            cw.close()
            if sc['phase'] != 'none':
                if not pr.poll(bound):
                    rec.update(status='nophase', detail=f'child did not report phase {sc["phase"]} within {bound}s')
                    return rec
                ph = pr.recv()
                ev.append({'ev': 'Phase', 'ph': ph})
                os.kill(w.pid, getattr(signal, 'SIG' + sc['sig']))
                ev.append({'ev': 'Kill', 'sig': sc['sig']})
        else:
            from mpservice.threading import Thread
            w = Thread(target=thread_target, args=({'kind': sc['kind'], 'vi': sc.get('vi', 0), 'ei': sc.get('ei', 0)},),
                       name=f'verif-case-{item["id"]}')
            w.start()
        for acc in sc['accs']:
            out = _bounded(lambda: _do_acc(w, acc, sc['flavour']), bound)
            if out is None:
                rec.update(status='hang', acc=acc, detail=f'{acc}() did not return within {bound}s')
                if sc['flavour'] == 'proc':
                    rec['exitcode_then'] = w.exitcode
                    rec['future_done'] = bool(w._future_.done())
                else:
                    rec['alive_then'] = bool(w.is_alive())
                    rec['future_done'] = bool(w._future_ is not None and w._future_.done())
                return rec
            ev.append(_acc_event(acc, out, sc))
        return rec
    finally:
        rec['wall'] = round(time.time() - t0, 3)
        try:
            if sc['flavour'] == 'proc' and w is not None and w.pid is not None and w.exitcode is None:
                os.kill(w.pid, signal.SIGKILL)
            if pr is not None:
                pr.close()
        except Exception:  # noqa: BLE001
            pass


def run_case_detsched(item):
    """Thread flavour under detsched: exact schedules (which of start()'s caller and the new thread runs first, where the
    thread is when an accessor is called); a hang is a detected deadlock, not a timeout."""
    from mbt import detsched
    from .common import strip
    sc = item['sc']
    seed = item.get('seed', 0)
    state = {'acc': None}

    def root():
        from mpservice.threading import Thread
        w = Thread(target=thread_target, args=({'kind': sc['kind'], 'vi': sc.get('vi', 0), 'ei': sc.get('ei', 0)},),
                   name=f'verif-case-{item["id"]}')
        w.start()
        for acc in sc['accs']:
            state['acc'] = acc
            try:
                out = ('ret', _do_acc(w, acc, 'thread'))
            except detsched.SchedAbort:
                raise
            except BaseException as e:  # noqa: BLE001
                out = ('raise', e)
            e = _acc_event(acc, out, sc)
            detsched.emit('Acc', acc=acc, k=e['k'], x=e['x'])

    st = detsched.RandomStrategy(seed, stay=0.2 + 0.7 * ((seed * 7919) % 10) / 10.0, fire=0.0)
    res = detsched.run(root, st, max_steps=200000, stall_timeout=120)
    ev = [e for e in strip(res.trace) if e.get('ev') == 'Acc']
    rec = {'id': item['id'], 'p': header(sc), 'sc': sc, 'ev': ev, 'status': 'ok', 'seed': seed, 'detsched': True}
    if res.status != 'ok' or res.exc is not None or res.thread_errors:
        rec.update(status='hang' if res.status in ('deadlock', 'livelock') else res.status, acc=state['acc'],
                   detail=f'{res.status}: {res.detail}', waitmap=res.waitmap,
                   exc=repr(res.exc) if res.exc is not None else None, thread_errors=res.thread_errors)
    return rec


def run_job(job):
    if job.get('detsched', True):
        traces, hangs = [], []
        for item in job['items']:
            rec = run_case_detsched(item)
            (traces if rec['status'] == 'ok' else hangs).append(rec)
        return {'traces': traces, 'hangs': hangs, 'skipped': [], 'n_exec': len(job['items'])}
    # children inherit an *ignored* SIGINT across exec (a background shell job has it ignored): then Python installs no
    # KeyboardInterrupt handler and the INT scenarios would mean something else.  A handled signal is reset to default.
    signal.signal(signal.SIGINT, signal.default_int_handler)
    bound = float(job.get('bound', 20.0))
    budget = int(job.get('hang_budget', 2))
    traces, hangs, skipped, n = [], [], [], 0
    for item in job['items']:
        if len(hangs) >= budget:
            skipped.append(item['id'])
            continue
        rec = run_case(item, bound)
        n += 1
        (traces if rec['status'] == 'ok' else hangs).append(rec)
    return {'traces': traces, 'hangs': hangs, 'skipped': skipped, 'n_exec': n}


# ---- scenario space -------------------------------------------------------------------------------------------------------

def kill_points(kind):
    """(phase, sig) pairs meaningful for a Process whose target ends in `kind`"""
    pts = [('none', 'none')]
    for ph in PHASES:
        if ph == 'between' and kind not in BETWEEN_KINDS:
            continue
        pts += [(ph, s) for s in SIGS]
    return pts


def scenario(rnd, flavour, kind, phase, sig, first):
    accs = list(PROC_ACCS if flavour == 'proc' else THREAD_ACCS)
    rest = [a for a in accs if a != first]
    rnd.shuffle(rest)
    order = [first] + rest
    # the probes once more at the end: after a blocking accessor has returned they must say "ended"
    order += ['done', 'exitcode'] if flavour == 'proc' else ['done']
    _rotkw[0] += 1
    sc = {'flavour': flavour, 'kind': kind, 'phase': phase, 'sig': sig, 'accs': order, 'vi': 0, 'ei': 0,
          'viakw': _rotkw[0] % 2 == 0}     # arguments passed in a kwargs dict that the caller keeps alive
    if kind == 'ret':
        _rotv[0] += 1
        sc['vi'] = (_rotv[0] * 4) % (N_VALUES + 1) - 1     # every value of the catalogue in turn (4 is coprime to 15), -1 = None
    elif kind == 'raise':
        _rote[0] += 1
        sc['ei'] = (_rote[0] * 3) % N_EXCS                 # every exception of the catalogue in turn (3 is coprime to 11)
    elif kind == 'raiseX':
        _rot[0] += 1
        sc['ei'] = _rot[0] % N_EXCX      # every class of the catalogue in turn
    return sc


def gen_scenarios(rnd, flavour, rounds, all_first=False):
    """the finite space ending kind x kill phase x signal x first accessor.  all_first: every first accessor for every
    (kind, phase, sig); otherwise the first accessor rotates through the space (`rounds` different rotations)."""
    out = []
    accs = PROC_ACCS if flavour == 'proc' else THREAD_ACCS
    k = 0
    for r in range(rounds):
        for kind in KINDS:
            for ph, sig in (kill_points(kind) if flavour == 'proc' else [('none', 'none')]):
                firsts = accs if all_first else [accs[(k + r * 3) % len(accs)]]
                k += 1
                for first in firsts:
                    out.append(scenario(rnd, flavour, kind, ph, sig, first))
    # outcomes far beyond the 64 KiB of a pipe buffer, in runs that are not killed: returned and raised, each first accessor
    # in turn
    big_v = next(i for i in range(N_VALUES) if isinstance(make_value(i), str) and len(make_value(i)) >= 100000)
    for r in range(rounds):
        for j, (kind, key, idx) in enumerate((('ret', 'vi', big_v), ('raise', 'ei', N_EXCS - 1))):
            sc = scenario(rnd, flavour, kind, 'none', 'none', accs[(r * 2 + j) % len(accs)])
            sc[key] = idx
            out.append(sc)
    return out


if __name__ == '__main__':
    # debugging aid:  python -m mbt.bind.procoutcome '<scenario json>'
    sys.path.insert(0, os.environ.get('VERIF_REPO_SRC', '/repo/src'))
    signal.signal(signal.SIGINT, signal.default_int_handler)
    print(json.dumps(run_case({'id': 1, 'sc': json.loads(sys.argv[1])}, float(os.environ.get('VERIF_BOUND', '20'))),
                     default=repr))
    sys.stdout.flush()
    os._exit(0)
