"""Worker classes for mbt/bind/lifecycle.py (module level, so that spawned worker processes can unpickle them)."""
from mpservice.mpserver import Worker


class InitFailure(Exception):
    pass


class LW(Worker):
    def __init__(self, *, fail_index=-1, res_size=10, **kwargs):
        super().__init__(**kwargs)
        if self.worker_index == fail_index:
            raise InitFailure(f'worker {self.worker_index} refuses to start')
        self.res_size = res_size

    def call(self, x):
        if isinstance(x, tuple) and x and x[0] == 'fail':
            raise ValueError(x)
        if isinstance(x, tuple) and x and x[0] == 'slow':
            import time
            time.sleep(0.5)
        return b'r' * self.res_size


class Tail(Worker):
    def call(self, x):
        return len(x) if isinstance(x, (bytes, str)) else x
