"""Binder for spec/ServletOutcomeTrace.tla: the REAL Server over servlet trees whose workers run in real PROCESSES (and mixed
process / thread trees), many concurrent callers plus one stream, OS scheduling.  Values carry provenance as in
mbt/bind/servletnet.py; what every caller received is decoded into the spec's value records and validated against the outcome
rules of ServletNet (`ExpectedOK`)."""
from __future__ import annotations

import random
import threading
import time

from .common import ElemError
from .servletnet import decode, req_of

try:
    from mpservice.mpserver import Worker
except ImportError:   # the check's parent process imports this module only for the generators
    Worker = object

U = 0.004
HANG_S = 120.0
TOPOS = ('single', 'seq', 'ens', 'switch')


class BatchError(ElemError):
    """failure of a batched call: carries the members of the batch out of the worker process"""

    def __init__(self, i, site, mates=()):
        Exception.__init__(self, i, site, tuple(mates))
        self.i, self.site, self.mates = i, site, tuple(mates)


class PW(Worker):
    def __init__(self, *, stage, fail, durs, batched, **kwargs):
        super().__init__(**kwargs)
        self.stage, self.fail, self.durs, self.batched = stage, set(fail), durs, batched

    def call(self, x):
        xs = x if self.batched else [x]
        reqs = [req_of(v) for v in xs]
        d = max(self.durs[r] for r in reqs)
        if d:
            time.sleep(d * U)
        bad = [r for r in reqs if r in self.fail]
        if bad:
            if self.batched:
                raise BatchError(bad[0], self.stage, reqs)
            raise ElemError(bad[0], self.stage)
        ys = [(self.stage, v) for v in xs]
        return ys if self.batched else ys[0]


class PWPre(PW):
    """the same worker with a strict per-element preprocess hook that rejects some requests"""

    def __init__(self, *, rejected, **kwargs):
        super().__init__(**kwargs)
        self.rejected = set(rejected)

    def preprocess(self, x):
        if not isinstance(x, tuple):
            raise TypeError(f'preprocess of stage {self.stage} was given {type(x).__name__}, not an input')
        r = req_of(x)
        if r in self.rejected:
            raise ElemError(r, 'P' + self.stage)
        return x


def gen_scenarios(rnd: random.Random, count, max_r=10):
    out = []
    for _ in range(count):
        topo = rnd.choice(TOPOS)
        nr = rnd.choice([6, 9])        # R is a CONSTANT of the specification: few values = few TLC runs
        stages = {'single': ['S1'], 'seq': ['S1', 'S2'], 'ens': ['A', 'B'], 'switch': ['A', 'B']}[topo]
        fail = {s: sorted(r for r in range(1, nr + 1) if rnd.random() < 0.2) for s in stages}
        pre = {s: (sorted(rnd.sample(range(1, nr + 1), rnd.randint(1, 2))) if rnd.random() < 0.3 else []) for s in stages}
        kinds = {s: rnd.choice(['proc', 'proc', 'thread']) for s in stages}
        if all(k == 'thread' for k in kinds.values()):
            kinds[stages[0]] = 'proc'
        stream = sorted(rnd.sample(range(1, nr + 1), rnd.randint(0, min(4, nr))))
        rnd.shuffle(stream)
        out.append({'topo': topo, 'R': nr, 'fail': fail, 'pre': pre, 'route': [rnd.choice('AB') for _ in range(nr)],
                    'failfast': rnd.random() < 0.6, 'kinds': kinds, 'hook': rnd.random() < 0.4,
                    'dur': {s: [0] + [rnd.choice([0, 0, 1, 2, 4]) for _ in range(nr)] for s in stages},
                    'delay': [0] + [rnd.choice([0, 0, 1, 2, 5]) for _ in range(nr)], 'bwait': rnd.choice([0, 1, 3]),
                    'nw': rnd.choice([1, 2, 3]), 'stream': stream})
    return out


def header(sc):
    fail = {s: sc['fail'].get(s, []) for s in ('S1', 'S2', 'A', 'B')}
    pre = {s: sc['pre'].get(s, []) for s in ('S1', 'S2', 'A', 'B')}
    return {'R': sc['R'], 'topo': sc['topo'], 'failfast': sc['failfast'], 'fail': fail, 'pre': pre,
            'route': sc['route'] if sc['topo'] == 'switch' else ['A'] * sc['R'], 'stream': sc['stream']}


def _run_scenario(sc, ev, box):
    from mpservice.mpserver import EnsembleServlet, ProcessServlet, SequentialServlet, Server, SwitchServlet, ThreadServlet
    from mpservice.multiprocessing.remote_exception import get_remote_traceback, is_remote_exception
    import traceback

    topo, R = sc['topo'], sc['R']

    def servlet(stage, n, **kw):
        rejected = sc['pre'].get(stage) or []
        cls = PWPre if (rejected or sc['hook']) else PW
        args = dict(stage=stage, fail=sc['fail'][stage], durs=sc['dur'][stage], batched=bool(kw.get('batch_size')), **kw)
        if cls is PWPre:
            args['rejected'] = rejected
        if sc['kinds'][stage] == 'proc':
            return ProcessServlet(cls, cpus=[None] * n, **args)
        return ThreadServlet(cls, num_threads=n, **args)

    if topo == 'single':
        tree = servlet('S1', max(2, sc['nw']))
    elif topo == 'seq':
        tree = SequentialServlet(servlet('S1', sc['nw']),
                                 servlet('S2', 1, batch_size=2, batch_wait_time=sc['bwait'] * U))
    elif topo == 'ens':
        tree = EnsembleServlet(servlet('A', 1), servlet('B', 1), fail_fast=sc['failfast'])
    else:
        class Sw(SwitchServlet):
            def switch(self, x):
                return 0 if sc['route'][req_of(x) - 1] == 'A' else 1

        tree = Sw(servlet('A', 1), servlet('B', sc['nw']))

    lock = threading.Lock()
    seen_batches = set()

    def report(kind, r, y):
        d = decode(y)
        tb = True
        if d['k'] == 'e':
            try:
                txt = get_remote_traceback(y) if is_remote_exception(y) else ''.join(traceback.format_exception(y))
            except Exception:  # noqa: BLE001
                txt = ''
            tb = ('Error' in txt and ('in call' in txt or 'in preprocess' in txt) and tuple(y.args[:2]) == (d['req'], d['path'][0]))
            mates = getattr(y, 'mates', None) if isinstance(y, BatchError) else None
            if isinstance(y, BatchError):
                mates = tuple(y.args[2]) if len(y.args) > 2 else ()
                d['req'] = r if (r in mates and y.args[0] in mates) else -1     # the failure of r's own batch
        with lock:
            if d['k'] == 'e' and isinstance(y, BatchError) and mates not in seen_batches:
                seen_batches.add(mates)
                ev.append({'ev': 'Batch', 'reqs': list(mates) + [0]})
            ev.append({'ev': kind, 'r': r, 'tb': bool(tb), **d})

    server = Server(tree, capacity=64)
    box['server'] = server
    server.__enter__()
    try:
        streamed = set(sc['stream'])

        def caller(r):
            if sc['delay'][r]:
                time.sleep(sc['delay'][r] * U)
            try:
                y = server.call(('in', r), timeout=60)
            except Exception as e:  # noqa: BLE001
                report('Ret', r, e)
                return
            report('Ret', r, y)

        def streamer():
            for x, y in server.stream((('in', r) for r in sc['stream']), return_x=True, return_exceptions=True, timeout=60):
                report('SRet', req_of(x), y)

        ths = [threading.Thread(target=caller, args=(r,), name=f'caller-{r}') for r in range(1, R + 1) if r not in streamed]
        if sc['stream']:
            ths.append(threading.Thread(target=streamer, name='streamer'))
        for t in ths:
            t.start()
        for t in ths:
            t.join()
        ev.append({'ev': 'End', 'backlog': server.backlog})
    finally:
        server.__exit__(None, None, None)
    box.pop('server', None)


def run_job(job):
    import multiprocessing
    traces, hangs, n_exec = [], [], 0
    for item in job['items']:
        sc = item['sc']
        ev, box = [], {}

        def target():
            try:
                _run_scenario(sc, ev, box)
            except BaseException as e:  # noqa: BLE001 - reported, not swallowed
                import traceback
                box['exc'] = ''.join(traceback.format_exception(type(e), e, e.__traceback__))[-3000:]

        th = threading.Thread(target=target, daemon=True, name='scenario')
        th.start()
        th.join(HANG_S)
        n_exec += 1
        rec = {'id': item['id'], 'p': header(sc), 'ev': list(ev), 'sc': sc}
        if th.is_alive():
            rec['hang'] = {'after_s': HANG_S, 'events_so_far': len(ev)}
            hangs.append(rec)
            for p in multiprocessing.active_children():
                try:
                    p.kill()
                except Exception:  # noqa: BLE001
                    pass
            break
        if 'exc' in box:
            rec['hang'] = {'crash': box['exc']}
            hangs.append(rec)
            continue
        traces.append(rec)
    return {'traces': traces, 'hangs': hangs, 'n_exec': n_exec}
