"""Binder for spec/RefCount.tla: histories of proxy operations executed on a REAL ServerProcess.

Real processes (no detsched): one manager server, one command interpreter per client process of the spec (driven over
pipes by the harness = this runner process), one child spawned with `Process(args=(proxy, ...))` per `Pickle args`.

Two uses:
* replay (spec -> code): a behaviour of RefCount!SeqSpec produced by TLC is executed external action by external
  action; after each one the server is flushed / polled until quiet and `debug_info` refcounts, the handles each
  process holds, the contents of the hosted containers and /dev/shm/<name> are compared with the spec state.
* random (code -> spec): a seeded random history is executed and logged (commands + observations) for validation by
  RefCountTrace.tla.

Observation: `server._debug_info()`; a call through every live proxy; os.path.exists('/dev/shm/<name>').
The serving thread of a connection keeps the last request and reply alive until the connection's next request, so
"flush" = one cheap call (`Factory.ping`) over every client's connection.
"""
from __future__ import annotations

import os
import pickle
import random
import time
import traceback

try:   # the check's parent process imports this module only for the generators; it has no mpservice on its path
    from mpservice.multiprocessing import Process
    from mpservice.multiprocessing.server_process import (
        MemoryBlock,
        ServerProcess,
        managed_dict,
        managed_list,
        managed_memoryblock,
    )
except ImportError:   # pragma: no cover
    ServerProcess = None

STEP_TIMEOUT = 60.0      # a single command normally takes milliseconds (spawning a child: ~0.3 s)
SETTLE_TIMEOUT = 15.0    # bound for "the server becomes quiet and agrees with the model" (normally milliseconds)
PROBE_TIMEOUT = 4.0      # as-found probes: the real server is expected NOT to agree with the as-found design
BLOCK_SIZE = 64


class Hang(Exception):
    pass


class Factory:
    """hosted helper: methods returning managed() values"""

    def make_list(self):
        return managed_list([])

    def make_dict(self):
        return managed_dict({})

    def make_block(self, n):
        return managed_memoryblock(MemoryBlock(n))

    def again(self, ident, kind):
        """managed() of an object that is hosted ALREADY (same identity): what a hosted method does that wraps the same
        member on every call"""
        from mpservice.multiprocessing.server_process import get_server
        obj = get_server().id_to_obj[ident][0]
        return managed_dict(obj) if kind == 'dict' else managed_list(obj) if kind == 'list' else managed_memoryblock(obj)

    def ping(self):
        return 1


if ServerProcess is not None:
    try:
        ServerProcess.register('VerifFactory', Factory)
    except ValueError:
        pass

# ---------------------------------------------------------------------------------------------------------------
# client side

_KEEP = []


def _call_check(prox, kind):
    if kind == 'block':
        return prox._callmethod('_name')
    return len(prox)


def kid_main(prox, conn, handle, kind):
    """target of the process spawned with a proxy among its args.  (The proxy stays referenced by the Process object's
    `_args` and by the frame of `run()` for as long as the target runs: the child can only release it by exiting.)"""
    tab = {handle: prox}
    del prox
    conn.send(('up', os.getpid()))
    while True:
        cmd = conn.recv()
        try:
            op = cmd[0]
            if op == 'check':
                out = {h: _call_check(p, kind) for h, p in tab.items()}
                rep = ('ok', out)
            elif op == 'exit':
                conn.send(('ok', None))
                return 0
            else:
                rep = ('err', f'unknown kid command {op}', '')
        except BaseException as e:  # noqa: BLE001
            rep = ('err', repr(e), traceback.format_exc())
        conn.send(rep)


class VaultTab:
    """The handle table of a client process kept OUTSIDE it: a dict hosted by a SECOND server process B.  Every proxy this
    client "holds" then lives inside server B (a process that is itself a server, of another manager) and nowhere else; what
    the client reads from the table is a short-lived copy.  For the hosting server A, B is just one more client process.
    After every operation one cheap call flushes the request / reply B's serving thread still references."""

    def __init__(self, d):
        self.d = d

    def _flush(self):
        len(self.d)

    def __setitem__(self, h, px):
        self.d[h] = px
        del px
        self._flush()

    def __getitem__(self, h):
        px = self.d[h]
        self._flush()
        return px

    def __delitem__(self, h):
        del self.d[h]
        self._flush()

    def items(self):
        return [(h, self[h]) for h in self.d.keys()]

    def clear(self):
        self.d.clear()
        self._flush()


def client_main(manager, conn, name, vault_manager=None):
    import multiprocessing
    tab = {} if vault_manager is None else VaultTab(vault_manager.dict())      # handle -> proxy
    kinds = {}    # handle -> 'dict' | 'list' | 'block'
    kids = {}     # kid name -> (process, connection)
    fac = manager.VerifFactory()
    conn.send(('up', os.getpid()))
    while True:
        cmd = conn.recv()
        op = cmd[0]
        try:
            rep = ('ok', None)
            if op == 'create':
                _, h, kind, via, *rest = cmd
                if via == 'again':
                    px = fac.again(rest[0], kind)
                elif via == 'create':
                    px = manager.dict() if kind == 'dict' else manager.list() if kind == 'list' \
                        else manager.MemoryBlock(BLOCK_SIZE)
                else:
                    px = fac.make_dict() if kind == 'dict' else fac.make_list() if kind == 'list' \
                        else fac.make_block(BLOCK_SIZE)
                tab[h] = px
                kinds[h] = kind
                rep = ('ok', {'ident': px._id, 'shm': px.name if kind == 'block' else '', 'type': type(px).__name__})
                del px
            elif op == 'pickle':
                rep = ('ok', pickle.dumps(tab[cmd[1]]))
            elif op == 'rebuild':
                _, h, blob, kind = cmd
                tab[h] = pickle.loads(blob)
                kinds[h] = kind
            elif op == 'delete':
                del tab[cmd[1]]
                kinds.pop(cmd[1], None)
            elif op == 'store':
                _, ch, key, xh = cmd
                if kinds[ch] == 'dict':
                    tab[ch][key] = tab[xh]
                else:
                    tab[ch].append(tab[xh])
            elif op == 'remove':
                _, ch, key, mode, h, kind = cmd   # key: dict key or list index
                if mode == 'pop':
                    tab[h] = tab[ch].pop(key)
                    kinds[h] = kind
                elif mode == 'del':
                    del tab[ch][key]
                else:
                    tab[h] = tab[ch][key]
                    kinds[h] = kind
            elif op == 'contents':
                ch = cmd[1]
                rep = ('ok', list(tab[ch].keys()) if kinds[ch] == 'dict' else len(tab[ch]))
            elif op == 'spawn':
                _, k, xh, _h = cmd
                a, b = multiprocessing.Pipe()
                pr = Process(target=kid_main, args=(tab[xh], b, cmd[3], kinds[xh]), name=k)
                pr.start()
                b.close()
                kids[k] = (pr, a)
            elif op == 'kid':
                _, k, sub = cmd
                pr, a = kids[k]
                if sub[0] != 'wait_up':
                    a.send(sub)
                if not a.poll(STEP_TIMEOUT):
                    rep = ('err', 'kid does not answer', '')
                else:
                    rep = a.recv()
                    if sub[0] == 'wait_up':
                        rep = ('ok', rep[1])
                    if sub[0] == 'exit':
                        pr.join(STEP_TIMEOUT)
                        if pr.exitcode is None:
                            rep = ('err', 'kid does not exit', '')
                        else:
                            _reap(pr)
            elif op == 'dropall':
                # every proxy this process holds goes away - the factory's too - and the process makes NO further call: the
                # thread has no proxy left, so its connection to the server must be closed (and with it goes whatever the
                # serving thread still holds of the last reply)
                tab.clear()
                kinds.clear()
                fac = None
            elif op == 'check':
                fac.ping()   # flushes the previous request / reply still referenced by the serving thread
                rep = ('ok', {h: _call_check(p, kinds[h]) for h, p in tab.items()})
            elif op == 'exit':
                if cmd[1] == 'hold':
                    _KEEP.append((tab, fac))   # still referenced when the interpreter exits
                else:
                    tab.clear()
                conn.send(('ok', None))
                return 0
            else:
                rep = ('err', f'unknown command {op}', '')
        except BaseException as e:  # noqa: BLE001
            rep = ('err', repr(e), traceback.format_exc())
        conn.send(rep)


# ---------------------------------------------------------------------------------------------------------------
# harness side

def _reap(pr):
    """Run the SpawnProcess finalizer (it joins the process's logger thread) NOW, from a quiet point of the harness.
    Left to the garbage collector it runs inside whatever thread happens to allocate - seen: inside a starting thread
    that holds threading._shutdown_locks_lock, where Thread.join() then blocks forever on that same lock."""
    f = getattr(pr, '_finalizer_', None)
    if f is not None:
        try:
            f()
        except Exception:  # noqa: BLE001
            pass


class World:
    """a fresh ServerProcess + client interpreters"""

    def __init__(self, procs, vault=()):
        import multiprocessing
        self.server = ServerProcess()
        self.server.start()
        self.server2 = None
        if vault:
            self.server2 = ServerProcess()   # hosts the handle tables of the `vault` clients (see VaultTab)
            self.server2.start()
        self.conns = {}
        self.procs = {}
        self.kid_parent = {}
        for p in procs:
            a, b = multiprocessing.Pipe()
            pr = Process(target=client_main, args=(self.server, b, p, self.server2 if p in vault else None), name=p)
            pr.start()
            b.close()
            self.conns[p] = a
            self.procs[p] = pr
        try:
            for p in procs:
                self._recv(p)
        except BaseException:
            self.close()
            raise

    def _recv(self, p, timeout=STEP_TIMEOUT):
        c = self.conns[p]
        if not c.poll(timeout):
            raise Hang(f'client {p} does not answer within {timeout}s')
        try:
            return c.recv()
        except EOFError:
            return ('err', 'client process died', '')

    def cmd(self, p, *cmd):
        if p in self.kid_parent:
            return self.cmd(self.kid_parent[p], 'kid', p, cmd)
        self.conns[p].send(cmd)
        return self._recv(p)

    def exit_client(self, p, mode='hold'):
        r = self.cmd(p, 'exit', mode)
        if p in self.kid_parent:
            return r
        pr = self.procs[p]
        pr.join(STEP_TIMEOUT)
        if pr.exitcode is None:
            raise Hang(f'client {p} does not exit')
        return r

    def debug_info(self):
        # Server.debug_info reads id_to_refcount[k] for every k in id_to_obj; while a decref that reached zero is between
        # its two critical sections that lookup raises KeyError (a benign race of the diagnostic itself): retry
        for attempt in range(50):
            try:
                info = self.server._debug_info()
                break
            except Exception:  # noqa: BLE001
                if attempt == 49:
                    raise
                time.sleep(0.01)
        return {d['id']: (d['refcount:'], d['type']) for d in info if d['type'] != 'Factory'}

    def close(self):
        for pr in self.procs.values():
            try:
                if pr.exitcode is None:
                    pr.kill()
                    pr.join(5)
            except Exception:  # noqa: BLE001
                pass
            _reap(pr)
        for srv in (self.server2, self.server):
            if srv is None:
                continue
            try:
                srv.shutdown()
            except Exception:  # noqa: BLE001
                try:
                    srv._process.kill()
                except Exception:  # noqa: BLE001
                    pass
            _reap(getattr(srv, '_process', None))


def kind_of(o, variant):
    if o.startswith('m'):
        return 'block'
    return variant.get('container', {}).get(o, 'dict')


class Driver:
    """executes external actions of the spec on a World; keeps the harness-side naming (spec object -> server ident,
    container slot of every stored proxy)."""

    def __init__(self, procs, variant):
        self.w = World(procs, tuple(p for p in variant.get('vault', ()) if p in procs))
        self.variant = variant
        self.ident = {}     # spec object -> server ident
        self.shmname = {}   # block -> shared memory name
        self.blobs = {}     # transit id -> pickle bytes
        self.obj_of = {}    # handle / transit id -> spec object
        self.slots = {}     # container -> ordered list of handle ids (list order; dict keys are str(id))
        self.up = set(procs)
        self.dropped = set()    # processes that have dropped everything and stay idle: never called again (not even pinged)

    def dropall(self, p):
        self.ok(self.w.cmd(p, 'dropall'), 'dropall')
        self.dropped.add(p)

    def kind(self, o):
        return kind_of(o, self.variant)

    def ok(self, rep, what):
        if rep[0] != 'ok':
            raise StepFailed(what, rep[1], rep[2] if len(rep) > 2 else '')
        return rep[1]

    def key(self, c, yid):
        return str(yid) if self.kind(c) == 'dict' else self.slots[c].index(yid)

    # one external action of the spec; `holder_of_c` is a handle through which process p reaches container c
    def create(self, p, o, via, i):
        r = self.ok(self.w.cmd(p, 'create', i, self.kind(o), via, *((self.ident[o],) if via == 'again' else ())), 'create')
        if via == 'again' and r['ident'] != self.ident[o]:
            raise StepFailed('create:again', f'the re-wrapped object got another identity {r["ident"]} != {self.ident[o]}', '')
        self.ident[o] = r['ident']
        if r['shm']:
            self.shmname[o] = r['shm']
        self.obj_of[i] = o
        self.slots.setdefault(o, [])

    def pickle_msg(self, p, x, i):
        self.blobs[i] = self.ok(self.w.cmd(p, 'pickle', x), 'pickle')
        self.obj_of[i] = self.obj_of[x]

    def rebuild_msg(self, to, i):
        self.ok(self.w.cmd(to, 'rebuild', i, self.blobs.pop(i), self.kind(self.obj_of[i])), 'rebuild')

    def store(self, p, ch, c, x, i):
        self.ok(self.w.cmd(p, 'store', ch, str(i), x), 'store')
        self.obj_of[i] = self.obj_of[x]
        self.slots[c].append(i)

    def remove(self, p, ch, c, y, mode, i):
        self.ok(self.w.cmd(p, 'remove', ch, self.key(c, y), mode, i, self.kind(self.obj_of[y])), 'remove:' + mode)
        if mode != 'get':
            self.slots[c].remove(y)
        if mode != 'del':
            self.obj_of[i] = self.obj_of[y]

    def spawn(self, p, x, k, i):
        self.ok(self.w.cmd(p, 'spawn', k, x, i), 'spawn')
        self.w.kid_parent[k] = p
        self.obj_of[i] = self.obj_of[x]

    def kid_up(self, k):
        self.ok(self.w.cmd(k, 'wait_up'), 'child start')
        self.up.add(k)

    def delete(self, p, x):
        self.ok(self.w.cmd(p, 'delete', x), 'delete')

    def exit(self, p, mode='hold'):
        self.ok(self.w.exit_client(p, mode), 'exit')
        self.up.discard(p)

    # ---- observation
    def observe(self, containers_via):
        """flush every connection, then read the server.  containers_via: {container: (process, handle)} readable ones"""
        held = {}
        for p in sorted(self.up):
            if p in self.dropped:
                held[p] = []
                continue
            held[p] = sorted(self.ok(self.w.cmd(p, 'check'), f'a live proxy held by {p} does not answer'))
        info = self.w.debug_info()
        cont = {}
        for c, (p, h) in containers_via.items():
            if p in self.up and p not in self.dropped:
                r = self.ok(self.w.cmd(p, 'contents', h), 'contents')
                cont[c] = sorted(int(k) for k in r) if isinstance(r, list) else r
        shm = {o: os.path.exists('/dev/shm/' + n.lstrip('/')) for o, n in self.shmname.items()}
        return {'held': held, 'info': info, 'cont': cont, 'shm': shm}

    def close(self):
        self.w.close()


class StepFailed(Exception):
    def __init__(self, what, err, tb):
        super().__init__(what, err)
        self.what, self.err, self.tb = what, err, tb


# ---------------------------------------------------------------------------------------------------------------
# replay of TLC behaviours (spec -> code)

EXTERNAL = {'Create', 'ManagedReturn', 'ManagedAgain', 'Pickle', 'RebuildInheriting', 'Delete', 'RemoveFrom', 'GetFrom', 'ProcessExit'}


def is_external(act):
    return act['name'] in EXTERNAL or (act['name'] == 'RebuildInc' and act.get('kind') == 'msg')


def quiet(st):
    if st['tmp']:
        return False
    for t in st['transit']:
        if t['st'] == 'rebuilding' or t['kind'] in ('reply', 'store'):
            return False
    for o, a in st['alive'].items():
        if a == 'yes' and st['refcount'][o] == 0:
            return False
        if a == 'gone' and st['shm'][o] == 'yes':
            return False
    return True


def groups_of(beh):
    """[(external act, spec state once the server is quiet again)]; None if an external action starts in a non-quiet
    state (not a SeqSpec behaviour); an incomplete last group (behaviour cut by the depth bound) is dropped"""
    out = []
    for act_name, st in beh[1:]:
        a = st['act']
        if is_external(a):
            if out and not quiet(out[-1][1]):
                return None
            out.append([a, st])
        elif out:
            out[-1][1] = st
    if out and not quiet(out[-1][1]):
        out.pop()
    return [(a, s) for a, s in out]


def handle_for(st, p, c):
    """a proxy of container c held by process p in spec state st"""
    for x in st['proxies']:
        if x['holder'] == p and x['obj'] == c:
            return x['id']
    return None


def expected(st, drv):
    """projection of a quiet spec state onto what the harness can observe"""
    info = {}
    for o, a in st['alive'].items():
        if a == 'yes':
            info[drv.ident[o]] = st['refcount'][o]
    held = {p: sorted(x['id'] for x in st['proxies'] if x['holder'] == p) for p in drv.up}
    cont = {}
    for o in st['alive']:
        if not o.startswith('m'):
            cont[o] = sorted(x['id'] for x in st['proxies'] if x['holder'] == o)
    shm = {o: st['alive'][o] == 'yes' for o in drv.shmname}
    return {'info': info, 'held': held, 'cont': cont, 'shm': shm}


def compare(exp, obs, drv):
    """returns None or a description of the first difference"""
    got = {k: v[0] for k, v in obs['info'].items()}
    if got != exp['info']:
        names = {v: k for k, v in drv.ident.items()}
        diff = {}
        for k in set(got) | set(exp['info']):
            if got.get(k) != exp['info'].get(k):
                diff[names.get(k, k)] = {'real': got.get(k), 'spec': exp['info'].get(k)}
        return {'what': 'refcount', 'diff': diff}
    if obs['held'] != exp['held']:
        return {'what': 'handles', 'real': obs['held'], 'spec': exp['held']}
    for c, v in obs['cont'].items():
        ev = exp['cont'][c]
        if (v != ev) if isinstance(v, list) else (v != len(ev)):
            return {'what': 'container contents', 'c': c, 'real': v, 'spec': ev}
    if obs['shm'] != exp['shm']:
        return {'what': 'shared memory', 'real': obs['shm'], 'spec': exp['shm']}
    return None


def settle(drv, st, bound=SETTLE_TIMEOUT):
    """flush + poll until the real server agrees with the quiet spec state (bounded); returns (mismatch, observation)"""
    st_via = st
    via = {}
    for o in st_via['alive']:
        if not o.startswith('m') and st_via['alive'][o] == 'yes' and o in drv.ident:
            for p in sorted(drv.up):
                h = handle_for(st_via, p, o)
                if h is not None and p not in drv.w.kid_parent:
                    via[o] = (p, h)
                    break
    exp = expected(st, drv)
    t0 = time.monotonic()
    delay = 0.002
    while True:
        obs = drv.observe(via)
        mm = compare(exp, obs, drv)
        if mm is None:
            # must also be stable
            time.sleep(0.01)
            obs2 = drv.observe(via)
            if compare(exp, obs2, drv) is None:
                return None, obs2
        if time.monotonic() - t0 > bound:
            return mm or {'what': 'unstable'}, obs
        time.sleep(delay)
        delay = min(delay * 2, 0.25)


def do_external(drv, a, pre):
    """execute one external action; `pre` = spec state before it (to find the handle that reaches a container)"""
    n = a['name']
    if n in ('Create', 'ManagedReturn', 'ManagedAgain'):
        drv.create(a['p'], a['o'], {'Create': 'create', 'ManagedReturn': 'managed', 'ManagedAgain': 'again'}[n], a['i'])
    elif n == 'Pickle':
        if a['kind'] == 'msg':
            drv.pickle_msg(a['p'], a['x'], a['i'])
        elif a['kind'] == 'args':
            drv.spawn(a['p'], a['x'], a['to'], a['i'])
        else:
            drv.store(a['p'], handle_for(pre, a['p'], a['to']), a['to'], a['x'], a['i'])
    elif n == 'RebuildInc':
        drv.rebuild_msg(a['to'], a['i'])
    elif n == 'RebuildInheriting':
        drv.kid_up(a['to'])
    elif n == 'Delete':
        drv.delete(a['p'], a['x'])
    elif n == 'RemoveFrom':
        drv.remove(a['p'], handle_for(pre, a['p'], a['c']), a['c'], a['y'], a['mode'], a['i'])
    elif n == 'GetFrom':
        drv.remove(a['p'], handle_for(pre, a['p'], a['c']), a['c'], a['y'], 'get', a['i'])
    elif n == 'ProcessExit':
        drv.exit(a['p'], drv.variant.get('exit', 'hold'))
    else:
        raise ValueError(n)


def holder_kind(a, drv):
    p = a.get('p') or a.get('to')
    return 'kid' if p in drv.w.kid_parent else 'proc'


def survivors(st):
    """objects that legitimately outlive all client processes in quiet state st: kept by a pickle nobody read, or by a
    reference cycle of hosted containers (greatest fixpoint of "has a reference from something that survives");
    returns {obj: refcount}"""
    live = {o for o, a in st['alive'].items() if a == 'yes'}
    tr = {o: sum(1 for t in st['transit'] if t['obj'] == o and t['kind'] == 'msg') for o in live}
    cont = [x for x in st['proxies'] if x['holder'] in st['alive']]

    def count(o):
        return tr[o] + sum(1 for x in cont if x['obj'] == o and x['holder'] in live)

    changed = True
    while changed:
        changed = False
        for o in sorted(live):
            if count(o) == 0:
                live.discard(o)
                changed = True
    return {o: count(o) for o in live}


def replay(item):
    beh = item['beh']
    variant = item.get('variant', {})
    groups = groups_of(beh)
    if groups is None:
        return {'id': item['id'], 'status': 'bad-behaviour', 'detail': 'an external action started in a non-quiet state'}
    init = beh[0][1]
    procs = sorted(p for p, s in init['pstate'].items() if s == 'up')
    drv = Driver(procs, variant)
    steps = 0
    try:
        pre = init
        for a, st in groups:
            try:
                do_external(drv, a, pre)
            except StepFailed as e:
                return {'id': item['id'], 'status': 'violation', 'steps': steps, 'action': a,
                        'sig': {'kind': 'operation-failed', 'action': a['name'], 'holder': holder_kind(a, drv)},
                        'detail': {'what': e.what, 'err': e.err, 'tb': e.tb[-1500:]}}
            try:
                mm, obs = settle(drv, st, PROBE_TIMEOUT if item.get('probe') else SETTLE_TIMEOUT)
            except StepFailed as e:
                return {'id': item['id'], 'status': 'violation', 'steps': steps, 'action': a,
                        'sig': {'kind': 'proxy-unusable', 'action': a['name'], 'holder': holder_kind(a, drv)},
                        'detail': {'what': e.what, 'err': e.err, 'tb': e.tb[-1500:]}}
            if mm is not None:
                cmp_ = 'other'
                if mm['what'] == 'refcount':
                    d = list(mm['diff'].values())
                    if all((x['real'] or 0) > (x['spec'] or 0) for x in d):
                        cmp_ = 'real>spec'
                    elif all((x['real'] or 0) < (x['spec'] or 0) for x in d):
                        cmp_ = 'real<spec'
                return {'id': item['id'], 'status': 'violation', 'steps': steps, 'action': a,
                        'sig': {'kind': mm['what'], 'action': a['name'], 'holder': holder_kind(a, drv), 'cmp': cmp_},
                        'detail': mm}
            steps += 1
            pre = st
        if item.get('probe'):
            return {'id': item['id'], 'status': 'ok', 'steps': steps}   # followed the as-found design to the end
        # teardown: every remaining process exits while holding its proxies; nothing may be left behind except what the
        # final state legitimately keeps alive (unconsumed pickles, reference cycles)
        final = groups[-1][1] if groups else init
        for k in sorted(drv.w.kid_parent):
            if k not in drv.up and final['pstate'][k] == 'unborn':
                drv.kid_up(k)      # spawned, RebuildInheriting not yet in the history: it happens now
        for k in [k for k in sorted(drv.up) if k in drv.w.kid_parent]:
            drv.exit(k)
        for p in sorted(drv.up):
            drv.exit(p)
        surv = survivors(final)
        exp = {drv.ident[o]: n for o, n in surv.items()}
        expshm = {o: (o in surv) for o in drv.shmname}
        t0 = time.monotonic()
        while True:
            got = {k: v[0] for k, v in drv.w.debug_info().items()}
            shm = {o: os.path.exists('/dev/shm/' + n.lstrip('/')) for o, n in drv.shmname.items()}
            if got == exp and shm == expshm:
                break
            if time.monotonic() - t0 > SETTLE_TIMEOUT:
                names = {v: k for k, v in drv.ident.items()}
                return {'id': item['id'], 'status': 'violation', 'steps': steps, 'action': {'name': 'Teardown'},
                        'sig': {'kind': 'refcount', 'action': 'Teardown', 'holder': 'proc',
                                'cmp': 'real>spec' if len(got) >= len(exp) else 'real<spec'},
                        'detail': {'what': 'left behind after every process exited',
                                   'real': {names.get(k, k): v for k, v in got.items()}, 'spec': surv,
                                   'shm_real': shm, 'shm_spec': expshm}}
            time.sleep(0.05)
        return {'id': item['id'], 'status': 'ok', 'steps': steps}
    finally:
        drv.close()


# ---------------------------------------------------------------------------------------------------------------
# random histories (code -> spec)

class Gen:
    """seeded random history generator; mirrors the spec's id allocation (Create takes two ids, every other pickle one)"""

    def __init__(self, rnd, sc):
        self.rnd = rnd
        self.sc = sc
        self.procs = list(sc['procs'])
        self.kids = list(sc['kids'])
        self.objs = list(sc['containers']) + list(sc['blocks'])
        self.next = 1
        self.held = {p: {} for p in self.procs}      # process -> {handle: obj}
        self.cont = {c: {} for c in sc['containers']}   # container -> {handle: obj}
        self.msgs = {}                               # transit id -> (obj, to)
        self.created = set()
        self.kid_state = {k: 'unborn' for k in self.kids}
        self.kid_parent = {}
        self.pending_kid = {}                        # kid -> transit id
        self.kid_obj = {}
        self.up = set(self.procs)

    def candidates(self, p):
        """external actions process p can do now"""
        out = []
        h = self.held[p]
        if p in self.kid_parent:
            return [('ProcessExit', {'p': p})] if self.rnd.random() < 0.5 else []
        for o in self.objs:
            if o not in self.created:
                out.append(('Create', {'p': p, 'o': o, 'via': 'create'}))
                out.append(('Create', {'p': p, 'o': o, 'via': 'managed'}))
        for o in sorted(set(h.values())):
            # p holds a proxy of o, so o stays hosted while p's command runs: wrap the same object once more
            out.append(('Create', {'p': p, 'o': o, 'via': 'again'}))
        for x, o in h.items():
            out.append(('Delete', {'p': p, 'x': x}))
            out.append(('Delete', {'p': p, 'x': x}))
            for q in self.procs:
                if q in self.up:
                    out.append(('Pickle', {'p': p, 'x': x, 'kind': 'msg', 'to': q}))
            for k in self.kids:
                if self.kid_state[k] == 'unborn' and k not in self.pending_kid:
                    out.append(('Pickle', {'p': p, 'x': x, 'kind': 'args', 'to': k}))
                    break
            for c in self.cont:
                if c in h.values() and (self.sc.get('selfstore', True) or o != c):
                    out.append(('Pickle', {'p': p, 'x': x, 'kind': 'store', 'to': c}))
                    out.append(('Pickle', {'p': p, 'x': x, 'kind': 'store', 'to': c}))
        for c in self.cont:
            if c in h.values():
                for y in self.cont[c]:
                    out.append(('PopFrom', {'p': p, 'c': c, 'y': y}))
                    out.append(('DelFrom', {'p': p, 'c': c, 'y': y}))
                    out.append(('GetFrom', {'p': p, 'c': c, 'y': y}))
        for i, (o, to) in self.msgs.items():
            if to == p:
                out.append(('RebuildMsg', {'i': i, 'to': p}))
                out.append(('RebuildMsg', {'i': i, 'to': p}))
        for k, i in self.pending_kid.items():
            if self.kid_parent[k] == p:
                out.append(('RebuildInheriting', {'i': i, 'to': k}))
                out.append(('RebuildInheriting', {'i': i, 'to': k}))
        if not any(to == p for o, to in self.msgs.values()) and \
                all(self.kid_state[k] == 'exited' for k, q in self.kid_parent.items() if q == p) and \
                self.rnd.random() < 0.25:
            out.append(('ProcessExit', {'p': p}))
        return out

    def handle_to(self, p, c):
        for x, o in self.held[p].items():
            if o == c:
                return x
        return None

    def apply(self, name, a):
        """book-keeping after the command was issued; returns the event to log"""
        ev = {'ev': name}
        ev.update(a)
        if name == 'Create':
            i = self.next
            self.next += 2
            ev['i'] = i
            self.held[a['p']][i] = a['o']
            self.created.add(a['o'])
        elif name == 'Pickle':
            i = self.next
            self.next += 1
            ev['i'] = i
            o = self.held[a['p']][a['x']]
            if a['kind'] == 'msg':
                self.msgs[i] = (o, a['to'])
            elif a['kind'] == 'args':
                self.pending_kid[a['to']] = i
                self.kid_obj[a['to']] = o
                self.kid_parent[a['to']] = a['p']
                self.held[a['to']] = {}
            else:
                self.cont[a['to']][i] = o
        elif name == 'RebuildMsg':
            o, to = self.msgs.pop(a['i'])
            self.held[to][a['i']] = o
        elif name == 'RebuildInheriting':
            k = a['to']
            i = self.pending_kid.pop(k)
            self.kid_state[k] = 'up'
            self.up.add(k)
            self.held[k][i] = self.kid_obj[k]
        elif name == 'Delete':
            del self.held[a['p']][a['x']]
        elif name in ('PopFrom', 'GetFrom'):
            i = self.next
            self.next += 1
            ev['i'] = i
            o = self.cont[a['c']][a['y']]
            if name == 'PopFrom':
                del self.cont[a['c']][a['y']]
            self.held[a['p']][i] = o
        elif name == 'DelFrom':
            del self.cont[a['c']][a['y']]
        elif name == 'ProcessExit':
            p = a['p']
            self.held[p] = {}
            self.up.discard(p)
            if p in self.kid_state:
                self.kid_state[p] = 'exited'
        return ev


def conflict(a1, a2, ckind):
    """two commands issued concurrently must commute"""
    (n1, x1), (n2, x2) = a1, a2
    rem = ('PopFrom', 'DelFrom', 'GetFrom')
    if n1 in rem and n2 in rem and x1['c'] == x2['c'] and ckind.get(x1['c']) == 'list' and (n1, n2) != ('GetFrom', 'GetFrom'):
        return True   # list indices shift
    # two appends to the same LIST container, or an append while an element of that list is removed: the order in which the
    # server handles them decides the indices, and the harness addresses list elements by index afterwards
    def list_touch(n, x):
        if n == 'Pickle' and x.get('kind') == 'store' and ckind.get(x['to']) == 'list':
            return x['to']
        if n in rem and ckind.get(x['c']) == 'list':
            return x['c']
        return None
    t1, t2 = list_touch(n1, x1), list_touch(n2, x2)
    if t1 is not None and t1 == t2 and (n1, n2) != ('GetFrom', 'GetFrom'):
        return True
    if n1 in ('ProcessExit', 'RebuildInheriting') or n2 in ('ProcessExit', 'RebuildInheriting'):
        return True
    if n1 == 'Create' and n2 == 'Create' and x1['o'] == x2['o']:
        return True
    if 'y' in x1 and 'y' in x2 and x1['y'] == x2['y']:
        return True
    for u, v in ((a1, a2), (a2, a1)):
        if u[0] == 'Pickle' and u[1]['kind'] in ('msg',) and v[0] == 'ProcessExit':
            return True
        if u[0] == 'Pickle' and u[1]['kind'] == 'args' and v[0] == 'Pickle' and v[1]['kind'] == 'args':
            return True
    return False


def issue(drv, gen, name, a, ev):
    """send the command for one generated action WITHOUT waiting for the reply; returns the process that will answer"""
    w = drv.w
    if name == 'Create':
        cmd = (a['p'], 'create', ev['i'], drv.kind(a['o']), a['via']) + ((drv.ident[a['o']],) if a['via'] == 'again' else ())
    elif name == 'Pickle' and a['kind'] == 'msg':
        cmd = (a['p'], 'pickle', a['x'])
    elif name == 'Pickle' and a['kind'] == 'args':
        cmd = (a['p'], 'spawn', a['to'], a['x'], ev['i'])
    elif name == 'Pickle':
        cmd = (a['p'], 'store', ev['_ch'], str(ev['i']), a['x'])
    elif name == 'RebuildMsg':
        cmd = (a['to'], 'rebuild', a['i'], drv.blobs.pop(a['i']), drv.kind(drv.obj_of[a['i']]))
    elif name == 'Delete':
        cmd = (a['p'], 'delete', a['x'])
    elif name in ('PopFrom', 'DelFrom', 'GetFrom'):
        mode = {'PopFrom': 'pop', 'DelFrom': 'del', 'GetFrom': 'get'}[name]
        cmd = (a['p'], 'remove', ev['_ch'], drv.key(a['c'], a['y']), mode, ev.get('i', 0), drv.kind(drv.obj_of[a['y']]))
    else:
        raise ValueError(name)
    p = cmd[0]
    if p in w.kid_parent:
        w.conns[w.kid_parent[p]].send(('kid', p, cmd[1:]))
        return w.kid_parent[p]
    w.conns[p].send(cmd[1:])
    return p


def absorb(drv, gen, name, a, ev, rep):
    """harness-side naming after the reply"""
    val = drv.ok(rep, name)
    if name == 'Create':
        if a['via'] == 'again' and val['ident'] != drv.ident[a['o']]:
            raise StepFailed('create:again', f'the re-wrapped object got another identity {val["ident"]}', '')
        drv.ident[a['o']] = val['ident']
        if val['shm']:
            drv.shmname[a['o']] = val['shm']
        drv.obj_of[ev['i']] = a['o']
        drv.slots.setdefault(a['o'], [])
    elif name == 'Pickle':
        drv.obj_of[ev['i']] = drv.obj_of[a['x']]
        if a['kind'] == 'msg':
            drv.blobs[ev['i']] = val
        elif a['kind'] == 'args':
            drv.w.kid_parent[a['to']] = a['p']
        else:
            drv.slots[a['to']].append(ev['i'])
    elif name in ('PopFrom', 'DelFrom', 'GetFrom'):
        if name != 'GetFrom':
            drv.slots[a['c']].remove(a['y'])
        if name != 'DelFrom':
            drv.obj_of[ev['i']] = drv.obj_of[a['y']]


def observation(drv, gen, final=False):
    """flush, poll until two successive readings agree, log what was seen"""
    via = {}
    for c in gen.cont:
        for p in sorted(gen.up):
            if p in gen.kid_parent:
                continue
            h = gen.handle_to(p, c)
            if h is not None:
                via[c] = (p, h)
                break
    t0 = time.monotonic()
    prev = None
    n = 0
    while True:
        obs = drv.observe(via)
        key = (sorted(obs['info'].items()), obs['held'], obs['cont'], obs['shm'])
        n += 1
        # the final observation must be of a quiet server: nothing left at all, or unchanged for ~2 s (a lagging server
        # thread on a loaded machine must not look like a leak)
        if prev == key and n >= ((2 if not obs['info'] and not any(obs['shm'].values()) else 40) if final else 2):
            break
        if prev != key:
            n = 1
        prev = key
        if time.monotonic() - t0 > SETTLE_TIMEOUT:
            break
        time.sleep(0.05 if final else 0.01)
    names = {v: k for k, v in drv.ident.items()}
    rc = {o: 0 for o in gen.objs}
    al = {o: 'absent' for o in gen.objs}
    extra = 0
    for ident, (n_, typ) in obs['info'].items():
        o = names.get(ident)
        if o is None:
            extra += 1
        else:
            rc[o] = n_
            al[o] = 'yes'
    held = {p: obs['held'].get(p, []) for p in gen.procs + gen.kids}
    cont = {c: (obs['cont'][c] if isinstance(obs['cont'].get(c), list) else []) for c in gen.cont}
    clen = {c: (len(obs['cont'][c]) if isinstance(obs['cont'].get(c), list) else obs['cont'].get(c, -1)) for c in gen.cont}
    cex = {c: isinstance(obs['cont'].get(c), list) for c in gen.cont}
    shm = {o: ('yes' if obs['shm'].get(o) else 'absent') for o in gen.sc['blocks']}
    return {'ev': 'Obs', 'rc': rc, 'al': al, 'held': held, 'cont': cont, 'clen': clen, 'cex': cex, 'shm': shm,
            'extra': extra, 'final': final}


def random_history(item):
    sc = item['sc']
    rnd = random.Random(item['seed'])
    gen = Gen(rnd, sc)
    variant = {'container': sc.get('ckind', {}), 'exit': sc.get('exit', 'hold'), 'vault': sc.get('vault', [])}
    drv = Driver(sc['procs'], variant)
    evs = []
    try:
        steps = 0
        while steps < sc['len']:
            cands = {p: gen.candidates(p) for p in sorted(gen.up)}
            cands = {p: c for p, c in cands.items() if c}
            if not cands or gen.next > sc['maxid'] - 4:
                break
            ps = sorted(cands)
            p1 = rnd.choice(ps)
            batch = [rnd.choice(cands[p1])]
            # sometimes two commands at once on two different processes (real concurrency at the server)
            others = [p for p in ps if p != p1 and p not in gen.kid_parent and p1 not in gen.kid_parent]
            if others and rnd.random() < sc.get('burst', 0.3):
                a2 = rnd.choice(cands[rnd.choice(others)])
                if not conflict(batch[0], a2, sc.get('ckind', {})):
                    batch.append(a2)
            sent = []
            for name, a in batch:
                if name == 'ProcessExit':
                    drv.exit(a['p'], variant['exit'])
                    evs.append(gen.apply(name, a))
                    continue
                if name == 'RebuildInheriting':
                    drv.kid_up(a['to'])
                    evs.append(gen.apply(name, a))
                    continue
                pre_ch = None
                if name == 'Pickle' and a['kind'] == 'store':
                    pre_ch = gen.handle_to(a['p'], a['to'])
                if name in ('PopFrom', 'DelFrom', 'GetFrom'):
                    pre_ch = gen.handle_to(a['p'], a['c'])
                ev = gen.apply(name, a)
                if pre_ch is not None:
                    ev['_ch'] = pre_ch
                who = issue(drv, gen, name, a, ev)
                sent.append((name, a, ev, who))
            for name, a, ev, who in sent:
                rep = drv.w._recv(who)
                absorb(drv, gen, name, a, ev, rep)
                evs.append({k: v for k, v in ev.items() if not k.startswith('_')})
            steps += len(batch)
            evs.append(observation(drv, gen))
        if sc.get('idle_drop'):
            # Every client process makes one last call whose reply carries a proxy, drops ALL its proxies and then stays alive
            # and idle - no further call, not even the harness' ping.  What only that last reply (in the hands of the thread
            # serving the connection) still refers to must go away all the same.  The observation that follows must be of a
            # quiet model state.
            for p in sorted(gen.up):
                if p in gen.kid_parent or any(to == p for o, to in gen.msgs.values()):
                    continue
                objs_held = sorted(set(gen.held[p].values()))
                if objs_held and gen.next <= sc['maxid'] - 4:
                    a = {'p': p, 'o': rnd.choice(objs_held), 'via': 'again'}
                    ev = gen.apply('Create', a)
                    who = issue(drv, gen, 'Create', a, ev)
                    absorb(drv, gen, 'Create', a, ev, drv.w._recv(who))
                    evs.append({k: v for k, v in ev.items() if not k.startswith('_')})
                for x in sorted(gen.held[p]):
                    evs.append(gen.apply('Delete', {'p': p, 'x': x}))
                drv.dropall(p)
            evs.append(observation(drv, gen, final=True))
        # teardown: rebuild nothing more; every process exits holding what it has
        for k in [k for k in sorted(gen.up) if k in gen.kid_parent]:
            drv.exit(k, variant['exit'])
            evs.append(gen.apply('ProcessExit', {'p': k}))
        for p in sorted(gen.up):
            if any(to == p for o, to in gen.msgs.values()):
                # a pickle addressed to p is still unread: consume it first (the property presumes it is read once)
                for i in [i for i, (o, to) in gen.msgs.items() if to == p]:
                    a = {'i': i, 'to': p}
                    ev = gen.apply('RebuildMsg', a)
                    who = issue(drv, gen, 'RebuildMsg', a, ev)
                    absorb(drv, gen, 'RebuildMsg', a, ev, drv.w._recv(who))
                    evs.append(ev)
            for k in [k for k, q in gen.kid_parent.items() if q == p and gen.kid_state[k] == 'unborn']:
                drv.kid_up(k)
                evs.append(gen.apply('RebuildInheriting', {'i': gen.pending_kid[k], 'to': k}))
                drv.exit(k, variant['exit'])
                evs.append(gen.apply('ProcessExit', {'p': k}))
            drv.exit(p, variant['exit'])
            evs.append(gen.apply('ProcessExit', {'p': p}))
        evs.append(observation(drv, gen, final=True))
        return {'id': item['id'], 'status': 'ok', 'ev': evs}
    except StepFailed as e:
        return {'id': item['id'], 'status': 'violation', 'ev': evs,
                'sig': {'kind': 'operation-failed', 'action': e.what.split(':')[0]},
                'detail': {'what': e.what, 'err': e.err, 'tb': e.tb[-1500:], 'last_events': evs[-6:]}}
    finally:
        drv.close()


def gen_scenarios(rnd, count, length):
    out = []
    for k in range(count):
        cs = ['c1', 'c2'] if rnd.random() < 0.7 else ['c1']
        procs = ['p1', 'p2'] if rnd.random() < 0.7 else ['p1', 'p2', 'p3']
        out.append({'procs': procs, 'vault': [rnd.choice(procs)] if k % 3 == 2 else [],
                    'kids': ['k1', 'k2', 'k3'], 'containers': cs, 'blocks': ['m1', 'm2'] if rnd.random() < 0.6 else ['m1'],
                    'ckind': {c: rnd.choice(['dict', 'list']) for c in cs}, 'exit': rnd.choice(['hold', 'hold', 'drop']),
                    'len': length, 'maxid': 120, 'burst': rnd.choice([0.0, 0.3, 0.6]), 'selfstore': rnd.random() < 0.3,
                    'idle_drop': rnd.random() < 0.6})
    return out


def header(sc):
    return {'procs': sc['procs'], 'kids': sc['kids'], 'containers': sc['containers'], 'blocks': sc['blocks']}


# ---------------------------------------------------------------------------------------------------------------

def run_item(item):
    fn = replay if item['kind'] == 'replay' else random_history
    last = None
    for attempt in range(3):
        try:
            r = fn(item)
            r['attempts'] = attempt + 1
            return r
        except Hang as e:
            last = str(e)
        except (EOFError, BrokenPipeError, ConnectionError, OSError) as e:
            last = 'harness connection failed: ' + repr(e) + traceback.format_exc()[-800:]
    return {'id': item['id'], 'status': 'hang', 'detail': last, 'sig': {'kind': 'hang'}}


def run_job(job):
    import gc
    try:
        import faulthandler
        import signal
        faulthandler.register(signal.SIGUSR1, all_threads=True)   # stacks of a stuck job end up in its log
    except Exception:  # noqa: BLE001
        pass
    gc.disable()   # cyclic garbage (process objects with finalizers that join threads) is collected between items only
    res = []
    for item in job['items']:
        t0 = time.time()
        r = run_item(item)
        gc.collect()
        r['wall'] = round(time.time() - t0, 2)
        r['kind'] = item['kind']
        for k in ('src', 'probe', 'variant'):
            if k in item:
                r[k] = item[k]
        if item['kind'] == 'replay' and r['status'] == 'violation' or item.get('probe'):
            r['history'] = item['beh']
        if item['kind'] == 'random':
            r['sc'] = item['sc']
            r['seed'] = item['seed']
        res.append(r)
    return {'results': res, 'n_exec': len(res)}
