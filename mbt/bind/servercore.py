"""Binder for spec/ServerCore.tla: the REAL Server / AsyncServer over a ThreadServlet of harness workers, run under
detsched with virtual time.  Observation: a logging dict installed as the ledger, wrappers around the server's input and
output queue, around Future.cancelled/set_result/set_exception/cancel, and the harness-owned callers and workers.
"""
from __future__ import annotations

import random

from .common import ElemError, strip

U = 0.01  # one virtual time unit
LAG = 0.03  # bounded-lag adversarial time: a due timer may be overtaken by at most this much virtual time


def gen_scenarios(rnd: random.Random, count, max_r=5, flavours=('sync', 'sync', 'async')):
    out = []
    for _ in range(count):
        nr = rnd.randint(2, max_r)
        cap = rnd.choice([1, 1, 2, 2, 3])
        reqs = []
        for r in range(1, nr + 1):
            kind = rnd.choice(['bp', 'wait', 'wait', 'short', 'short'])
            reqs.append({'r': r, 'kind': kind, 'dur': rnd.choice([0, 1, 2, 3, 5]), 'fail': rnd.random() < 0.2,
                         'timeout': rnd.choice([1, 2, 3, 4, 6]) if kind == 'short' else 100000,
                         'delay': rnd.choice([0, 0, 0, 1, 2, 3])})
        stream = None
        if rnd.random() < 0.5:
            ns = rnd.randint(1, 3)
            sreqs = []
            for k in range(ns):
                r = nr + 1 + k
                sreqs.append({'r': r, 'kind': 'stream', 'dur': rnd.choice([0, 1, 2, 3, 5]), 'fail': rnd.random() < 0.2,
                              'timeout': 100000, 'delay': 0})
            stream = {'reqs': [q['r'] for q in sreqs], 'break_at': rnd.choice([None, 1, 1, 2]),
                      'delay': rnd.choice([0, 1, 2])}
            reqs += sreqs
        out.append({'cap': cap, 'workers': rnd.choice([1, 2, 3]), 'flavour': rnd.choice(flavours), 'reqs': reqs,
                    'stream': stream})
    return out


def contended_scenarios(rnd: random.Random, count):
    """Corner family for "waits no longer than its timeout": a full server, one result after the other emerges, and at
    every wake-up several waiters compete for the one freed slot - a waiter with a short timeout is woken while the server
    is full AGAIN, possibly several times, before its deadline.  Run with exact virtual time."""
    out = []
    for _ in range(count):
        cap = rnd.choice([1, 1, 2])
        d1 = rnd.choice([2, 3])
        reqs = []
        for r in range(1, cap + 1):       # these fill the server at time 0 and come out at time d1
            reqs.append({'r': r, 'kind': 'wait', 'dur': d1, 'fail': False, 'timeout': 100000, 'delay': 0})
        for k in range(rnd.randint(1, 2)):   # waiters with a deadline after d1: woken at d1
            reqs.append({'r': len(reqs) + 1, 'kind': 'short', 'dur': rnd.choice([0, 1]), 'fail': False,
                         'timeout': d1 + rnd.choice([1, 2, 3]), 'delay': rnd.choice([0, 1])})
        for k in range(rnd.randint(1, 2)):   # fresh arrivals at the very moment the first results emerge: they race the
            reqs.append({'r': len(reqs) + 1, 'kind': rnd.choice(['wait', 'bp']), 'dur': rnd.choice([3, 4, 6]),   # woken waiter
                         'fail': False, 'timeout': 100000, 'delay': d1})
        out.append({'cap': cap, 'workers': rnd.choice([1, 2]), 'flavour': rnd.choice(['sync', 'sync', 'async']),
                    'reqs': reqs, 'stream': None})
    return out


def header(sc):
    return {'R': len(sc['reqs']), 'cap': sc['cap'], 'kinds': [q['kind'] for q in sc['reqs']],
            'async': sc['flavour'] == 'async'}


_installed = False
_ctx = {'qrole': {}, 'uid2r': {}}


def _install():
    global _installed
    if _installed:
        return
    _installed = True
    import asyncio
    import asyncio.futures
    import asyncio.tasks
    import asyncio.base_events
    import concurrent.futures
    import threading
    from mbt import detsched
    from mpservice.mpserver import _worker

    PyF, PyT = asyncio.futures._PyFuture, asyncio.tasks._PyTask
    asyncio.Future = asyncio.futures.Future = PyF
    asyncio.Task = asyncio.tasks.Task = PyT
    asyncio.base_events.futures.Future = PyF
    asyncio.base_events.tasks.Task = PyT

    Q = _worker._SimpleThreadQueue
    oput, oget = Q.put, Q.get

    def req_of(item):
        if isinstance(item, tuple) and len(item) == 2:
            return _ctx['uid2r'].get(item[0], 0)
        return 0

    def put(self, item, *a, **k):
        role = _ctx['qrole'].get(id(self))
        if role is not None and item is not None and detsched.current() is not None:
            if role == 'in':
                detsched.emit('InPut', r=item[1] if isinstance(item[1], int) else 0)
            else:
                detsched.emit('OutPut', r=req_of(item))
        return oput(self, item, *a, **k)

    def get(self, *a, **k):
        z = oget(self, *a, **k)
        role = _ctx['qrole'].get(id(self))
        if role == 'out' and z is not None and detsched.current() is not None:
            detsched.emit('OutGet', r=req_of(z))
        return z

    Q.put = put
    Q.get = get

    # the capacity condition (registered per scenario in _ctx['cond']): lock / wait / notify traffic
    import asyncio.locks
    TC, AC = threading.Condition, asyncio.locks.Condition
    tc_enter, tc_wait, tc_notify = TC.__enter__, TC.wait, TC.notify

    def c_enter(self):
        res = tc_enter(self)
        if self is _ctx.get('cond') and detsched.current() is not None:
            r = _ctx['cur_r']()
            if r:
                detsched.emit('Lock', r=r)
        return res

    def c_wait(self, timeout=None):
        mine = self is _ctx.get('cond') and detsched.current() is not None
        r = _ctx['cur_r']() if mine else 0
        if r:
            detsched.emit('Wait', r=r)
        res = tc_wait(self, timeout)
        if r:
            detsched.emit('Woke', r=r, ok=bool(res))
        return res

    def c_notify(self, n=1):
        if self is _ctx.get('cond') and detsched.current() is not None:
            detsched.emit('Notify')
        return tc_notify(self, n)

    TC.__enter__, TC.wait, TC.notify = c_enter, c_wait, c_notify
    ac_aenter, ac_wait, ac_notify = AC.__aenter__, AC.wait, AC.notify

    async def a_aenter(self):
        res = await ac_aenter(self)
        if self is _ctx.get('cond') and detsched.current() is not None:
            r = _ctx['cur_r']()
            if r:
                detsched.emit('Lock', r=r)
        return res

    async def a_wait(self):
        mine = self is _ctx.get('cond') and detsched.current() is not None
        r = _ctx['cur_r']() if mine else 0
        if r:
            detsched.emit('Wait', r=r)
        try:
            res = await ac_wait(self)
        except BaseException:
            if r:
                detsched.emit('Woke', r=r, ok=False)
            raise
        if r:
            detsched.emit('Woke', r=r, ok=True)
        return res

    def a_notify(self, n=1):
        if self is _ctx.get('cond') and detsched.current() is not None:
            detsched.emit('Notify')
        return ac_notify(self, n)

    AC.__aenter__, AC.wait, AC.notify = a_aenter, a_wait, a_notify

    def in_gather():
        return '_gather_output' in threading.current_thread().name

    for F, excs in ((concurrent.futures.Future, (concurrent.futures.InvalidStateError,)),
                    (PyF, (asyncio.InvalidStateError,))):
        ocancelled, oset, osetx, ocancel = F.cancelled, F.set_result, F.set_exception, F.cancel

        def cancelled(self, _o=ocancelled):
            v = _o(self)
            r = getattr(self, '_vr', 0)
            if r and detsched.current() is not None and in_gather():
                detsched.emit('IsCancelled', r=r, val=bool(v))
            return v

        def set_result(self, y, _o=oset, _e=excs):
            r = getattr(self, '_vr', 0)
            try:
                _o(self, y)
            except _e:
                if r and detsched.current() is not None:
                    detsched.emit('Set', r=r, ok=False)
                raise
            if r and detsched.current() is not None:
                detsched.emit('Set', r=r, ok=True)

        def set_exception(self, y, _o=osetx, _e=excs):
            r = getattr(self, '_vr', 0)
            try:
                _o(self, y)
            except _e:
                if r and detsched.current() is not None:
                    detsched.emit('Set', r=r, ok=False)
                raise
            if r and detsched.current() is not None:
                detsched.emit('Set', r=r, ok=True)

        if F is PyF:
            def cancel(self, msg=None, _o=ocancel):
                did = _o(self, msg)
                r = getattr(self, '_vr', 0)
                if r and detsched.current() is not None:
                    detsched.emit('Cancel', r=r, did=bool(did))
                return did
        else:
            def cancel(self, _o=ocancel):
                did = _o(self)
                r = getattr(self, '_vr', 0)
                if r and detsched.current() is not None:
                    detsched.emit('Cancel', r=r, did=bool(did))
                return did

        F.cancelled, F.set_result, F.set_exception, F.cancel = cancelled, set_result, set_exception, cancel


def _make_scenario(sc, exact_time=False):
    import asyncio
    import contextvars
    import threading
    import time
    from mbt import detsched
    from mpservice.mpserver import AsyncServer, Server, ServerBacklogFull, ThreadServlet, Worker
    from mpservice._common import TimeoutError as MpTimeout

    reqs = {q['r']: q for q in sc['reqs']}
    cv = contextvars.ContextVar('verif_req', default=0)
    tl = threading.local()
    is_async = sc['flavour'] == 'async'

    def cur_r():
        return cv.get() if is_async else getattr(tl, 'r', 0)

    _ctx['cur_r'] = cur_r
    _ctx['cond'] = None

    class Ledger(dict):
        def __setitem__(self, uid, fut):
            r = cur_r()
            fut._vr = r
            _ctx['uid2r'][uid] = r
            dict.__setitem__(self, uid, fut)
            detsched.emit('Record', r=r, backlog=len(self))

        def pop(self, uid, *a):
            r = _ctx['uid2r'].get(uid, 0)
            try:
                v = dict.pop(self, uid)
            except KeyError:
                detsched.emit('Pop', r=r, hit=False, backlog=len(self))
                if a:
                    return a[0]
                raise
            detsched.emit('Pop', r=r, hit=True, backlog=len(self))
            return v

    gates = sc.get('_gates')

    class W(Worker):
        def call(self, x):
            q = reqs[x]
            detsched.emit('WCall', r=x)
            if gates is not None:
                spins = 0
                while not (gates.get(x) or gates.get('*')) and spins < 4000:
                    detsched.checkpoint('gate')
                    spins += 1
            if q['dur']:
                time.sleep(q['dur'] * U)
            else:
                detsched.checkpoint('work')
            if q['fail']:
                raise ElemError(x)
            return ('r', x)

    def outcome(r, fn):
        """run fn() (sync) and classify"""
        try:
            y = fn()
        except ServerBacklogFull:
            return 'rejected', 'none'
        except MpTimeout:
            return 'timedout', 'none'
        except ElemError as e:
            return ('done', 'err') if e.i == r and reqs[r]['fail'] else ('wrong', 'err')
        if y == ('r', r) and not reqs[r]['fail']:
            return 'done', 'ok'
        return 'wrong', 'ok'

    def finish(server, sched):
        # let every abandoned request drain out of the pipeline, then look at the backlog
        time.sleep(3.0)
        detsched.emit('Idle', backlog=server.backlog)

    def after_exit(sched):
        names = [t.name for t in sched.alive() if t is not sched.root]
        detsched.emit('Exit', leftover=len(names), alive=names)

    if not is_async:
        def root():
            sched = detsched.current()
            server = Server(ThreadServlet(W, num_threads=sc['workers']), capacity=sc['cap'])
            server._uid_to_futures = Ledger()
            orig_enqueue = server._enqueue

            def enqueue(x, *a, **k):
                tl.r = x
                try:
                    return orig_enqueue(x, *a, **k)
                finally:
                    tl.r = 0

            server._enqueue = enqueue
            _ctx['uid2r'].clear()
            _ctx['qrole'].clear()
            server.__enter__()
            _ctx['cond'] = server._pipeline_notfull
            _ctx['qrole'][id(server._q_in)] = 'in'
            _ctx['qrole'][id(server._q_out)] = 'out'

            def caller(q):
                r = q['r']
                if q['delay']:
                    time.sleep(q['delay'] * U)
                if gates is not None:
                    # steered run: a request enters when the behaviour lets it (its first step becomes current), requests the
                    # behaviour never starts enter when the behaviour is exhausted
                    spins = 0
                    while not (gates.get(f's{r}') or gates.get('*')) and spins < 20000:
                        detsched.checkpoint('gate')
                        spins += 1
                detsched.emit('Start', r=r)
                t0 = time.perf_counter()
                out, res = outcome(r, lambda: server.call(r, timeout=q['timeout'] * U, backpressure=q['kind'] == 'bp'))
                late = out in ('rejected', 'timedout') and exact_time and time.perf_counter() - t0 > q['timeout'] * U + 1e-6
                detsched.emit('Ret', r=r, out=out, res=res, late=bool(late))

            def streamer(st):
                if st['delay']:
                    time.sleep(st['delay'] * U)

                def src():
                    for r in st['reqs']:
                        detsched.emit('Start', r=r)
                        yield r

                gen = server.stream(src(), return_x=True, return_exceptions=True, timeout=100000 * U)
                k = 0
                for x, y in gen:
                    if isinstance(y, ElemError):
                        ok = y.i == x and reqs[x]['fail']
                        detsched.emit('Ret', r=x, out='done' if ok else 'wrong', res='err', late=False)
                    else:
                        ok = y == ('r', x) and not reqs[x]['fail']
                        detsched.emit('Ret', r=x, out='done' if ok else 'wrong', res='ok', late=False)
                    k += 1
                    if st['break_at'] is not None and k >= st['break_at']:
                        break
                gen.close()

            ths = [threading.Thread(target=caller, args=(q,), name=f'caller-{q["r"]}') for q in sc['reqs']
                   if q['kind'] != 'stream']
            if sc['stream']:
                ths.append(threading.Thread(target=streamer, args=(sc['stream'],), name='streamer'))
            for t in ths:
                t.start()
            for t in ths:
                t.join()
            finish(server, sched)
            server.__exit__(None, None, None)
            after_exit(sched)
    else:
        def root():
            sched = detsched.current()

            async def main():
                server = AsyncServer(ThreadServlet(W, num_threads=sc['workers']), capacity=sc['cap'])
                server._uid_to_futures = Ledger()
                orig_enqueue = server._enqueue

                async def enqueue(x, *a, **k):
                    tok = cv.set(x)
                    try:
                        return await orig_enqueue(x, *a, **k)
                    finally:
                        cv.reset(tok)

                server._enqueue = enqueue
                _ctx['uid2r'].clear()
                _ctx['qrole'].clear()
                await server.__aenter__()
                _ctx['cond'] = server._pipeline_notfull
                _ctx['qrole'][id(server._q_in)] = 'in'
                _ctx['qrole'][id(server._q_out)] = 'out'

                async def caller(q):
                    r = q['r']
                    if q['delay']:
                        await asyncio.sleep(q['delay'] * U)
                    detsched.emit('Start', r=r)
                    t0 = time.perf_counter()
                    try:
                        y = await server.call(r, timeout=q['timeout'] * U, backpressure=q['kind'] == 'bp')
                    except ServerBacklogFull:
                        out, res = 'rejected', 'none'
                    except MpTimeout:
                        out, res = 'timedout', 'none'
                    except ElemError as e:
                        out, res = ('done', 'err') if e.i == r and q['fail'] else ('wrong', 'err')
                    else:
                        out, res = ('done', 'ok') if y == ('r', r) and not q['fail'] else ('wrong', 'ok')
                    late = out in ('rejected', 'timedout') and exact_time and time.perf_counter() - t0 > q['timeout'] * U + 1e-6
                    detsched.emit('Ret', r=r, out=out, res=res, late=bool(late))

                async def streamer(st):
                    if st['delay']:
                        await asyncio.sleep(st['delay'] * U)

                    async def src():
                        for r in st['reqs']:
                            detsched.emit('Start', r=r)
                            yield r

                    gen = server.stream(src(), return_x=True, return_exceptions=True, timeout=100000 * U)
                    k = 0
                    try:
                        async for x, y in gen:
                            if isinstance(y, ElemError):
                                ok = y.i == x and reqs[x]['fail']
                                detsched.emit('Ret', r=x, out='done' if ok else 'wrong', res='err', late=False)
                            else:
                                ok = y == ('r', x) and not reqs[x]['fail']
                                detsched.emit('Ret', r=x, out='done' if ok else 'wrong', res='ok', late=False)
                            k += 1
                            if st['break_at'] is not None and k >= st['break_at']:
                                break
                    finally:
                        await gen.aclose()

                tasks = [asyncio.create_task(caller(q)) for q in sc['reqs'] if q['kind'] != 'stream']
                if sc['stream']:
                    tasks.append(asyncio.create_task(streamer(sc['stream'])))
                await asyncio.gather(*tasks)
                await asyncio.sleep(3.0)
                detsched.emit('Idle', backlog=server.backlog)
                await server.__aexit__(None, None, None)

            asyncio.run(main())
            after_exit(sched)
    return root


L2_MAP = {
    'CallerCheck': ('c', 'Wait'), 'CallerFirst': ('c', 'Record'), 'CallerSecond': ('c', 'InPut'),
    'CallerCancel': ('c', 'Cancel'), 'CallerWaitLeave': ('c', None), 'CallerWaitReject': ('c', None),
    'CallerGotResult': ('c', None), 'PipeFinish': ('w', 'OutPut'),
    'GatherGet': ('g', 'OutGet'), 'GatherPop': ('g', 'Pop'), 'GatherMiss': ('g', 'Pop'), 'GatherCheck': ('g', 'IsCancelled'),
    'GatherSet': ('g', 'Set'), 'GatherNotify': ('g', None), 'Notify': ('n', 'Notify'),
}


def behaviour_to_item(beh, R, cap):
    """A TLC behaviour of ServerCore (sync flavour, no stream requests) -> scenario + steering script."""
    from mbt.tlc import split_action
    kinds = beh[0][1]['kind']
    if any(k == 'stream' for k in kinds):
        return None
    script, prev = [], beh[0][1]
    for act, st in beh[1:]:
        name, args = split_action(act)
        r = args[0] if args else 0
        if name == 'CallerLock':
            script.append({'role': f'c{r}', 'ev': 'Lock' if prev['pc'][r - 1] == 'start' else 'Woke', 'act': act})
        elif name == 'CallerWaitTimeout':       # the wait for a free slot times out
            script.append({'role': f'c{r}', 'ev': None, 'fire': True, 'after': ['Wait'], 'act': act})
        elif name == 'CallerDeadline':          # the wait for the result times out
            script.append({'role': f'c{r}', 'ev': None, 'fire': True, 'after': ['InPut'], 'act': act})
        elif name == 'CallerCheck':
            script.append({'role': f'c{r}', 'ev': 'Wait' if st['pc'][r - 1] == 'waiting' else None, 'act': act})
        elif name == 'PipeFinish':
            script.append({'role': 'w', 'ev': 'OutPut', 'open': r, 'act': act})
        elif name in L2_MAP:
            kind, ev = L2_MAP[name]
            script.append({'role': f'c{r}' if kind == 'c' else kind, 'ev': ev, 'act': act})
        prev = st
    started = set()
    for stp in script:          # the first step of every caller opens that request's start gate
        if stp['role'].startswith('c') and stp['role'] not in started:
            started.add(stp['role'])
            if stp.get('open') is None:
                stp['open'] = 's' + stp['role'][1:]
    reqs = [{'r': r, 'kind': kinds[r - 1], 'dur': 0, 'fail': False,
             'timeout': 5000 if kinds[r - 1] == 'short' else 100000, 'delay': 0} for r in range(1, R + 1)]
    sc = {'cap': cap, 'workers': R, 'flavour': 'sync', 'reqs': reqs, 'stream': None}
    return {'sc': sc, 'script': script}


def _role_of(t):
    n = t.name
    if n.startswith('caller-'):
        return 'c' + n[7:]
    if '_gather_output' in n:
        return 'g'
    if 'notify' in n:
        return 'n'
    if '-thread-' in n:
        return 'w'
    return 'x'


def run_job(job):
    from mbt import detsched
    _install()
    traces, hangs, n_exec = [], [], 0
    for item in job['items']:
        sc, seed, strat = item['sc'], item['seed'], item.get('strategy', 'random')
        if strat == 'pct':
            st = detsched.PCTStrategy(seed, depth=3 + seed % 4, est_steps=1500, fire=0.2)
        else:
            st = detsched.RandomStrategy(seed, stay=0.5 + 0.4 * ((seed * 7919) % 10) / 10.0, fire=0.25)
        # every third execution runs with exact virtual time (timers fire only when nothing is runnable): there a
        # rejected / timed-out caller must be back by its deadline EXACTLY; the others use bounded-lag adversarial time
        exact = item.get('exact', item['id'] % 3 == 0)
        guided = None
        if item.get('script') is not None:
            gates = {}
            sc = dict(sc, _gates=gates)
            # scripted time-outs expire one thread's timer WITHOUT moving the clock: firing a slot wait that is due at
            # 990 virtual s must not bring the 1000 s deadlines of the requests that never time out in the model within reach
            guided = detsched.GuidedStrategy(item['script'], _role_of, gates, seed=seed, patience=60, advance_clock=False)
            res = detsched.run(_make_scenario(sc, False), guided, max_steps=400000, stall_timeout=120, lag=1.0e6,
                               max_idle_vtime=1.0e7)
            sc = {k: v for k, v in sc.items() if k != '_gates'}
        else:
            res = detsched.run(_make_scenario(sc, exact), st, max_steps=400000, stall_timeout=120,
                               lag=0.0 if exact else LAG, max_idle_vtime=3000.0)
        n_exec += 1
        rec = {'id': item['id'], 'p': header(sc), 'ev': strip(res.trace), 'sc': sc, 'seed': seed, 'strategy': strat,
               'status': res.status}
        if guided is not None:
            rec['l2'] = {'steps': sum(1 for x in item['script'] if x.get('ev') or x.get('fire')),
                         'followed': guided.followed, 'skipped': guided.skipped}
        if res.status != 'ok' or res.exc is not None or res.thread_errors:
            rec.update(detail=res.detail, waitmap=res.waitmap, exc=repr(res.exc) if res.exc is not None else None,
                       leftover=res.leftover, thread_errors=res.thread_errors)
            hangs.append(rec)
            if len(hangs) >= 25:
                break
        else:
            rec['thread_errors'] = res.thread_errors
            traces.append(rec)
    return {'traces': traces, 'hangs': hangs, 'n_exec': n_exec}
