"""Binder for spec/StreamOps.tla (C03): runs cases enumerated by TLC on the REAL mpservice.streamer.Stream.

A case (one JSON line printed by TLC, see `Case` in StreamOps.tla) is
    [source (alphabet indices), program ([op, a, b, n] per chained call), expected elements, expected raised
     element kind or "", shuffled?, need table ([lo, hi] source elements pulled after k answered next() calls)]
Encoding of elements on both sides: int = JSON number; exception OBJECT = the string of its kind ("V" ValueError,
"K" KeyError, "U" the harness' UserErr, "T" TypeError); list/tuple = JSON array.

The binder never computes an expected value: it builds the pipeline from the descriptors, runs it, encodes what came
out and compares with what TLC computed from the TLA+ definitions.  The only Python counterparts are the catalogue of
USER functions (inc, wrap, fail2, odd, nonlist, par, const, sum, cnt), which the spec defines as FVal/Pred/Key/AccF.

Job kinds (job['kind']):
  'cases'   items = [{'id', 'lines': [json text, ...], 'alphabet': [...]}]   spec -> code, plain interpreter
  'sched'   the same but every case runs under detsched with a seeded random schedule (threaded pipelines)
  'random'  items = [{'id', 'seed', 'count', ...}]  code -> spec: random longer programs; outputs are returned (tagged
            JSON) for TLC to judge with StreamOpsCheck.tla
"""
from __future__ import annotations

import json
import random
import threading
import time

_REAL_TIME = time.time


class UserErr(Exception):
    pass


class Src:
    """Instrumented source iterable: counts iter() calls, next() calls and delivered elements."""

    __slots__ = ('data', 'iters', 'calls', 'pulled')

    def __init__(self, data):
        self.data = data
        self.iters = 0
        self.calls = 0
        self.pulled = 0

    def __iter__(self):
        self.iters += 1
        return _SrcIter(self)


class _SrcIter:
    __slots__ = ('s', 'k')

    def __init__(self, s):
        self.s = s
        self.k = 0

    def __iter__(self):
        return self

    def __next__(self):
        s = self.s
        s.calls += 1
        k = self.k
        if k >= len(s.data):
            raise StopIteration
        self.k = k + 1
        s.pulled += 1
        return s.data[k]


# ---- element encoding ------------------------------------------------------------------------------------------

# Variant runs of the same enumerated cases with other *classes* behind the same tokens.  'stopiter': the token 'U' (the user function's
# failure, and the exception element no selector names) is a StopIteration object.  For every operator the sequential meaning is unchanged ("the prefix,
# then that exception"); what Python adds is PEP 479: a StopIteration that leaves a generator frame arrives as a RuntimeError
# whose __cause__ is that StopIteration - the stream still FAILS there, it never just ends early.
VARIANT = {'stopiter': False}


def make(x):
    """JSON token -> fresh Python object"""
    if isinstance(x, int):
        return x
    if isinstance(x, str):
        if x == 'N':
            return None           # None is an ordinary element of a Stream (only IterableQueue reserves it)
        if x == 'V':
            return ValueError('V')
        if x == 'K':
            return KeyError('K')
        if x == 'U':
            return StopIteration('U') if VARIANT['stopiter'] else UserErr('U')
        if x == 'T':
            return TypeError('T')
        raise ValueError(x)
    return [make(y) for y in x]


def enc(x):
    """Python object -> JSON token (unknown things become strings that match nothing)"""
    if type(x) is int:
        return x
    if x is None:
        return 'N'
    if isinstance(x, BaseException):
        if VARIANT['stopiter']:
            if type(x) is RuntimeError and type(x.__cause__) is StopIteration:
                x = x.__cause__           # PEP 479
            if type(x) is StopIteration and x.args and x.args[0] == 'U':
                return x.args[0]
        if isinstance(x, UserErr):
            return 'U'
        if type(x) is ValueError:
            return 'V'
        if type(x) is KeyError:
            return 'K'
        if type(x) is TypeError:
            return 'T'
        return '?' + type(x).__name__ + ':' + str(x)[:80]
    if isinstance(x, (list, tuple)):
        return [enc(y) for y in x]
    return '?' + repr(x)[:80]


def tagged(x):
    """JSON token -> the tagged record TLC uses ([t |-> .., v |-> ..])"""
    if isinstance(x, int):
        return {'t': 'int', 'v': x}
    if isinstance(x, str):
        if x == 'N':
            return {'t': 'nil', 'v': 0}
        return {'t': 'exc', 'v': x} if x in ('V', 'K', 'U', 'T') else {'t': 'exc', 'v': 'other'}
    return {'t': 'list', 'v': [tagged(y) for y in x]}


# ---- the catalogue of user functions (spec: FVal/Fails, Pred, Key, AccF) -----------------------------------------

def f_inc(x):
    return x + 1 if type(x) is int else x


def f_wrap(x):
    return [x]


def f_fail2(x):
    if type(x) is int and x == 2:
        raise (StopIteration('U') if VARIANT['stopiter'] else UserErr('U'))
    return x


FUNCS = {'inc': f_inc, 'wrap': f_wrap, 'fail2': f_fail2}
PREDS = {'odd': lambda x: type(x) is int and x % 2 == 1, 'nonlist': lambda x: not isinstance(x, (list, tuple))}
KEYS = {'par': lambda x: x % 2 if type(x) is int else (2 if isinstance(x, BaseException) else 3), 'const': lambda x: 0}


def _intof(x):
    return x if type(x) is int else 0


ACCS = {'sum': lambda z, x: _intof(z) + _intof(x), 'cnt': lambda z, x: _intof(z) + 1}
GROUP_MAPS = {'now': lambda kv: [kv[0], list(kv[1])], 'keys': lambda kv: kv[0], 'first': lambda kv: [kv[0], next(kv[1])]}
SEL = {'none': None, 'V': ValueError, 'K': KeyError, 'all': Exception, 'empty': (), 'elist': []}

THREADED = ('buffer', 'parmap')


def _sel(name):
    return SEL[name]


def build(stream, prog, sink):
    for op, a, b, n in prog:
        if op == 'map':
            stream.map(FUNCS[a])
        elif op == 'filter':
            stream.filter(PREDS[a])
        elif op == 'fexc':
            stream.filter_exceptions(_sel(a), _sel(b))
        elif op == 'peek':
            stream.peek(print_func=sink.append, interval=1)
        elif op == 'head':
            stream.head(n)
        elif op == 'tail':
            stream.tail(n)
        elif op == 'batch':
            stream.batch(n)
        elif op == 'unbatch':
            stream.unbatch()
        elif op == 'groupby':
            stream.groupby(KEYS[a]).map(GROUP_MAPS[b])
        elif op == 'acc':
            if b == 'init':
                stream.accumulate(ACCS[a], n)
            else:
                stream.accumulate(ACCS[a])
        elif op == 'buffer':
            stream.buffer(n)
        elif op == 'parmap':
            stream.parmap(FUNCS[a], executor='thread', concurrency=n, return_exceptions=(b == 'retexc'),
                          return_x=(b == 'retx'))
        elif op == 'shuffle':
            stream.shuffle(n)
        else:
            raise ValueError(op)
    return stream


def new_pipeline(data_tokens, prog):
    from mpservice.streamer import Stream
    src = Src([make(x) for x in data_tokens])
    sink = []
    st = build(Stream(src), prog, sink)
    return src, st, sink


def _contains(objs, e):
    return any(x is e or (isinstance(x, list) and _contains(x, e)) for x in objs)


def run_iter(data_tokens, prog, want_pulls=True):
    """Consume by explicit next() calls; returns (constructed_clean, outputs, raised, pulls_after_k, raised_obj_is_source)"""
    src, st, _ = new_pipeline(data_tokens, prog)
    clean = src.iters == 0 and src.calls == 0
    out, raised, same = [], '', True
    pulls = [src.pulled]
    it = iter(st)
    try:
        while True:
            try:
                v = next(it)
            except StopIteration:
                pulls.append(src.pulled)
                break
            pulls.append(src.pulled)
            out.append(enc(v))
    except Exception as e:
        raised = enc(e)
        if raised in ('V', 'K'):  # filter_exceptions raises the very object that travelled in the stream
            same = _contains(src.data, e.__cause__ if (VARIANT['stopiter'] and type(e) is RuntimeError) else e)
    finally:
        close = getattr(it, 'close', None)
        if close is not None:
            close()
    return clean, out, raised, pulls, same


def run_collect(data_tokens, prog):
    src, st, _ = new_pipeline(data_tokens, prog)
    try:
        return [enc(v) for v in st.collect()], ''
    except Exception as e:
        return None, enc(e)


def run_drain(data_tokens, prog):
    src, st, _ = new_pipeline(data_tokens, prog)
    try:
        return st.drain(), ''
    except Exception as e:
        return None, enc(e)


def run_partial(data_tokens, prog, k):
    """take exactly k outputs from a fresh pipeline, then abandon it (close): pulls at that moment, and it must end"""
    src, st, _ = new_pipeline(data_tokens, prog)
    it = iter(st)
    for _ in range(k):
        next(it)
    got = src.pulled
    close = getattr(it, 'close', None)
    if close is not None:
        close()
    del it
    return got, src.pulled


def check_case(case, alphabet, idx):
    """Returns None if the real Stream agrees with the case, else a dict describing the first disagreement."""
    inp, prog, exp_out, exp_err, perm, need = case
    data = [alphabet[i - 1] for i in inp]
    threaded = any(p[0] in THREADED for p in prog)
    clean, out, raised, pulls, same = run_iter(data, prog)
    if not clean:
        return {'what': 'construction-pulled', 'got': pulls[:1]}
    if perm:
        return {'perm': {'out': out, 'err': raised}}
    if raised != exp_err:
        return {'what': 'raised', 'mode': 'iter', 'got': raised, 'got_out': out}
    if out != exp_out:
        return {'what': 'output', 'mode': 'iter', 'got': out, 'got_err': raised}
    if not same:
        return {'what': 'raised-object-is-not-the-stream-element', 'got': raised}
    if need:
        if len(pulls) != len(need):
            return {'what': 'need-rows', 'got': pulls}
        for k, (lo, hi) in enumerate(need):
            if not lo <= pulls[k] <= hi:
                return {'what': 'need', 'k': k, 'got': pulls, 'lo_hi': [lo, hi]}
    # the other two ways of consuming (for one case in three when threads are involved: they cost milliseconds)
    modes = ('collect', 'drain') if not threaded else (('collect',), (), ('drain',), (), (), ())[idx % 6]
    for m in modes:
        if m == 'collect':
            got, r = run_collect(data, prog)
            if r != exp_err or (not exp_err and got != exp_out):
                return {'what': 'output' if r == exp_err else 'raised', 'mode': 'collect', 'got': got, 'got_err': r}
        else:
            got, r = run_drain(data, prog)
            if r != exp_err or (not exp_err and got != len(exp_out)):
                return {'what': 'count' if r == exp_err else 'raised', 'mode': 'drain', 'got': got, 'got_err': r}
    # abandon after k outputs (k from the case index): the pull count then, and after the close, stay within Need
    if need and exp_out and not threaded and idx % 4 == 0:
        k = 1 + (idx // 4) % len(exp_out)
        got, after = run_partial(data, prog, k)
        lo, hi = need[k]
        if not (lo <= got <= hi and after == got):
            return {'what': 'need-partial', 'k': k, 'got': [got, after], 'lo_hi': [lo, hi]}
    return None


class _Watch:
    """Runs `fn` in a thread; if one step does not finish within `limit` wall seconds the case is reported as a hang."""

    def __init__(self, limit=40.0):
        self.limit = limit
        self.beat = _REAL_TIME()
        self.cur = None
        self.done = False


def _run_cases(job, under_sched):
    from mbt import detsched
    res = {'n_cases': 0, 'n_threaded': 0, 'mismatches': [], 'perms': [], 'hangs': [], 'n_exec': 0, 'canaries': []}
    watch = _Watch()
    seen = {}

    def body():
        for item in job['items']:
            alphabet = item['alphabet']
            rnd = random.Random(item.get('seed', 0))
            for j, line in enumerate(item['lines']):
                case = json.loads(line)
                watch.cur = case
                watch.beat = _REAL_TIME()
                res['n_cases'] += 1
                if any(p[0] in THREADED for p in case[1]):
                    res['n_threaded'] += 1
                if under_sched:
                    seed = rnd.randrange(1 << 30)
                    r = detsched.run(lambda: check_case(case, alphabet, j),
                                     detsched.RandomStrategy(seed, stay=0.3 + 0.6 * rnd.random()), max_steps=200000,
                                     stall_timeout=60, max_idle_vtime=50.0)
                    if r.status != 'ok' or r.exc is not None:
                        res['hangs'].append({'case': case, 'seed': seed, 'status': r.status, 'detail': r.detail,
                                             'exc': repr(r.exc) if r.exc is not None else None,
                                             'waitmap': {k: repr(v) for k, v in (r.waitmap or {}).items()}})
                        continue
                    bad = r.value
                else:
                    try:
                        bad = check_case(case, alphabet, j)
                    except Exception as e:  # harness trouble is reported, never swallowed
                        bad = {'what': 'harness-exception', 'got': repr(e)}
                res['n_exec'] += 1
                if bad is None:
                    continue
                if 'perm' in bad:
                    res['perms'].append({'id': len(res['perms']), 'case': case, 'alphabet_src': [alphabet[i - 1] for i in case[0]],
                                         **bad['perm']})
                elif item.get('canary'):
                    res['canaries'].append(bad['what'])
                else:
                    # at most 3 examples per (kind, operator sequence): one flood must not hide another disagreement
                    key = bad['what'] + ':' + ','.join(p[0] + ('/elist' if 'elist' in p[1:3] else '') for p in case[1])
                    seen[key] = seen.get(key, 0) + 1
                    if seen[key] <= 3 and len(res['mismatches']) < 300:
                        res['mismatches'].append({'case': case, 'src': [alphabet[i - 1] for i in case[0]], **bad})
            if item.get('canary'):
                res['canary_items'] = res.get('canary_items', 0) + len(item['lines'])
        watch.done = True

    if under_sched:
        body()
        return res
    th = threading.Thread(target=body, daemon=True)
    th.start()
    while not watch.done:
        th.join(0.5)
        if not watch.done and not th.is_alive():
            raise RuntimeError('case thread died')
        if not watch.done and _REAL_TIME() - watch.beat > watch.limit:
            res['hangs'].append({'case': watch.cur, 'status': 'wall-clock', 'detail': f'no result within {watch.limit}s'})
            break
    return res


# ---- code -> spec: random longer programs, judged by TLC (StreamOpsCheck.tla) --------------------------------------

BIG_ALPHABET = [0, 1, 2, 3, 4, 5, 'V', 'K', 'U', [], [1], [2, 1], [[1], 2, []], ['V', 3], [[], [4, [5]]], 'N', 'N', ['N', 1]]


def gen_program(rnd, depth, cur_len_guess):
    prog = []
    n = cur_len_guess
    for _ in range(depth):
        bnd = [x for x in (1, 2, n, n + 1, rnd.randint(1, 6)) if x > 0]
        op = rnd.choice(['map', 'map', 'filter', 'fexc', 'fexc', 'peek', 'head', 'tail', 'batch', 'batch', 'unbatch',
                         'groupby', 'acc', 'buffer', 'parmap', 'shuffle'])
        if op == 'map':
            d = ['map', rnd.choice(['inc', 'wrap', 'fail2']), '', 0]
        elif op == 'filter':
            d = ['filter', rnd.choice(['odd', 'nonlist']), '', 0]
        elif op == 'fexc':
            d = ['fexc', rnd.choice(['none', 'V', 'K', 'all', 'empty']), rnd.choice(['none', 'none', 'V', 'K', 'all']), 0]
        elif op == 'peek':
            d = ['peek', '', '', 0]
        elif op in ('head', 'tail', 'batch', 'buffer'):
            d = [op, '', '', rnd.choice(bnd)]
        elif op == 'unbatch':
            d = ['unbatch', '', '', 0]
        elif op == 'groupby':
            d = ['groupby', rnd.choice(['par', 'par', 'const']), rnd.choice(['now', 'keys', 'first']), 0]
        elif op == 'acc':
            d = ['acc', rnd.choice(['sum', 'cnt']), rnd.choice(['init', 'notset']), 0]
            d[3] = rnd.randint(0, 20) if d[2] == 'init' else 0
        elif op == 'parmap':
            d = ['parmap', rnd.choice(['inc', 'wrap', 'fail2']), rnd.choice(['raise', 'retexc', 'retx']), rnd.randint(1, 3)]
        else:
            d = ['shuffle', '', '', rnd.choice(bnd)]
        prog.append(d)
    # at most one shuffle, and only where few elements can arrive (TLC tries every permutation)
    seen = False
    for d in prog:
        if d[0] == 'shuffle':
            if seen:
                d[0], d[3] = 'peek', 0
            seen = True
    return prog


def _run_random(job, under_sched):
    from mbt import detsched
    res = {'recorded': [], 'hangs': [], 'n_exec': 0}
    for item in job['items']:
        rnd = random.Random(item['seed'])
        explicit = item.get('explicit')  # replay of recorded executions: [{'src', 'prog', 'mode'}]
        for c in range(len(explicit) if explicit is not None else item['count']):
            if explicit is not None:
                data, prog, mode = explicit[c]['src'], explicit[c]['prog'], explicit[c]['mode']
            else:
                has_shuffle = rnd.random() < 0.2
                n = rnd.randint(0, 5 if has_shuffle else item.get('max_len', 8))
                data = [rnd.choice(BIG_ALPHABET) for _ in range(n)]
                prog = gen_program(rnd, rnd.randint(1, item.get('max_depth', 6)), n)
                if not has_shuffle:
                    prog = [d if d[0] != 'shuffle' else ['peek', '', '', 0] for d in prog]
                elif any(d[0] == 'shuffle' for d in prog):
                    # keep the element count at the shuffle small: no unbatch before it
                    k = [d[0] for d in prog].index('shuffle')
                    prog = [d if (i >= k or d[0] != 'unbatch') else ['peek', '', '', 0] for i, d in enumerate(prog)]
                mode = rnd.choice(['iter', 'iter', 'collect', 'drain'])

            def one():
                if mode == 'iter':
                    clean, out, raised, pulls, same = run_iter(data, prog)
                    return {'clean': clean, 'o': out, 'e': raised, 'same': same, 'n': len(out)}
                if mode == 'collect':
                    got, r = run_collect(data, prog)
                    return {'clean': True, 'o': got, 'e': r, 'same': True, 'n': -1 if got is None else len(got)}
                got, r = run_drain(data, prog)
                return {'clean': True, 'o': None, 'e': r, 'same': True, 'n': -1 if got is None else got}

            if under_sched:
                seed = rnd.randrange(1 << 30)
                r = detsched.run(one, detsched.RandomStrategy(seed, stay=0.3 + 0.6 * rnd.random()), max_steps=400000,
                                 stall_timeout=60, max_idle_vtime=50.0)
                if r.status != 'ok' or r.exc is not None:
                    res['hangs'].append({'src': data, 'prog': prog, 'seed': seed, 'status': r.status, 'detail': r.detail,
                                         'exc': repr(r.exc) if r.exc is not None else None,
                                         'waitmap': {k: repr(v) for k, v in (r.waitmap or {}).items()}})
                    continue
                got = r.value
            else:
                got = one()
            res['n_exec'] += 1
            rec = {'id': f"{item['id']}-{c}", 'mode': mode, 'src': data, 'prog': prog, 'got': got,
                   'p': {'src': [tagged(x) for x in data],
                         'prog': [{'op': d[0], 'a': d[1], 'b': d[2], 'n': d[3]} for d in prog],
                         'mode': mode, 'clean': bool(got['clean']), 'same': bool(got['same']), 'n': got['n'],
                         'has_o': got['o'] is not None,
                         'o': [tagged(x) for x in (got['o'] or [])],
                         'e': tagged(got['e']) if got['e'] else {'t': 'none', 'v': 0}}}
            res['recorded'].append(rec)
    return res


def run_job(job):
    kind = job.get('kind', 'cases')
    VARIANT['stopiter'] = job.get('variant') == 'stopiter'
    if kind == 'cases':
        return _run_cases(job, False)
    if kind == 'sched':
        return _run_cases(job, True)
    if kind == 'random':
        return _run_random(job, bool(job.get('detsched', True)))
    raise ValueError(kind)
