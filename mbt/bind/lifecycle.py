"""Binder for spec/ServerLifecycle.tla on REAL processes: Server(ProcessServlet(...)) entered / used / left for two cycles,
with a worker that may fail in __init__, abandoned inputs and results scaled below / beyond the OS pipe buffer.
No detsched here (pipes and processes are real); a hang is a generous wall-clock bound, re-tried by the check."""
from __future__ import annotations

import random

P_UNITS = 2          # pipe capacity of the model, in units


def gen_scenarios(rnd: random.Random, count):
    out = []
    for _ in range(count):
        nwk = rnd.choice([1, 2, 2, 3])
        out.append({'nwk': nwk, 'fail_at': rnd.choice([0, 0, 0, nwk] + list(range(1, nwk + 1))),
                    'ab': rnd.choice([0, 3, 40, 40]), 'in_big': rnd.random() < 0.5, 'res_big': rnd.random() < 0.4,
                    'seq': rnd.random() < 0.3})
        # every fourth scenario on AsyncServer: each cycle under an event loop of its own (asyncio.run twice on the SAME server
        # object), with more concurrent calls than capacity so that requests wait for a slot.  (Small results only: the open
        # finding D11b is about the sync and the async server alike.)
        if len(out) % 4 == 0:
            out[-1].update(flavour='async', res_big=False)
    return out


def header(sc):
    # abstract units: a "big" input / result stream exceeds the pipe, a small one fits
    ab_units = 0 if sc['ab'] == 0 else (P_UNITS + 1 if (sc['in_big'] and sc['ab'] >= 40) else 1)
    if sc.get('flavour') == 'async' and sc['ab']:
        ab_units = 1       # capacity 6: at most 6 abandoned inputs are in flight, far below the pipe buffer
    return {'nwk': sc['nwk'], 'failAt': sc['fail_at'], 'ab': ab_units,
            'rs': P_UNITS + 1 if sc['res_big'] else 1}


def run_item(sc):
    import multiprocessing
    import os
    import threading
    import time
    from mpservice.mpserver import ProcessServlet, SequentialServlet, Server, ThreadServlet
    from mpservice._common import TimeoutError as MpTimeout
    from mbt.bind.lifecycle_workers import LW, InitFailure, Tail

    ev = []
    pipe_sz = 65536
    in_size = 2 * pipe_sz // 40 + 1000 if sc['in_big'] else 10
    res_size = pipe_sz + 5000 if sc['res_big'] else 10        # a single "big" result exceeds the pipe buffer
    base_threads = set(threading.enumerate())

    def leftovers():
        deadline = time.time() + 5.0
        while time.time() < deadline:
            procs = multiprocessing.active_children()
            ths = [t for t in threading.enumerate() if t not in base_threads and t.is_alive()
                   and not t.name.startswith(('QueueFeederThread', 'asyncio_', 'pydevd'))]
            if not procs and not ths:
                return 0, 0, []
            time.sleep(0.05)
        return len(procs), len(ths), [p.name for p in procs] + [t.name for t in ths]

    if sc.get('flavour') == 'async':
        return _run_async(sc, ev, leftovers, in_size, res_size)
    hang = None
    for cycle in (1, 2):
        servlet = ProcessServlet(LW, cpus=sc['nwk'], fail_index=(sc['fail_at'] - 1 if cycle == 1 else -1),
                                 res_size=res_size)
        if cycle == 1 or not sc['seq']:
            pass
        if sc['seq']:
            servlet = SequentialServlet(servlet, ThreadServlet(Tail))
        if cycle == 1:
            server = Server(servlet, capacity=64)
        else:
            # the SAME server object is entered again; its servlet objects are re-used as well
            servlet = server.servlet
            inner = servlet._servlets[0] if sc['seq'] else servlet
            inner._init_kwargs['fail_index'] = -1
        try:
            server.__enter__()
        except InitFailure:
            p, t, names = leftovers()
            ev.append({'ev': 'EnterFailed', 'procs': p, 'threads': t})
            if p or t:
                ev[-1]['names'] = names
            break
        except BaseException as e:
            ev.append({'ev': 'EnterError', 'exc': repr(e)[:200]})
            break
        inner_now = server.servlet._servlets[0] if sc['seq'] else server.servlet
        nalive = sum(1 for w in inner_now.workers if w.is_alive())
        ev.append({'ev': 'Entered', 'alive': nalive})
        try:
            # a completed workload: ok call, failing call, timed-out call, abandoned stream
            server.call(b'a' * 10, timeout=20)
            try:
                server.call(('fail', 1), timeout=20)
            except ValueError:
                pass
            try:
                server.call(('slow', 1), timeout=0.05)
            except MpTimeout:
                pass
            if sc['ab']:
                it = server.stream((b'i' * in_size for _ in range(sc['ab'])), timeout=30)
                next(it)
                it.close()
        except BaseException as e:
            ev.append({'ev': 'WorkloadError', 'exc': repr(e)[:200]})
        done = threading.Event()

        def leave():
            server.__exit__(None, None, None)
            done.set()

        th = threading.Thread(target=leave, daemon=True, name='verif-exit')
        th.start()
        if not done.wait(30.0):
            hang = {'cycle': cycle, 'backlog': server.backlog}
            ev.append({'ev': 'Hang'})
            break
        p, t, names = leftovers()
        ev.append({'ev': 'Exited', 'procs': p, 'threads': t, 'backlog': server.backlog, 'single': sc['nwk'] == 1})
        if p or t:
            ev[-1]['names'] = names
        if cycle == 1:
            ev.append({'ev': 'Reenter'})
    if hang:
        for pr in multiprocessing.active_children():
            try:
                pr.kill()
            except Exception:
                pass
    return ev, hang


def _run_async(sc, ev, leftovers, in_size, res_size):
    """the same two cycles on ONE AsyncServer object, each cycle under its own event loop"""
    import asyncio
    import multiprocessing
    from mpservice.mpserver import AsyncServer, ProcessServlet, SequentialServlet, ThreadServlet
    from mpservice._common import TimeoutError as MpTimeout
    from mbt.bind.lifecycle_workers import LW, InitFailure, Tail

    box = {'server': None, 'hang': None, 'stop': False}

    async def cycle_main(cycle):
        if cycle == 1:
            servlet = ProcessServlet(LW, cpus=sc['nwk'], fail_index=sc['fail_at'] - 1, res_size=res_size)
            if sc['seq']:
                servlet = SequentialServlet(servlet, ThreadServlet(Tail))
            box['server'] = AsyncServer(servlet, capacity=6)
        else:
            servlet = box['server'].servlet
            inner = servlet._servlets[0] if sc['seq'] else servlet
            inner._init_kwargs['fail_index'] = -1
        server = box['server']
        try:
            await server.__aenter__()
        except InitFailure:
            p, t, names = leftovers()
            ev.append({'ev': 'EnterFailed', 'procs': p, 'threads': t})
            if p or t:
                ev[-1]['names'] = names
            box['stop'] = True
            return
        except BaseException as e:  # noqa: BLE001
            ev.append({'ev': 'EnterError', 'exc': repr(e)[:200]})
            box['stop'] = True
            return
        inner_now = server.servlet._servlets[0] if sc['seq'] else server.servlet
        ev.append({'ev': 'Entered', 'alive': sum(1 for w in inner_now.workers if w.is_alive())})
        try:
            await server.call(b'a' * 10, timeout=20)
            try:
                await server.call(('fail', 1), timeout=20)
            except ValueError:
                pass
            try:
                await server.call(('slow', 1), timeout=0.05)
            except MpTimeout:
                pass
            # more concurrent requests than capacity: some wait for a slot
            got = await asyncio.gather(*(server.call(b'c' * 10, timeout=20, backpressure=False) for _ in range(14)))
            assert len(got) == 14
            if sc['ab']:
                async def inputs():
                    for _ in range(sc['ab']):
                        yield b'i' * in_size
                it = server.stream(inputs(), timeout=30)
                await it.__anext__()
                await it.aclose()
        except BaseException as e:  # noqa: BLE001
            ev.append({'ev': 'WorkloadError', 'exc': repr(e)[:200]})
        try:
            await asyncio.wait_for(server.__aexit__(None, None, None), 30.0)
        except asyncio.TimeoutError:
            box['hang'] = {'cycle': cycle, 'backlog': server.backlog}
            ev.append({'ev': 'Hang'})
            box['stop'] = True
            return
        except BaseException as e:  # noqa: BLE001
            ev.append({'ev': 'ExitError', 'exc': repr(e)[:200]})
            box['stop'] = True
            return
        p, t, names = leftovers()
        ev.append({'ev': 'Exited', 'procs': p, 'threads': t, 'backlog': server.backlog, 'single': sc['nwk'] == 1})
        if p or t:
            ev[-1]['names'] = names
        if cycle == 1:
            ev.append({'ev': 'Reenter'})

    for cycle in (1, 2):
        asyncio.run(cycle_main(cycle))
        if box['stop']:
            break
    if box['hang']:
        for pr in multiprocessing.active_children():
            try:
                pr.kill()
            except Exception:  # noqa: BLE001
                pass
    return ev, box['hang']


def run_job(job):
    out = {'traces': [], 'hangs': [], 'n_exec': 0}
    for item in job['items']:
        sc = item['sc']
        ev, hang = run_item(sc)
        out['n_exec'] += 1
        rec = {'id': item['id'], 'p': header(sc), 'ev': ev, 'sc': sc}
        if hang:
            rec['hang'] = hang
            out['hangs'].append(rec)
            break        # this runner process is compromised
        out['traces'].append(rec)
    return out
