"""Binder for spec/FifoStream.tla in Mode = "async": the REAL async_fifo_stream / AsyncParmapperAsync running on an
asyncio loop inside a detsched thread (virtual time: per-call durations realise every completion order)."""
from __future__ import annotations

import random

from .common import ElemError, SrcError, SubmitError, strip, unpp


def corner_scenarios(max_n=6):
    """early stop (break + aclose) with MORE than capacity+1 elements left in the source: unless the stop flag reaches the
    feeder, it refills the drained queue and then blocks for ever while the finalizer awaits it"""
    out = []
    for cap, brk, retexc in ((1, 1, True), (1, 2, False), (2, 1, True)):
        out.append({'n': max_n, 'cap': cap, 'conc': 8, 'retexc': retexc, 'fail': [], 'subfail': 0, 'prefail': [],
                    'srcfail': 0, 'srcbase': False, 'maybreak': True, 'mode': 'async', 'variant': 'afifo', 'retx': True,
                    'break_at': brk, 'usepre': False, 'dur': [0] + [1] * max_n, 'srcdur': [0] * (max_n + 2)})
    return out


def gen_scenarios(rnd: random.Random, count, max_n=6, max_cap=3):
    out = corner_scenarios(max_n)
    for _ in range(count):
        n = rnd.randint(0, max_n)
        variant = rnd.choice(['afifo', 'afifo', 'aparmap'])
        cap = rnd.randint(1, max_cap)
        idx = list(range(1, n + 1))
        rnd.shuffle(idx)
        nf = rnd.choice([0, 0, 1, 1, 2])
        npf = rnd.choice([0, 1, 1, 2])
        fail = sorted(idx[:nf])
        prefail = sorted(idx[nf:nf + npf])
        srcfail = rnd.choice([0, 0, 0] + list(range(1, n + 2)))
        brk = rnd.choice([None, None] + list(range(1, n + 1))) if n else None
        # the submission function itself raises for one element (afifo only: the parmap operators submit by create_task)
        subfail = 0
        if variant == 'afifo' and not srcfail and n and rnd.random() < 0.3:
            cand = [i for i in range(1, n + 1) if i not in prefail]
            subfail = rnd.choice(cand) if cand else 0
        okidx = [i for i in range(1, n + 1) if i not in fail and i not in prefail]
        retobj = sorted(rnd.sample(okidx, min(len(okidx), rnd.choice([0, 0, 1, 2])))) if okidx else []
        out.append({'n': n, 'cap': cap, 'conc': 8, 'retexc': rnd.random() < 0.6, 'fail': fail, 'subfail': subfail,
                    'retobj': retobj,
                    'prefail': prefail, 'srcfail': srcfail, 'srcbase': False, 'maybreak': brk is not None,
                    'mode': 'async', 'variant': variant, 'retx': rnd.random() < 0.6, 'break_at': brk,
                    'usepre': bool(prefail) or rnd.random() < (0.6 if subfail else 0.3),
                    'dur': [rnd.choice([0, 1, 2, 3, 5, 8]) for _ in range(n + 1)],
                    'srcdur': [rnd.choice([0, 0, 1, 2]) for _ in range(n + 2)]})
    return out


def header(sc):
    h = {k: sc[k] for k in ('n', 'cap', 'conc', 'retexc', 'fail', 'prefail', 'srcfail', 'srcbase', 'maybreak', 'mode')}
    h['subfail'] = sc.get('subfail', 0)
    return h


_patched = False
_coro_x = {}


def _tid(t):
    i = getattr(t, '_vi', None)
    if i is not None:
        return i
    gc = getattr(t, 'get_coro', None)
    if gc is not None:
        try:
            i = _coro_x.get(id(t.get_coro()))
        except Exception:
            i = None
        if i is not None:
            return i
    e = getattr(t, '_exception', None)
    return getattr(e, 'i', 0)


def _install():
    global _patched
    if _patched:
        return
    _patched = True
    import asyncio
    import asyncio.futures
    import asyncio.tasks
    from mbt import detsched
    # pure-Python reference implementations of Future/Task (the C accelerators cannot be wrapped)
    PyF, PyT = asyncio.futures._PyFuture, asyncio.tasks._PyTask
    asyncio.Future = asyncio.futures.Future = PyF
    asyncio.Task = asyncio.tasks.Task = PyT
    import asyncio.base_events
    asyncio.base_events.futures.Future = PyF
    asyncio.base_events.tasks.Task = PyT

    def classify(item):
        if item is None:
            return {'t': 'end', 'x': 0, 'f': 0}
        if isinstance(item, BaseException):
            return {'t': 'exc', 'x': 0, 'f': 0}
        if isinstance(item, tuple) and len(item) == 2:
            return {'t': 'item', 'x': item[0] if isinstance(item[0], int) else -1, 'f': _tid(item[1])}
        return {'t': 'other', 'x': 0, 'f': 0}

    oput, oget = asyncio.Queue.put, asyncio.Queue.get

    async def put(self, item):
        await oput(self, item)
        if detsched.current() is not None and getattr(self, '_maxsize', 0) > 0:
            detsched.emit('Put', qlen=self.qsize(), **classify(item))

    async def get(self):
        z = await oget(self)
        if detsched.current() is not None and getattr(self, '_maxsize', 0) > 0:
            detsched.emit('Get', qlen=self.qsize(), **classify(z))
        return z

    asyncio.Queue.put = put
    asyncio.Queue.get = get

    # Task.cancel() is the user-visible operation; PyFuture.cancel is also called internally by the task machinery
    # (on the task itself and on the future it waits for), which is not logged
    otcancel = PyT.cancel

    def tcancel(self, msg=None):
        i = _tid(self)
        did = otcancel(self, msg)
        if i and detsched.current() is not None:
            detsched.emit('Cancel', f=i, did=bool(did))
        return did

    PyT.cancel = tcancel
    ofcancel = PyF.cancel

    def fcancel(self, msg=None):
        i = _tid(self) if not isinstance(self, PyT) else 0
        did = ofcancel(self, msg)
        if i and detsched.current() is not None:
            detsched.emit('Cancel', f=i, did=bool(did))
        return did

    PyF.cancel = fcancel


def _make_scenario(sc):
    import asyncio
    from mbt import detsched
    from mpservice.streamer import async_fifo_stream
    from mpservice.streamer._streamer_async import AsyncStream

    n, fail, prefail = sc['n'], set(sc['fail']), set(sc['prefail'])
    srcfail, dur, srcdur = sc['srcfail'], sc['dur'], sc['srcdur']
    retx, retexc, brk = sc['retx'], sc['retexc'], sc['break_at']
    usepre = sc.get('usepre') or bool(prefail)

    async def agen():
        k = 0
        while True:
            k += 1
            if srcdur[min(k, len(srcdur) - 1)]:
                await asyncio.sleep(srcdur[min(k, len(srcdur) - 1)] * 0.01)
            if srcfail and k == srcfail:
                detsched.emit('SrcRaise')
                raise SrcError('source failed')
            if k > n:
                detsched.emit('SrcEnd')
                return
            detsched.emit('Pull', i=k)
            yield k

    retobj = set(sc.get('retobj') or [])

    async def _awork(x):
        detsched.emit('WStart', i=x)
        await asyncio.sleep(dur[x] * 0.01)
        if x in fail:
            detsched.emit('WFinish', i=x, kind='err')
            raise ElemError(x)
        detsched.emit('WFinish', i=x, kind='ok')
        if x in retobj:
            return ElemError(x, 'returned')     # an exception object RETURNED as the result (see the sync binder)
        return ('r', x)

    def awork(x):
        x = unpp(x)
        c = _awork(x)
        _coro_x[id(c)] = x
        return c

    def pre(x):
        if x in prefail:
            detsched.emit('PreFail', i=x)
            raise ElemError(x, 'pre')
        return ('pp', x)      # TRANSFORMING preprocessor (see the sync binder)

    def classify_y(y):
        if isinstance(y, ElemError) and y.site == 'returned':
            return y.i, 'ok'
        if isinstance(y, ElemError):
            return y.i, 'err'
        if isinstance(y, tuple) and len(y) == 2 and y[0] == 'r':
            return y[1], 'ok'
        return -2, 'bad'

    async def consume(gen):
        sched = detsched.current()
        k = 0

        def closed(kind, i):
            pending = [t for t in asyncio.all_tasks() if t is not asyncio.current_task() and not t.done()]
            detsched.emit('Closed', k=kind, i=i, fa=any('feeder' in t.get_name() or 'parmapper' in t.get_name()
                                                        for t in pending))

        try:
            while True:
                detsched.emit('Next')
                try:
                    v = await gen.__anext__()
                except StopAsyncIteration:
                    closed('none', 0)
                    break
                if retx:
                    x, y = v
                    x = x if isinstance(x, int) else -1      # paired with its own ORIGINAL input
                else:
                    x, y = 0, v
                yi, kind = classify_y(y)
                detsched.emit('Yield', x=x, y=yi, kind=kind)
                k += 1
                if brk is not None and k == brk:
                    detsched.emit('Break')
                    await gen.aclose()
                    closed('none', 0)
                    break
        except ElemError as e:
            closed('err', e.i)
        except SrcError:
            closed('src', 0)
        except SubmitError:
            closed('sub', 0)

    async def main():
        loop = asyncio.get_running_loop()
        if sc['variant'] == 'aparmap':
            s = AsyncStream(agen())
            kw = {'preprocessor': pre} if usepre else {}
            s.parmap(_make_async_func(awork), concurrency=None, return_x=retx, return_exceptions=retexc, **kw)
            gen = s.__aiter__()
        else:
            async def func(x):
                if unpp(x) == sc.get('subfail', 0):
                    detsched.emit('SubFail', i=unpp(x))
                    raise SubmitError(unpp(x))
                detsched.emit('Submit', i=unpp(x))
                t = loop.create_task(awork(x))
                t._vi = unpp(x)
                return t

            gen = async_fifo_stream(agen(), func, capacity=sc['cap'], return_x=retx, return_exceptions=retexc,
                                    preprocessor=pre if usepre else None)
        await consume(gen)

    def _make_async_func(aw):
        # AsyncParmapperAsync wraps `self._func(x)` in loop.create_task; Submit is logged when the coroutine object
        # is created (synchronously inside the library's `func`)
        async def f(x):
            return await inner(x)

        def wrapper(x):
            detsched.emit('Submit', i=unpp(x))
            return aw(x)

        import inspect
        # parmap() selects the async operator by inspect.iscoroutinefunction(func)
        wrapper = _mark_coroutine(wrapper)
        return wrapper

    def root():
        asyncio.run(main())

    return root


def _mark_coroutine(fn):
    import inspect
    try:
        return inspect.markcoroutinefunction(fn)
    except AttributeError:  # pragma: no cover
        import asyncio.coroutines
        fn._is_coroutine = asyncio.coroutines._is_coroutine
        return fn


def run_job(job):
    from mbt import detsched
    _install()
    traces, hangs, n_exec = [], [], 0
    for item in job['items']:
        sc, seed = item['sc'], item['seed']
        _coro_x.clear()
        if sc['variant'] == 'aparmap':
            sc = dict(sc)
            sc['cap'] = 256  # AsyncParmapperAsync: concurrency defaults to 128, capacity = 2 * concurrency
        res = detsched.run(_make_scenario(sc), detsched.RandomStrategy(seed, stay=0.7, fire=0.3), max_steps=80000,
                           stall_timeout=60, lag=0.0, max_idle_vtime=30.0)
        n_exec += 1
        evs = strip(res.trace)
        for k, e in enumerate(evs):
            if e['ev'] == 'Closed':
                evs = evs[:k + 1]  # asyncio.run() cancels orphaned tasks at loop shutdown: not part of the stream
                break
        rec = {'id': item['id'], 'p': header(sc), 'ev': evs, 'sc': sc, 'seed': seed,
               'strategy': 'random', 'status': res.status}
        if res.status != 'ok' or res.exc is not None or res.thread_errors:
            rec.update(detail=res.detail, waitmap=res.waitmap, exc=repr(res.exc) if res.exc is not None else None,
                       leftover=res.leftover)
            hangs.append(rec)
            if len(hangs) >= 25:
                break
        else:
            traces.append(rec)
    return {'traces': traces, 'hangs': hangs, 'n_exec': n_exec}
