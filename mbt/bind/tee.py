"""Binder for spec/Tee.tla: the REAL streamer.tee under detsched in LINE MODE on _tee.py (a scheduling point before every
source line of the fork step).  Observation: harness source, proxy around the shared source lock, wrappers around the
counting queue of this tee, harness consumers."""
from __future__ import annotations

import random

from .common import SrcError, strip


def gen_scenarios(rnd: random.Random, count, max_n=6, max_b=4, forks=(2, 2, 3)):
    out = []
    for _ in range(count):
        n = rnd.choice([0, 1, 2, 3, 4, 5, 6][:max_n + 1])
        out.append({'n': n, 'srcfail': rnd.choice([0, 0] + list(range(1, n + 2))), 'b': rnd.randint(2, max_b),
                    'nf': rnd.choice(forks), 'line': rnd.random() < 0.7})
    return out


def header(sc):
    return {'n': sc['n'], 'srcfail': sc['srcfail'], 'b': sc['b']}


_installed = False
_ctx = {'buf': None, 'fork_of': None}


def _install():
    global _installed
    if _installed:
        return
    _installed = True
    import queue
    from mbt import detsched
    oput, oget = queue.Queue.put, queue.Queue.get

    def put(self, item, block=True, timeout=None):
        oput(self, item, block, timeout)
        if self is _ctx['buf'] and detsched.current() is not None:
            detsched.emit('BufPut', f=_ctx['fork_of'](), qlen=len(self.queue))

    def get(self, block=True, timeout=None):
        z = oget(self, block, timeout)
        if self is _ctx['buf'] and detsched.current() is not None:
            detsched.emit('BufGet', f=_ctx['fork_of'](), qlen=len(self.queue))
        return z

    queue.Queue.put, queue.Queue.get = put, get


def _make_scenario(sc):
    import threading
    from mbt import detsched
    from mpservice.streamer import tee

    n, srcfail, nf = sc['n'], sc['srcfail'], sc['nf']
    tl = threading.local()

    def fork_of():
        return getattr(tl, 'f', 0)

    class CodedSrcError(SrcError):
        """what the source fails with: a class whose constructor signature differs from its args, raised from a cause"""

        def __init__(self, code, msg):
            super().__init__(msg)
            self.code = code

    def same_failure(e):
        """is `e` the source's exception: its class, its args and attributes, its cause"""
        return (type(e) is CodedSrcError and e.args == ('source failed',) and getattr(e, 'code', None) == 7
                and type(e.__cause__) is ConnectionResetError and e.__cause__.args == ('peer',))

    def source():
        # a generator: after it has raised, further next() calls give StopIteration
        for k in range(1, n + 2):
            if srcfail and k == srcfail:
                detsched.emit('SrcRaise', f=fork_of())
                raise CodedSrcError(7, 'source failed') from ConnectionResetError('peer')
            if k > n:
                break
            detsched.emit('Pull', f=fork_of(), i=k)
            yield k
        detsched.emit('SrcStop', f=fork_of())

    class SrcIter:
        """iterator protocol around the generator so that every exhausted next() is logged"""

        def __init__(self):
            self.g = source()
            self.dead = False

        def __iter__(self):
            return self

        def __next__(self):
            if self.dead:
                detsched.emit('SrcStop', f=fork_of())
                raise StopIteration
            try:
                return next(self.g)
            except BaseException:
                self.dead = True
                raise

    class LockProxy:
        def __init__(self, real):
            self.real = real

        def acquire(self, blocking=True, timeout=-1):
            ok = self.real.acquire(blocking, timeout)
            detsched.emit('Lock', f=fork_of(), ok=bool(ok))
            return ok

        def release(self):
            detsched.emit('Unlock', f=fork_of())
            self.real.release()

        def __enter__(self):
            self.acquire()
            return True

        def __exit__(self, *a):
            self.release()

        def locked(self):
            return self.real.locked()

    def root():
        sched = detsched.current()
        streams = tee(SrcIter(), nf, buffer_size=sc['b'])
        forks = [s.streamlets[0] for s in streams]
        proxy = LockProxy(forks[0].instream_lock)
        for fk in forks:
            fk.instream_lock = proxy
        _ctx['buf'] = forks[0].buffer
        _ctx['fork_of'] = fork_of

        def consume(f, stream):
            tl.f = f
            it = iter(stream)
            while True:
                detsched.emit('Call', f=f)
                try:
                    x = next(it)
                except StopIteration:
                    detsched.emit('End', f=f, how='stop')
                    return
                except SrcError as e:
                    detsched.emit('End', f=f, how='exc' if same_failure(e) else 'exc-not-the-sources')
                    return
                except BaseException as e:  # noqa: BLE001
                    # a fork must end by exhaustion or with the source's exception - nothing else
                    detsched.emit('End', f=f, how='unexpected', exc=repr(e)[:200])
                    return
                detsched.emit('Yield', f=f, x=x if isinstance(x, int) else -1)

        ths = [threading.Thread(target=consume, args=(k + 1, s), name=f'fork-{k + 1}') for k, s in enumerate(streams)]
        for t in ths:
            t.start()
        for t in ths:
            t.join()
        detsched.emit('AllDone', locked=bool(proxy.locked()))

    return root


def run_job(job):
    from mbt import detsched
    _install()
    traces, hangs, n_exec = [], [], 0
    for item in job['items']:
        sc, seed, strat = item['sc'], item['seed'], item.get('strategy', 'random')
        if strat == 'pct':
            st = detsched.PCTStrategy(seed, depth=3 + seed % 4, est_steps=600, fire=0.2)
        else:
            st = detsched.RandomStrategy(seed, stay=0.4 + 0.5 * ((seed * 7919) % 10) / 10.0, fire=0.25)
        res = detsched.run(_make_scenario(sc), st, max_steps=300000, stall_timeout=120, lag=0.05,
                           max_idle_vtime=20.0, line_files=('mpservice/streamer/_tee.py',) if sc.get('line') else ())
        n_exec += 1
        rec = {'id': item['id'], 'p': header(sc), 'nf': sc['nf'], 'ev': strip(res.trace), 'sc': sc, 'seed': seed,
               'strategy': strat, 'status': res.status}
        if res.status != 'ok' or res.exc is not None or res.thread_errors:
            rec.update(detail=res.detail, waitmap=res.waitmap, exc=repr(res.exc) if res.exc is not None else None,
                       leftover=res.leftover, thread_errors=res.thread_errors)
            hangs.append(rec)
            if len(hangs) >= 25:
                break
        else:
            traces.append(rec)
    return {'traces': traces, 'hangs': hangs, 'n_exec': n_exec}
