"""Binder for spec/ProxyCall.tla: operations issued through proxies of a REAL ServerProcess.

Callers: "t1", "t2" = threads of the harness (runner) process, each with its own proxies; "ch" = a child process that got
its proxies through Process(args=...); "sv" = a harness thread whose every operation is performed INSIDE the server by
hosted code through an in-server proxy (`VerifCounter.relay(proxy, ...)`); "sx" = the same, but the relaying object is hosted by a
SECOND server process: the proxies it calls through live inside a server that is NOT the one hosting their referents.

* replay (spec -> code): a TLC behaviour (sequence of `act` records) is executed call by call by the designated caller;
  every outcome is compared with the spec's and with a local shadow object on which the same call is made directly;
  on an exception: class, args (== the direct call's), is_remote_exception, server traceback text, and a follow-up call
  on the same proxy; a returned proxy must show the aliased list; at the end every hosted object is read back.
* concurrent (code -> spec): all callers run pre-generated operation lists at once under the OS schedule; call/return
  pairs with global ranks of their invocation / response instants are validated by ProxyCallTrace.tla (TLC searches a
  linearization).
"""
from __future__ import annotations

import pickle
import random
import threading
import time
import traceback

try:   # the check's parent process imports this module only for the generators; it has no mpservice on its path
    from multiprocessing.managers import Namespace, Value

    from mpservice.multiprocessing import Process
    from mpservice.multiprocessing.remote_exception import get_remote_traceback, is_remote_exception
    from mpservice.multiprocessing.server_process import BaseProxy, ServerProcess, managed_list
except ImportError:   # pragma: no cover
    ServerProcess = None
    BaseProxy = ()

STEP_TIMEOUT = 60.0
PK = 6
OBJS = ('L', 'K', 'D', 'N', 'V', 'C')
ALL_CALLERS = ('t1', 't2', 'ch', 'sv', 'sx')


class Hang(Exception):
    pass


# ---------------------------------------------------------------------------------------------------------------
# value catalogue: spec codes -> picklable Python values

class Pt:
    """a picklable custom value"""

    def __init__(self, x, y):
        self.x, self.y = x, y

    def __eq__(self, other):
        return type(other) is Pt and (self.x, self.y) == (other.x, other.y)

    def __hash__(self):
        return hash((self.x, self.y))

    def __repr__(self):
        return f'Pt({self.x}, {self.y})'


class CounterError(Exception):
    pass


_NUMS = [(0, 1, 2), (-7, 5, 2 ** 40), (-1.5, 0.25, 10 ** 20), (0, 1, 2)]
_STRS = ['a', b'\x00\xff', (1, 'x'), Pt(1, 2), 'ünï', frozenset({1, 2})]
_NESTED = [[1, 2], [[0], 'z'], {'k': [1]}, bytearray(b'ab'), [None, (2, 3)]]
_KEYS = [('k1', 'k2', 'k3'), (1, 2, 3), ((1, 'a'), (2, 'b'), (3, 'c')), (b'a', b'b', b'c'), (Pt(0, 1), Pt(0, 2), Pt(0, 3))]
N_VARIANTS = 30


def catalogue(variant):
    v = int(variant)
    nums = _NUMS[v % len(_NUMS)]
    return {'val': {0: nums[0], 1: nums[1], 2: nums[2], 3: _STRS[v % len(_STRS)], 4: None,
                    5: _NESTED[v % len(_NESTED)]},
            'key': dict(zip((1, 2, 3), _KEYS[v % len(_KEYS)]))}


class Alias:
    """shadow world: stands for "a proxy of K" (identity equality, like a proxy object)"""

    def __init__(self, target):
        self.target = target


def same(x, y):
    return type(x) is type(y) and x == y


def dec_val(x, cat):
    if isinstance(x, (BaseProxy, Alias)):
        return PK
    for c, v in cat['val'].items():
        if same(x, v):
            return c
    return -99


def dec_key(x, cat):
    for c, v in cat['key'].items():
        if same(x, v):
            return c
    return -99


# ---------------------------------------------------------------------------------------------------------------
# operations: the same code performs them on a proxy, on a local shadow object, and (relay) inside the server

class InPlace:
    def __init__(self, is_self, value):
        self.is_self, self.value = is_self, value


def apply_op(t, o, op, a, b, s):
    """perform spec operation `op` on Python object / proxy t; a, b, s are Python values already"""
    if o in ('L', 'K'):
        if op == 'append':
            return t.append(a)
        if op == 'pop':
            return t.pop()
        if op == 'popi':
            return t.pop(a)
        if op == 'getitem':
            return t[a]
        if op == 'setitem':
            t[a] = b
            return None
        if op == 'delitem':
            del t[a]
            return None
        if op == 'len':
            return len(t)
        if op == 'contains':
            return a in t
        if op == 'count':
            return t.count(a)
        if op == 'index':
            return t.index(a)
        if op == 'insert':
            return t.insert(a, b)
        if op == 'remove':
            return t.remove(a)
        if op == 'reverse':
            return t.reverse()
        if op == 'reversed':
            return list(reversed(t))
        if op == 'extend':
            return t.extend(s)
        if op == 'iadd':
            r = t.__iadd__(s)
            return InPlace(r is t, r)
        if op == 'sort':
            return t.sort()
        if op == 'add':
            return t + s
        if op == 'mul':
            return t * a
        if op == 'rmul':
            return a * t
        if op == 'imul':
            r = t.__imul__(a)
            return InPlace(r is t, r)
        if op == 'copy':
            return t[:]
    elif o == 'D':
        if op == 'getitem':
            return t[a]
        if op == 'setitem':
            t[a] = b
            return None
        if op == 'delitem':
            del t[a]
            return None
        if op == 'contains':
            return a in t
        if op == 'len':
            return len(t)
        if op == 'get':
            return t.get(a) if b is NOARG else t.get(a, b)
        if op == 'pop':
            return t.pop(a) if b is NOARG else t.pop(a, b)
        if op == 'popitem':
            return t.popitem()
        if op == 'setdefault':
            return t.setdefault(a, b)
        if op == 'update':
            return t.update(dict(s))
        if op == 'clear':
            return t.clear()
        if op == 'copy':
            return list(t.copy().items())
        if op == 'items':
            return list(t.items())
        if op == 'keys':
            return list(t.keys())
        if op == 'values':
            return list(t.values())
    elif o == 'N':
        if op == 'getattr':
            return getattr(t, s)
        if op == 'setattr':
            return setattr(t, s, a)
        if op == 'delattr':
            return delattr(t, s)
    elif o == 'V':
        if op == 'get':
            return t.get()
        if op == 'set':
            return t.set(a)
    elif o == 'C':
        if op in ('inc', 'fail', 'fail_custom', 'push'):
            return getattr(t, op)(a)
        return getattr(t, op)()
    raise ValueError(f'unknown operation {o}.{op}')


class _NoArg:
    def __repr__(self):
        return 'NOARG'

    def __reduce__(self):
        return (_noarg, ())


def _noarg():
    return NOARG


NOARG = _NoArg()

LIST_KIND = {'append': 'none', 'setitem': 'none', 'delitem': 'none', 'insert': 'none', 'remove': 'none', 'reverse': 'none',
             'extend': 'none', 'sort': 'none', 'iadd': 'inplace', 'imul': 'inplace', 'pop': 'val', 'popi': 'val',
             'getitem': 'val', 'len': 'int', 'count': 'int', 'index': 'int', 'contains': 'bool', 'reversed': 'seq',
             'add': 'seq', 'mul': 'seq', 'rmul': 'seq', 'copy': 'seq'}
DICT_KIND = {'setitem': 'none', 'delitem': 'none', 'update': 'none', 'clear': 'none', 'getitem': 'val', 'get': 'val',
             'pop': 'val', 'setdefault': 'val', 'contains': 'bool', 'len': 'int', 'popitem': 'pair', 'copy': 'pairs',
             'items': 'pairs', 'keys': 'keys', 'values': 'seq'}
OTHER_KIND = {('N', 'getattr'): 'val', ('N', 'setattr'): 'none', ('N', 'delattr'): 'none', ('V', 'get'): 'val',
              ('V', 'set'): 'none', ('C', 'inc'): 'int', ('C', 'get'): 'int', ('C', 'push'): 'int', ('C', 'size'): 'int',
              ('C', 'items_copy'): 'seq', ('C', 'items_proxy'): 'val', ('C', 'fail'): 'none', ('C', 'fail_custom'): 'none'}


def kind_of(o, op):
    if o in ('L', 'K'):
        return LIST_KIND[op]
    if o == 'D':
        return DICT_KIND[op]
    return OTHER_KIND[(o, op)]


def R(k, v=0, s=(), e=''):
    return {'k': k, 'v': v, 's': list(s), 'e': e}


def encode(o, op, res, cat):
    """Python outcome -> the spec's result record"""
    kind = kind_of(o, op)
    try:
        if kind == 'inplace':
            if res.is_self:
                return R('none')
            res = res.value
            kind = 'seq' if isinstance(res, list) else 'other'
        if kind == 'none':
            return R('none') if res is None else R('other', e=repr(res)[:80])
        if kind == 'val':
            c = dec_val(res, cat)
            return R('proxy', PK) if c == PK else R('val', c)
        if kind == 'int' and type(res) is int:
            return R('int', res)
        if kind == 'bool' and type(res) is bool:
            return R('bool', int(res))
        if kind == 'seq' and isinstance(res, list):
            return R('seq', s=[dec_val(x, cat) for x in res])
        if kind == 'keys' and isinstance(res, list):
            return R('seq', s=[dec_key(x, cat) for x in res])
        if kind == 'pair' and isinstance(res, tuple) and len(res) == 2:
            return R('seq', s=[dec_key(res[0], cat) * 100 + dec_val(res[1], cat)])
        if kind == 'pairs' and isinstance(res, list):
            return R('seq', s=[dec_key(k, cat) * 100 + dec_val(v, cat) for k, v in res])
    except Exception as e:  # noqa: BLE001
        return R('other', e='encode failed: ' + repr(e)[:80])
    return R('other', e=repr(res)[:80])


def py_args(q, cat, kref):
    """spec arguments (codes) -> Python values; kref: what PK means for this caller (its proxy of K / the shadow Alias)"""
    o, op, a, b, s = q['o'], q['op'], q['a'], q['b'], q['s']

    def val(c):
        return kref if c == PK else cat['val'][c]

    if o in ('L', 'K'):
        if op in ('append', 'contains', 'count', 'index', 'remove'):
            return val(a), None, None
        if op in ('popi', 'getitem', 'delitem', 'mul', 'rmul', 'imul'):
            return a, None, None
        if op in ('setitem', 'insert'):
            return a, val(b), None
        if op in ('extend', 'iadd', 'add'):
            return None, None, [val(c) for c in s]
        return None, None, None
    if o == 'D':
        if op == 'update':
            return None, None, [(cat['key'][x // 100], val(x % 100)) for x in s]
        if op in ('get', 'pop'):
            return cat['key'][a], (NOARG if b == -1 else val(b)), None
        if op in ('setitem', 'setdefault'):
            return cat['key'][a], val(b), None
        if op in ('getitem', 'delitem', 'contains'):
            return cat['key'][a], None, None
        return None, None, None
    if o == 'N':
        return (val(a) if op == 'setattr' else None), None, ('x' if list(s) == [1] else 'y')
    if o == 'V':
        return (val(a) if op == 'set' else None), None, None
    if o == 'C':
        if op == 'push':
            return val(a), None, None
        return (a if op in ('inc', 'fail', 'fail_custom') else None), None, None
    raise ValueError(o)


# ---------------------------------------------------------------------------------------------------------------
# hosted custom class

class Counter:
    def __init__(self):
        self.n = 0
        self.items = []
        self._lock = threading.Lock()

    def inc(self, k):
        with self._lock:
            self.n += k
            return self.n

    def get(self):
        return self.n

    def fail(self, code):
        raise ValueError('boom', code)

    def fail_custom(self, code):
        raise CounterError(code, 'custom')

    def push(self, v):
        with self._lock:
            self.items.append(v)
            return len(self.items)

    def size(self):
        return len(self.items)

    def items_copy(self):
        return list(self.items)

    def items_proxy(self):
        return managed_list(self.items)

    def relay(self, target, o, op, a, b, s):
        """hosted code calling through a proxy inside the server"""
        r = apply_op(target, o, op, a, b, s)
        if isinstance(r, InPlace):
            return ('__inplace__', r.is_self, None if r.is_self else r.value)
        return r


if ServerProcess is not None:
    try:
        ServerProcess.register('VerifCounter', Counter)
    except ValueError:
        pass


# ---------------------------------------------------------------------------------------------------------------
# a caller: performs operations through its own proxies

class Caller:
    def __init__(self, name, px, variant, relay=False, relay_px=None):
        self.name = name
        self.px = dict(px)          # 'L','D','N','V','C' -> proxy (N may be None: creation failed), 'K' -> None at first
        self.px.setdefault('K', None)
        self.cat = catalogue(variant)
        self.relay = relay
        self.relay_px = relay_px if relay_px is not None else self.px.get('C')   # the hosted object whose `relay` makes the calls
        self.create_error = px.get('_N_error')

    def one(self, q):
        o, op = q['o'], q['op']
        t = self.px.get(o)
        out = {'c': self.name, 'o': o, 'op': op, 'a': q['a'], 'b': q['b'], 's': list(q['s'])}
        if t is None:
            out['inv'] = out['ret'] = time.monotonic_ns()
            out['r'] = R('err', e=(self.create_error or ['NoProxy'])[0])
            out['x'] = {'create_failed': self.create_error or 'the caller has no proxy of ' + o}
            return out
        a, b, s = py_args(q, self.cat, self.px.get('K'))
        x = {}
        inv = time.monotonic_ns()
        try:
            if self.relay:
                res = self.relay_px.relay(t, o, op, a, b, s)
                if isinstance(res, tuple) and len(res) == 3 and res[0] == '__inplace__':
                    res = InPlace(res[1], res[2])
            else:
                res = apply_op(t, o, op, a, b, s)
            ret = time.monotonic_ns()
            out['r'] = encode(o, op, res, self.cat)
            prox = res if isinstance(res, BaseProxy) else None
            if prox is not None:
                if self.px.get('K') is None:
                    self.px['K'] = prox
                try:
                    x['alias'] = [dec_val(v, self.cat) for v in prox[:]]
                except Exception as e:  # noqa: BLE001
                    x['alias_error'] = repr(e)
        except Exception as e:  # noqa: BLE001
            ret = time.monotonic_ns()
            out['r'] = R('err', e=type(e).__name__)
            x['args'] = pickle.dumps(e.args).hex() if _picklable(e.args) else repr(e.args)
            x['args_repr'] = repr(e.args)[:200]
            x['remote'] = bool(is_remote_exception(e))
            tb = get_remote_traceback(e) if x['remote'] else ''
            x['tb_ok'] = ('Traceback (most recent call last)' in tb) and (type(e).__name__ in tb) \
                and ('server_process.py' in tb)
            x['tb_tail'] = tb[-300:]
            try:   # the same proxy / connection must still work
                z = t._callmethod('__repr__')
                x['follow_ok'] = isinstance(z, str)
            except Exception as e2:  # noqa: BLE001
                x['follow_ok'] = False
                x['follow_error'] = repr(e2)[:200]
        out['inv'], out['ret'] = inv, ret
        out['x'] = x
        return out

    def run(self, ops):
        return [self.one(q) for q in ops]

    def read_back(self):
        """final state of every hosted object, as spec values"""
        cat = self.cat
        st = {}
        st['L'] = [dec_val(v, cat) for v in self.px['L'][:]]
        st['K'] = [dec_val(v, cat) for v in self.px['C'].items_copy()]
        st['D'] = [[dec_key(k, cat), dec_val(v, cat)] for k, v in self.px['D'].items()]
        st['V'] = dec_val(self.px['V'].get(), cat)
        st['V2'] = dec_val(self.px['V'].value, cat)
        st['n'] = self.px['C'].get()
        if self.px.get('N') is not None:
            nn = {}
            for a in ('x', 'y'):
                try:
                    nn[a] = dec_val(getattr(self.px['N'], a), cat)
                except AttributeError:
                    nn[a] = -1
                except Exception:  # noqa: BLE001 - reading a missing attribute must raise AttributeError; anything
                    nn[a] = -99                          # else shows up as a final-state mismatch (an impossible value)
            st['N'] = nn
        return st


def _picklable(x):
    try:
        pickle.dumps(x)
        return True
    except Exception:  # noqa: BLE001
        return False


def _wait_until(start):
    """all callers begin at the same CLOCK_MONOTONIC instant (sleeping, not spinning: the parent's callers share a GIL)"""
    if start is not None:
        d = (start - time.monotonic_ns()) / 1e9
        if d > 0:
            time.sleep(d)


def child_main(conn, px, variant):
    _stack_dumps()
    me = Caller('ch', px, variant)
    conn.send(('up',))
    while True:
        cmd = conn.recv()
        if cmd[0] == 'run':
            _wait_until(cmd[2])
            try:
                conn.send(('ok', me.run(cmd[1])))
            except BaseException as e:  # noqa: BLE001
                conn.send(('err', repr(e), traceback.format_exc()))
        elif cmd[0] == 'exit':
            conn.send(('ok', None))
            return 0


class ThreadCaller:
    """a parent-side caller living in its own thread (own connection to the server)"""

    def __init__(self, caller):
        import queue
        self.caller = caller
        self.q = queue.Queue()
        self.out = queue.Queue()
        self.th = threading.Thread(target=self._loop, daemon=True)
        self.th.start()

    def _loop(self):
        while True:
            cmd = self.q.get()
            if cmd is None:
                return
            ops, start = cmd
            _wait_until(start)
            try:
                self.out.put(('ok', self.caller.run(ops)))
            except BaseException as e:  # noqa: BLE001
                self.out.put(('err', repr(e), traceback.format_exc()))

    def submit(self, ops, start=None):
        self.q.put((ops, start))

    def result(self):
        import queue
        try:
            return self.out.get(timeout=STEP_TIMEOUT)
        except queue.Empty:
            raise Hang(f'caller {self.caller.name} does not return') from None

    def close(self):
        self.q.put(None)


def _reap(pr):
    """Run the SpawnProcess finalizer (it joins the process's logger thread) NOW, from a quiet point of the harness.
    Left to the garbage collector it runs inside whatever thread happens to allocate - seen: inside a starting thread
    that holds threading._shutdown_locks_lock, where Thread.join() then blocks forever on that same lock."""
    f = getattr(pr, '_finalizer_', None)
    if f is not None:
        try:
            f()
        except Exception:  # noqa: BLE001
            pass


class ChildCaller:
    def __init__(self, px, variant):
        import multiprocessing
        self.conn, b = multiprocessing.Pipe()
        self.pr = Process(target=child_main, args=(b, px, variant), name='ch')
        self.pr.start()
        b.close()
        self._recv()

    def _recv(self):
        if not self.conn.poll(STEP_TIMEOUT):
            raise Hang('child caller does not answer')
        return self.conn.recv()

    def submit(self, ops, start=None):
        self.conn.send(('run', ops, start))

    def result(self):
        return self._recv()

    def close(self):
        try:
            self.conn.send(('exit',))
            self._recv()
            self.pr.join(STEP_TIMEOUT)
        except Exception:  # noqa: BLE001
            pass
        if self.pr.exitcode is None:
            self.pr.kill()
            self.pr.join(5)
        _reap(self.pr)


class World:
    def __init__(self, callers, variant):
        cat = catalogue(variant)
        self.variant = variant
        self.server = ServerProcess()
        self.server.start()
        self.server2 = None
        try:
            if 'sx' in callers:
                self.server2 = ServerProcess()
                self.server2.start()
            px = {'L': self.server.list(), 'D': self.server.dict(), 'V': self.server.Value('i', cat['val'][0]),
                  'C': self.server.VerifCounter()}
            try:
                px['N'] = self.server.Namespace()
            except Exception as e:  # noqa: BLE001
                px['N'] = None
                px['_N_error'] = [type(e).__name__ if type(e).__name__ != 'RemoteError' else _remote_error_class(e),
                                  repr(e)[-300:]]
            self.px = px
            self.callers = {}
            for c in callers:
                mine = {k: (pickle.loads(pickle.dumps(v)) if isinstance(v, BaseProxy) else v) for k, v in px.items()}
                if c == 'ch':
                    self.callers[c] = ChildCaller(mine, variant)
                elif c == 'sx':
                    self.callers[c] = ThreadCaller(Caller(c, mine, variant, relay=True, relay_px=self.server2.VerifCounter()))
                else:
                    self.callers[c] = ThreadCaller(Caller(c, mine, variant, relay=(c == 'sv')))
            self.reader = Caller('reader', px, variant)
        except BaseException:
            self.close()
            raise

    def call(self, c, q):
        self.callers[c].submit([q])
        rep = self.callers[c].result()
        if rep[0] != 'ok':
            raise RuntimeError(f'caller {c} failed: {rep[1:]}')
        return rep[1][0]

    def close(self):
        for c in getattr(self, 'callers', {}).values():
            try:
                c.close()
            except Exception:  # noqa: BLE001
                pass
        for srv in (getattr(self, 'server2', None), self.server):
            if srv is None:
                continue
            try:
                srv.shutdown()
            except Exception:  # noqa: BLE001
                pass
            _reap(getattr(srv, '_process', None))


def _remote_error_class(e):
    """a failure inside Server.create arrives as RemoteError(traceback text): the class is on its last line"""
    lines = [ln for ln in str(e).strip().splitlines() if ln.strip() and not ln.startswith('-')]
    return lines[-1].split(':')[0].strip() if lines else 'RemoteError'


# ---------------------------------------------------------------------------------------------------------------
# shadow: the same calls made directly on local objects

class Shadow:
    def __init__(self, variant):
        self.cat = catalogue(variant)
        self.obj = {'L': [], 'D': {}, 'N': Namespace(), 'V': Value('i', self.cat['val'][0]), 'C': Counter()}
        self.obj['K'] = self.obj['C'].items
        self.alias = Alias(self.obj['K'])

    def one(self, q):
        o, op = q['o'], q['op']
        a, b, s = py_args(q, self.cat, self.alias)
        try:
            res = apply_op(self.obj[o], o, op, a, b, s)
            if res is self.obj['K']:
                res = self.alias         # managed_list(self.items) outside a server returns the list itself
            return {'r': encode(o, op, res, self.cat), 'args': None}
        except Exception as e:  # noqa: BLE001
            return {'r': R('err', e=type(e).__name__), 'args': e.args}


def defect_class(ev):
    """known failure shapes of the as-found code (for signatures)"""
    r = ev.get('r', {})
    if ev.get('o') == 'N' and r.get('e') == 'RecursionError':
        return 'namespace-proxy'
    if ev.get('op') == 'imul' and r.get('k') in ('seq', 'other'):
        return 'imul-returns-copy'
    if ev.get('c') == 'sv' and r.get('e') == 'TypeError':
        return 'in-server-raise'
    return 'other'


# ---------------------------------------------------------------------------------------------------------------
# replay of TLC behaviours

def caller_kind(c):
    return {'sv': 'in-server', 'sx': 'foreign-server', 'ch': 'child'}.get(c, 'thread')


def replay(item):
    acts = item['acts']            # [{c,o,op,a,b,s,r}], spec order
    finals = item.get('final')     # final spec state
    kstates = item.get('kstates')  # K after each act (for the alias check)
    variant = item['variant']
    callers = sorted({a['c'] for a in acts} | {'t1'})
    w = World(callers, variant)
    sh = Shadow(variant)
    n = 0
    try:
        for idx, a in enumerate(acts):
            got = w.call(a['c'], a)
            want = a['r']
            direct = sh.one(a)

            def bad(what, **kw):
                return {'id': item['id'], 'status': 'violation', 'steps': n,
                        'sig': {'o': a['o'], 'op': a['op'], 'caller': caller_kind(a['c']), 'what': what,
                                'class': defect_class(got)},
                        'detail': {'act': {k: a[k] for k in ('c', 'o', 'op', 'a', 'b', 's')}, 'spec': want,
                                   'direct': direct['r'], 'real': got['r'], 'extra': got.get('x'), **kw}}

            if direct['r'] != want:
                return {'id': item['id'], 'status': 'machinery',
                        'detail': f'spec and local reference object disagree on {a}: {direct["r"]}'}
            if got['r'] != want:
                return bad('error-type' if got['r']['k'] == 'err' or want['k'] == 'err' else 'result')
            x = got.get('x', {})
            if want['k'] == 'err':
                real_args = pickle.loads(bytes.fromhex(x['args'])) if _is_hex(x.get('args')) else x.get('args')
                if real_args != direct['args']:
                    return bad('exception-args', direct_args=repr(direct['args']))
                if not x.get('remote'):
                    return bad('not-remote-exception')
                if not x.get('tb_ok'):
                    return bad('no-server-traceback')
                if not x.get('follow_ok'):
                    return bad('connection-unusable-after-error')
            if want['k'] == 'proxy':
                if x.get('alias') != kstates[idx]:
                    return bad('managed-proxy-not-aliased', k_spec=kstates[idx])
            n += 1
        if finals is not None:
            real = w.reader.read_back()
            exp = {'L': finals['L'], 'K': finals['K'], 'D': [[d['k'], d['v']] for d in finals['D']], 'V': finals['V'],
                   'V2': finals['V'], 'n': finals['n']}
            if 'N' in real:
                exp['N'] = {k: v for k, v in finals['N'].items()}
            if real != exp:
                return {'id': item['id'], 'status': 'violation', 'steps': n,
                        'sig': {'o': '*', 'op': 'read-back', 'caller': 'thread', 'what': 'final-state', 'class': 'other'},
                        'detail': {'real': real, 'spec': exp}}
        return {'id': item['id'], 'status': 'ok', 'steps': n}
    finally:
        w.close()


def _is_hex(s):
    if not isinstance(s, str) or len(s) % 2:
        return False
    try:
        bytes.fromhex(s)
        return True
    except ValueError:
        return False


# ---------------------------------------------------------------------------------------------------------------
# concurrent callers under the OS schedule

def gen_ops(rnd, sc, c):
    """operation list of caller c: random operations with valid argument shapes (outcomes depend on the interleaving)"""
    nums = sc['pool'] == 'nums'
    vals = [0, 1, 2] if nums else [0, 1, 2, 3, 4, 5]
    ops = []
    has_k = False
    weights = sc.get('objs', ['L', 'L', 'K', 'D', 'D', 'N', 'V', 'C', 'C'])
    for _ in range(sc['n']):
        o = rnd.choice(weights)
        if o == 'K' and not has_k:
            ops.append({'o': 'C', 'op': 'items_proxy', 'a': -1, 'b': -1, 's': []})
            has_k = True
            continue
        q = {'o': o, 'a': -1, 'b': -1, 's': []}
        if o in ('L', 'K'):
            lv = vals + ([PK] if (o == 'L' and has_k and not nums) else [])
            op = rnd.choice(['append', 'append', 'append', 'pop', 'popi', 'getitem', 'setitem', 'delitem', 'len', 'contains',
                             'count', 'index', 'insert', 'remove', 'reverse', 'reversed', 'extend', 'iadd', 'add', 'mul',
                             'rmul', 'imul', 'copy'] + (['sort'] if nums else []))
            q['op'] = op
            if op in ('append',):
                q['a'] = rnd.choice(lv)
            elif op in ('contains', 'count', 'index', 'remove'):
                q['a'] = rnd.choice(vals)
            elif op in ('popi', 'getitem', 'delitem'):
                q['a'] = rnd.choice([0, 0, 1, 2, 3])
            elif op in ('setitem', 'insert'):
                q['a'] = rnd.choice([0, 1, 2])
                q['b'] = rnd.choice(lv)
            elif op in ('extend', 'iadd', 'add'):
                q['s'] = rnd.choice([[], [1], [2, 0]])
            elif op in ('mul', 'rmul'):
                q['a'] = rnd.choice([0, 1, 2])
            elif op == 'imul':
                q['a'] = rnd.choice([0, 1, 1, 2])
        elif o == 'D':
            dv = [v for v in vals if v != 5]
            op = rnd.choice(['getitem', 'setitem', 'setitem', 'delitem', 'contains', 'len', 'get', 'pop', 'popitem',
                             'setdefault', 'update', 'clear', 'copy', 'items', 'keys', 'values'])
            q['op'] = op
            if op in ('getitem', 'delitem', 'contains'):
                q['a'] = rnd.choice([1, 2, 3])
            elif op in ('setitem', 'setdefault'):
                q['a'] = rnd.choice([1, 2, 3])
                q['b'] = rnd.choice(dv)
            elif op in ('get', 'pop'):
                q['a'] = rnd.choice([1, 2, 3])
                q['b'] = rnd.choice([-1] + dv)
            elif op == 'update':
                q['s'] = rnd.choice([[], [101], [200, 102]])
        elif o == 'N':
            q['op'] = rnd.choice(['getattr', 'setattr', 'setattr', 'delattr'])
            q['s'] = rnd.choice([[1], [2]])
            if q['op'] == 'setattr':
                q['a'] = rnd.choice(vals)
        elif o == 'V':
            q['op'] = rnd.choice(['get', 'set'])
            if q['op'] == 'set':
                q['a'] = rnd.choice(vals)
        else:
            op = rnd.choice(['inc', 'inc', 'get', 'fail', 'fail_custom', 'push', 'size', 'items_copy', 'items_proxy'])
            q['op'] = op
            if op == 'inc':
                q['a'] = rnd.choice([1, 2])
            elif op in ('fail', 'fail_custom'):
                q['a'] = rnd.choice([0, 1, 2])
            elif op == 'push':
                q['a'] = rnd.choice(vals)
            elif op == 'items_proxy':
                has_k = True
        ops.append(q)
    return ops


def possible_args(q, cat, etype):
    """args a direct call can raise with for this operation (tried on a few local states)"""
    outs = []
    for fill in ([], [0], [1, 2, 0, 1], None):
        sh = Shadow.__new__(Shadow)
        sh.cat = cat
        sh.obj = {'L': list(map(cat['val'].get, fill or [])), 'D': {}, 'N': Namespace(), 'V': Value('i', 0), 'C': Counter()}
        sh.obj['C'].items = list(sh.obj['L'])
        sh.obj['K'] = sh.obj['C'].items
        sh.alias = Alias(sh.obj['K'])
        r = sh.one(q)
        if r['r']['k'] == 'err' and r['r']['e'] == etype:
            outs.append(r['args'])
    return outs


def concurrent(item):
    sc = item['sc']
    rnd = random.Random(item['seed'])
    variant = sc['variant']
    cat = catalogue(variant)
    callers = sc['callers']
    plans = {c: gen_ops(rnd, sc, c) for c in callers}
    w = World(callers, variant)
    try:
        start = time.monotonic_ns() + 50_000_000     # everybody begins at the same instant
        for c in callers:
            w.callers[c].submit(plans[c], start)
        res = {}
        for c in callers:
            rep = w.callers[c].result()
            if rep[0] != 'ok':
                return {'id': item['id'], 'status': 'machinery', 'detail': f'caller {c} failed: {rep[1:]}'}
            res[c] = rep[1]
        final = w.reader.read_back()
    finally:
        w.close()
    # python-side checks of every raised exception
    for c in callers:
        for ev in res[c]:
            x = ev.get('x', {})
            if ev['r']['k'] == 'err' and 'create_failed' not in x:
                why = None
                real_args = pickle.loads(bytes.fromhex(x['args'])) if _is_hex(x.get('args')) else x.get('args')
                poss = possible_args(ev, cat, ev['r']['e'])
                if poss and real_args not in poss:
                    why = 'exception-args'
                elif not x.get('remote'):
                    why = 'not-remote-exception'
                elif not x.get('tb_ok'):
                    why = 'no-server-traceback'
                elif not x.get('follow_ok'):
                    why = 'connection-unusable-after-error'
                if why and defect_class(ev) == 'other':
                    return {'id': item['id'], 'status': 'violation',
                            'sig': {'o': ev['o'], 'op': ev['op'], 'caller': caller_kind(c), 'what': why, 'class': 'other'},
                            'detail': {'event': {k: ev[k] for k in ('c', 'o', 'op', 'a', 'b', 's', 'r')}, 'extra': x,
                                       'possible_args': repr(poss)[:300]}}
    # ranks of invocation / response instants; need[d] = number of d's calls that returned before this one was invoked
    seqs = {c: [] for c in ALL_CALLERS}
    flat = []
    for c in callers:
        out = []
        for k, ev in enumerate(res[c]):
            need = {d: sum(1 for e2 in res.get(d, []) if e2['ret'] < ev['inv']) for d in ALL_CALLERS if d != c}
            e = {'c': c, 'i': k + 1, 'o': ev['o'], 'op': ev['op'], 'a': ev['a'], 'b': ev['b'], 's': ev['s'], 'r': ev['r'],
                 'need': need}
            out.append(e)
            flat.append(e)
        seqs[c] = out
    fin = {'L': final['L'], 'K': final['K'], 'D': [d[0] * 100 + d[1] for d in final['D']], 'V': final['V'], 'n': final['n'],
           'hasN': 'N' in final, 'Nx': final.get('N', {}).get('x', -1), 'Ny': final.get('N', {}).get('y', -1)}
    flat.append({'c': '-', 'i': 0, 'o': '-', 'op': 'final'})
    return {'id': item['id'], 'status': 'ok', 'seqs': seqs, 'ev': flat, 'final': fin,
            'classes': sorted({defect_class(e) for e in flat} - {'other'})}


def gen_scenarios(rnd, count, n_ops):
    out = []
    for k in range(count):
        callers = rnd.choice([['t1', 't2', 'ch'], ['t1', 't2', 'ch', 'sv'], ['t1', 'ch', 'sv'], ['t1', 't2', 'sv'], ['t1', 'sx', 'sv'],
                              ['t1', 'ch', 'sx']])
        focus = rnd.choice([None, None, ['L', 'L', 'K', 'C'], ['D', 'D', 'V'], ['N', 'V', 'C'], ['L', 'D']])
        sc = {'variant': rnd.randrange(N_VARIANTS), 'pool': rnd.choice(['nums', 'mixed', 'mixed']), 'n': n_ops,
              'callers': callers}
        if focus:
            sc['objs'] = focus
        out.append(sc)
    return out


# ---------------------------------------------------------------------------------------------------------------

def run_item(item):
    fn = replay if item['kind'] == 'replay' else concurrent
    last = None
    for attempt in range(3):
        try:
            r = fn(item)
            r['attempts'] = attempt + 1
            return r
        except Hang as e:
            last = str(e)
        except (EOFError, BrokenPipeError, ConnectionError, OSError) as e:
            last = 'harness connection failed: ' + repr(e) + traceback.format_exc()[-800:]
    return {'id': item['id'], 'status': 'hang', 'detail': last, 'sig': {'what': 'hang'}}


def _stack_dumps():
    """SIGUSR1 -> Python stacks of all threads on stderr (= the job's log): evidence when a hang is reported"""
    try:
        import faulthandler
        import signal
        faulthandler.register(signal.SIGUSR1, all_threads=True)
    except Exception:  # noqa: BLE001
        pass


def run_job(job):
    import gc
    _stack_dumps()
    gc.disable()   # cyclic garbage (process objects with finalizers that join threads) is collected between items only
    res = []
    for item in job['items']:
        t0 = time.time()
        r = run_item(item)
        gc.collect()
        r['wall'] = round(time.time() - t0, 2)
        r['kind'] = item['kind']
        for k in ('src', 'variant', 'sc', 'seed'):
            if k in item:
                r[k] = item[k]
        if item['kind'] == 'replay' and r['status'] != 'ok':
            r['acts'] = item['acts']
        res.append(r)
    return {'results': res, 'n_exec': len(res)}
