"""Binder for spec/FifoStreamObsTrace.tla under detsched: the two MIXED parmap operators,

  `parmap_async`  ParmapperAsync   synchronous stream, ASYNC worker function (coroutines on a helper loop in a helper thread,
                                   submitted with run_coroutine_threadsafe, consumed through the synchronous fifo_stream)
  `aparmap_sync`  AsyncParmapper   asynchronous stream, SYNC worker function (thread pool behind the asynchronous
                                   async_fifo_stream, results awaited through loop.run_in_executor)

Their insides mix two schedulers (a loop and threads), so - as for the process executor - only what the CONSUMER itself sees is
logged (one thread / one task: exact order): Next, Yield, Break, Closed, ExecShut (with the helper threads left over) and the
call counters; FifoStreamObsTrace makes every other action of FifoStream silent and TLC searches for an explanation."""
from __future__ import annotations

import random

from .common import ElemError, SrcError, unpp


def gen_scenarios(rnd: random.Random, count, max_n=4):
    out = []
    for _ in range(count):
        n = rnd.randint(0, max_n)
        variant = rnd.choice(['parmap_async', 'aparmap_sync'])
        conc = rnd.randint(1, 2)
        idx = list(range(1, n + 1))
        rnd.shuffle(idx)
        nf = rnd.choice([0, 0, 1, 1, 2])
        npf = rnd.choice([0, 0, 0, 1])
        fail = sorted(idx[:nf])
        prefail = sorted(idx[nf:nf + npf])
        srcfail = rnd.choice([0, 0, 0] + list(range(1, n + 2)))
        brk = rnd.choice([None, None] + list(range(1, n + 1))) if n else None
        okidx = [i for i in range(1, n + 1) if i not in fail and i not in prefail]
        retobj = sorted(rnd.sample(okidx, min(len(okidx), rnd.choice([0, 0, 1])))) if okidx else []
        out.append({'n': n, 'cap': 2 * conc, 'conc': conc, 'retexc': rnd.random() < 0.5, 'fail': fail, 'prefail': prefail,
                    'retobj': retobj,
                    'srcfail': srcfail, 'srcbase': False, 'maybreak': brk is not None,
                    'mode': 'async' if variant == 'parmap_async' else 'sync', 'variant': variant,
                    'retx': rnd.random() < 0.6, 'break_at': brk, 'usepre': bool(prefail) or rnd.random() < 0.3,
                    'durs': [0] + [rnd.choice([0, 1, 3, 6]) for _ in range(n)]})
    return out


def header(sc):
    h = {k: sc[k] for k in ('n', 'cap', 'conc', 'retexc', 'fail', 'prefail', 'srcfail', 'srcbase', 'maybreak', 'mode')}
    h['subfail'] = 0
    return h


def _mark_coroutine(fn):
    import inspect
    return inspect.markcoroutinefunction(fn)


_installed = False


def _install():
    global _installed
    if _installed:
        return
    _installed = True
    import asyncio
    import asyncio.base_events
    import asyncio.futures
    import asyncio.tasks
    PyF, PyT = asyncio.futures._PyFuture, asyncio.tasks._PyTask
    asyncio.Future = asyncio.futures.Future = PyF
    asyncio.Task = asyncio.tasks.Task = PyT
    asyncio.base_events.futures.Future = PyF
    asyncio.base_events.tasks.Task = PyT


def _make_scenario(sc):
    import asyncio
    import threading
    import time
    from mbt import detsched
    from mpservice.streamer import Stream
    from mpservice.streamer._streamer_async import AsyncStream

    n, fail, prefail, srcfail = sc['n'], set(sc['fail']), set(sc['prefail']), sc['srcfail']
    durs = sc['durs']
    retx, retexc, brk = sc['retx'], sc['retexc'], sc['break_at']
    usepre = sc.get('usepre') or bool(prefail)
    calls = [0] * (n + 2)
    running = {'now': 0, 'max': 0}

    retobj = set(sc.get('retobj') or [])

    def pre(x):
        if x in prefail:
            raise ElemError(x, 'pre')
        return ('pp', x)      # TRANSFORMING preprocessor

    def classify_y(y):
        if isinstance(y, ElemError) and y.site == 'returned':
            return y.i, 'ok'
        if isinstance(y, ElemError):
            return y.i, 'err'
        if isinstance(y, tuple) and len(y) == 2 and y[0] == 'r':
            return y[1], 'ok'
        return -2, 'bad'

    def enter(x):
        calls[x] += 1
        running['now'] += 1
        running['max'] = max(running['max'], running['now'])

    def closed(kind, i):
        sched = detsched.current()
        names = [t.name for t in sched.alive() if t is not sched.root
                 and ('feeder' in t.name or 'parmapper' in t.name)]
        detsched.emit('Closed', k=kind, i=i, fa=bool(names))

    def finish_events():
        sched = detsched.current()
        # the default executor threads of an event loop (`asyncio_N`) are the loop's, shut down with it: not counted here
        left = [t.name for t in sched.alive() if t is not sched.root and not t.name.startswith('asyncio_')]
        detsched.emit('ExecShut', procs=len(left), names=left)
        detsched.emit('Calls', c=[calls[i] for i in range(1, n + 1)] + [0],
                      maxconc=(running['max'] if sc['variant'] == 'aparmap_sync' else 0))

    if sc['variant'] == 'parmap_async':
        def src():
            for k in range(1, n + 1):
                if srcfail == k:
                    raise SrcError('source fails')
                yield k
            if srcfail == n + 1:
                raise SrcError('source fails')

        async def awork(x):
            x = unpp(x)
            enter(x)
            try:
                if durs[x]:
                    await asyncio.sleep(durs[x] * 0.01)
                else:
                    await asyncio.sleep(0)
                if x in fail:
                    raise ElemError(x)
                if x in retobj:
                    return ElemError(x, 'returned')
                return ('r', x)
            finally:
                running['now'] -= 1

        def root():
            s = Stream(src())
            kw = {'preprocessor': pre} if usepre else {}
            s.parmap(awork, concurrency=sc['conc'], return_x=retx, return_exceptions=retexc, **kw)
            assert s.streamlets[-1]._fifo_capacity == sc['cap']
            gen = iter(s)
            k = 0
            try:
                while True:
                    detsched.emit('Next')
                    try:
                        v = next(gen)
                    except StopIteration:
                        closed('none', 0)
                        break
                    x, y = v if retx else (0, v)
                    x = x if isinstance(x, int) else -1
                    yi, kind = classify_y(y)
                    detsched.emit('Yield', x=x, y=yi, kind=kind)
                    k += 1
                    if brk is not None and k == brk:
                        detsched.emit('Break')
                        gen.close()
                        closed('none', 0)
                        break
            except ElemError as e:
                closed('err', e.i)
            except SrcError:
                closed('src', 0)
            finish_events()

        return root

    # aparmap_sync
    def work(x):
        x = unpp(x)
        enter(x)
        try:
            if durs[x]:
                time.sleep(durs[x] * 0.01)
            else:
                detsched.checkpoint('work')
            if x in fail:
                raise ElemError(x)
            if x in retobj:
                return ElemError(x, 'returned')
            return ('r', x)
        finally:
            running['now'] -= 1

    async def asrc():
        for k in range(1, n + 1):
            if srcfail == k:
                raise SrcError('source fails')
            yield k
        if srcfail == n + 1:
            raise SrcError('source fails')

    async def main():
        s = AsyncStream(asrc())
        kw = {'preprocessor': pre} if usepre else {}
        s.parmap(work, executor='thread', concurrency=sc['conc'], return_x=retx, return_exceptions=retexc, **kw)
        gen = s.__aiter__()
        k = 0
        try:
            while True:
                detsched.emit('Next')
                try:
                    v = await gen.__anext__()
                except StopAsyncIteration:
                    closed('none', 0)
                    break
                x, y = v if retx else (0, v)
                x = x if isinstance(x, int) else -1
                yi, kind = classify_y(y)
                detsched.emit('Yield', x=x, y=yi, kind=kind)
                k += 1
                if brk is not None and k == brk:
                    detsched.emit('Break')
                    await gen.aclose()
                    closed('none', 0)
                    break
        except ElemError as e:
            closed('err', e.i)
        except SrcError:
            closed('src', 0)
        # the inner async generator of AsyncParmapper is finalized by the loop's asyncgen hook: give the loop one turn
        await asyncio.sleep(0.05)

    def root_async():
        asyncio.run(main())
        finish_events()

    return root_async


def run_job(job):
    from mbt import detsched
    _install()
    traces, hangs, n_exec = [], [], 0
    for item in job['items']:
        sc, seed = item['sc'], item['seed']
        if item.get('strategy') == 'pct':
            st = detsched.PCTStrategy(seed, depth=3 + seed % 3, est_steps=600)
        else:
            st = detsched.RandomStrategy(seed, stay=0.5 + 0.4 * ((seed * 7919) % 10) / 10.0)
        res = detsched.run(_make_scenario(sc), st, max_steps=400000, stall_timeout=120, lag=0.02, max_idle_vtime=100.0)
        n_exec += 1
        ev = [{k: v for k, v in e.items() if k not in ('seq', 'th', 'names')} for e in res.trace]
        rec = {'id': item['id'], 'p': header(sc), 'ev': ev, 'sc': sc, 'seed': seed, 'status': res.status,
               'strategy': item.get('strategy', 'random')}
        if res.status != 'ok' or res.exc is not None or res.thread_errors:
            rec.update(detail=res.detail, waitmap=res.waitmap, exc=repr(res.exc) if res.exc is not None else None,
                       leftover=res.leftover, thread_errors=res.thread_errors)
            hangs.append(rec)
            if len(hangs) >= 25:
                break
        else:
            traces.append(rec)
    return {'traces': traces, 'hangs': hangs, 'n_exec': n_exec}
