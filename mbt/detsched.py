"""detsched - deterministic scheduling of *real* CPython thread code (DESIGN.md section 4.3).

Everything `threading`, `queue` and `concurrent.futures` offer is pure Python on top of ONE primitive,
`_thread.allocate_lock`.  `install()` substitutes that primitive (plus thread start/join/is_alive, sleep and the
monotonic clocks) *before* the code under test is imported.  After that the unmodified stdlib and the unmodified
mpservice code run under a scheduler:

* exactly one controlled thread runs at a time (baton passing over real locks);
* every lock acquire, condition wait, thread start/join/exit, sleep (and optionally every source line of chosen
  files) is a scheduling point whose outcome is decided by a Strategy object;
* time is virtual: a timed wait records a deadline and the clock jumps when nothing is runnable (or, in bounded-lag
  adversarial mode, when the strategy decides to fire a timer that is due within `lag` virtual seconds);
* "no runnable thread and no pending deadline" is a deadlock and is reported with a wait-for map;

The scheduler only *resolves* nondeterminism, it never invents wake-ups: `Condition.notify`, `Queue.put`,
`Future.set_result` ... are the stdlib's own code.  Every explored execution is one CPython could produce.

Only the standard library is used.  Import this module and call `install()` first thing in a fresh interpreter.
"""
from __future__ import annotations

import _thread
import os
import sys
import time as _time

_real_allocate = _thread.allocate_lock
_get_ident = _thread.get_ident
_real_sleep = _time.sleep
_real_monotonic = _time.monotonic
_real_perf_counter = _time.perf_counter

RUNNABLE, BLOCKED, DONE = 'runnable', 'blocked', 'done'

_SCHED = None  # the active Scheduler (at most one per process at a time)
_INSTALLED = False


class SchedAbort(BaseException):
    """Raised inside controlled threads when an execution is being torn down (never caught by `except Exception`)."""


class TState:
    __slots__ = ('tid', 'name', 'ident', 'baton', 'status', 'waiting_on', 'deadline', 'thread', 'passthrough',
                 'reg', 'timed_out', 'prio', 'daemon', 'wait_kind')

    def __init__(self, tid, name, thread=None):
        self.tid = tid
        self.name = name
        self.ident = None
        self.baton = _real_allocate()
        self.baton.acquire()  # parked
        self.status = RUNNABLE
        self.waiting_on = None
        self.deadline = None
        self.thread = thread
        self.passthrough = 0
        self.reg = _real_allocate()
        self.reg.acquire()
        self.timed_out = False
        self.prio = 0
        self.daemon = False
        self.wait_kind = None

    def __repr__(self):
        return f'<T{self.tid} {self.name} {self.status}>'


class SchedLock:
    """Substitute for `_thread.allocate_lock()`; scheduler-aware for controlled threads, a plain lock otherwise."""

    __slots__ = ('_real', '__weakref__')

    def __init__(self):
        self._real = _real_allocate()

    def acquire(self, blocking=True, timeout=-1):
        s = _SCHED
        if s is None:
            return self._real.acquire(blocking, timeout)
        me = s.threads.get(_get_ident())
        if me is None or me.passthrough:
            return self._real.acquire(blocking, timeout)
        s.yield_point(me, 'acquire', self)
        if self._real.acquire(False):
            return True
        if not blocking or timeout == 0:
            return False
        deadline = None if (timeout is None or timeout < 0) else s.now + timeout
        while True:
            s.block(me, self, deadline, 'lock')
            if self._real.acquire(False):
                return True
            if deadline is not None and (s.now >= deadline or me.timed_out):
                # (`timed_out` without the clock having reached the deadline: a scripted expiry of this one timer under a
                # guided strategy that leaves the clock alone)
                return False

    __enter__ = acquire

    def release(self):
        self._real.release()
        s = _SCHED
        if s is not None:
            s.on_release(self)

    def __exit__(self, *a):
        self.release()

    def locked(self):
        return self._real.locked()

    def _at_fork_reinit(self):
        self._real._at_fork_reinit()

    def __repr__(self):
        return f'<SchedLock {id(self):#x} {"locked" if self._real.locked() else "free"}>'


# ---------------------------------------------------------------------------------------------------------------
# strategies


class Strategy:
    """Decides (a) which runnable thread runs next and (b) whether to fire a pending timer early."""

    def pick(self, sched, runnable, current):
        raise NotImplementedError

    def fire_early(self, sched, due):  # due: list of TState with deadline within lag
        return None

    def on_thread(self, sched, ts):
        pass


class RandomStrategy(Strategy):
    def __init__(self, seed, stay=0.7, fire=0.15):
        import random
        self.rnd = random.Random(seed)
        self.stay = stay
        self.fire = fire

    def pick(self, sched, runnable, current):
        if current is not None and current.status == RUNNABLE and self.rnd.random() < self.stay:
            return current
        return runnable[self.rnd.randrange(len(runnable))]

    def fire_early(self, sched, due):
        if due and self.rnd.random() < self.fire:
            return due[self.rnd.randrange(len(due))]
        return None


class PCTStrategy(Strategy):
    """Probabilistic concurrency testing (Burckhardt et al.): random priorities + d-1 priority change points."""

    def __init__(self, seed, depth=3, est_steps=400, fire=0.1):
        import random
        self.rnd = random.Random(seed)
        self.change = set(self.rnd.randrange(1, max(2, est_steps)) for _ in range(max(0, depth - 1)))
        self.low = 0
        self.fire = fire

    def on_thread(self, sched, ts):
        ts.prio = self.rnd.random() + 1.0

    def pick(self, sched, runnable, current):
        if sched.steps in self.change and current is not None:
            self.low -= 1
            current.prio = self.low
        return max(runnable, key=lambda t: t.prio)

    def fire_early(self, sched, due):
        if due and self.rnd.random() < self.fire:
            return due[self.rnd.randrange(len(due))]
        return None


class StarveStrategy(Strategy):
    """Adversarial: threads whose name matches `victim` run only when nothing else can (maximises look-ahead etc.)."""

    def __init__(self, seed, victim, stay=0.5):
        import random
        self.rnd = random.Random(seed)
        self.victim = victim
        self.stay = stay

    def pick(self, sched, runnable, current):
        others = [t for t in runnable if not self.victim(t)]
        pool = others or runnable
        if current in pool and self.rnd.random() < self.stay:
            return current
        return pool[self.rnd.randrange(len(pool))]


class GuidedStrategy(Strategy):
    """Steers the real threads along a behaviour produced by TLC (spec -> code leg).

    `script`: list of dicts {'role': ..., 'ev': event name or None, 'open': gate key or None}.  At every decision the thread
    whose role is the role of the current script step is preferred; the step is consumed when that role emits the step's
    event.  `role_of(TState) -> role`.  `gates`: dict shared with the harness; a step with 'open' sets gates[key] = True
    when it becomes current (harness code polls its gate with detsched.checkpoint()).  If the behaviour cannot be followed
    (role not runnable for `patience` decisions) the step is skipped - the execution stays a legal execution of the code and
    is validated like any other; `followed`/`skipped` tell how faithfully the behaviour was realised.
    """

    def __init__(self, script, role_of, gates, seed=0, patience=60, advance_clock=True):
        import random
        self.advance_clock = advance_clock
        self.script = list(script)
        self.role_of = role_of
        self.gates = gates
        self.rnd = random.Random(seed)
        self.ptr = 0
        self.patience = patience
        self.stuck = 0
        self.followed = 0
        self.skipped = 0
        self.last_ev = {}
        self.seen_roles = set()
        self.unborn = 0
        self._open()

    def on_thread(self, sched, ts):
        self.seen_roles.add(self.role_of(ts))

    def _open(self):
        while self.ptr < len(self.script) and self.script[self.ptr].get('ev') is None \
                and self.script[self.ptr].get('open') is None and not self.script[self.ptr].get('fire'):
            self.ptr += 1           # silent step without a gate: nothing to steer
        if self.ptr < len(self.script):
            k = self.script[self.ptr].get('open')
            if k is not None:
                self.gates[k] = True
        else:
            self.gates['*'] = True  # behaviour exhausted: let everything finish

    def on_emit(self, sched, rec):
        t = sched.threads.get(_get_ident())
        if t is not None:
            self.last_ev[self.role_of(t)] = rec['ev']
        if self.ptr >= len(self.script):
            return
        st = self.script[self.ptr]
        if st.get('ev') == rec['ev'] and t is not None and self.role_of(t) == st['role']:
            self.ptr += 1
            self.followed += 1
            self.stuck = 0
            self._open()

    def fire_early(self, sched, due):
        # a step marked 'fire' is a timer expiry of that role's thread (deadline of a wait / of a result): fire it now
        if self.ptr < len(self.script) and self.script[self.ptr].get('fire'):
            role = self.script[self.ptr]['role']
            need = self.script[self.ptr].get('after')       # the timer belongs to the wait that follows this event
            if os.environ.get('VERIF_DEBUG_GUIDED'):
                print('FIRE?', self.ptr, role, need, [(self.role_of(t), t.deadline, self.last_ev.get(self.role_of(t))) for t in due], file=sys.stderr)
            for t in due:
                if self.role_of(t) == role and (need is None or self.last_ev.get(role) in need):
                    self.ptr += 1
                    self.followed += 1
                    self.stuck = 0
                    self._open()
                    return t
        return None

    def pick(self, sched, runnable, current):
        if self.ptr < len(self.script):
            role = self.script[self.ptr]['role']
            cands = [t for t in runnable if self.role_of(t) == role]
            if cands:
                self.stuck = 0
                return current if current in cands else cands[0]
            if role not in self.seen_roles and self.unborn < 5000:
                # the thread that plays this role has not been created yet: that is not "the behaviour cannot be followed";
                # let the others (above all the thread that creates it) run without using up the patience
                self.unborn += 1
            else:
                self.stuck += 1
            if self.stuck > self.patience:
                k = self.script[self.ptr].get('open')
                if k is not None:
                    self.gates[k] = True
                if os.environ.get('VERIF_DEBUG_GUIDED'):
                    print('SKIP', self.ptr, self.script[self.ptr], [(self.role_of(t), t.status) for t in sched.all], file=sys.stderr)
                self.ptr += 1
                self.skipped += 1
                self.stuck = 0
                self._open()
        if current is not None and current.status == RUNNABLE and self.rnd.random() < 0.5:
            return current
        return runnable[self.rnd.randrange(len(runnable))]


class ReplayStrategy(Strategy):
    """Replays a recorded list of choices (tid per decision, 'T<tid>' entries mean: fire that thread's timer)."""

    def __init__(self, choices):
        self.choices = list(choices)
        self.k = 0
        self.diverged = None

    def _next(self):
        if self.k < len(self.choices):
            c = self.choices[self.k]
            return c
        return None

    def pick(self, sched, runnable, current):
        if len(runnable) == 1:
            return runnable[0]
        c = self._next()
        if isinstance(c, int):
            for t in runnable:
                if t.tid == c:
                    self.k += 1
                    return t
            self.diverged = (self.k, c, [t.tid for t in runnable])
        if current is not None and current.status == RUNNABLE:
            return current
        return runnable[0]

    def fire_early(self, sched, due):
        c = self._next()
        if isinstance(c, str) and c.startswith('T'):
            for t in due:
                if t.tid == int(c[1:]):
                    self.k += 1
                    return t
        return None


class DFSStrategy(Strategy):
    """Stateless exhaustive exploration of the schedule tree of the real code with a preemption bound.

    Use: `d = DFSStrategy(bound); while d.more(): run(fn, strategy=d)`.
    """

    def __init__(self, preemption_bound=2, max_runs=100000):
        self.bound = preemption_bound
        self.stack = []  # list of [chosen_index, n_alternatives]
        self.depth = 0
        self.first = True
        self.exhausted = False
        self.runs = 0
        self.max_runs = max_runs
        self.preempt = 0

    def more(self):
        if self.first:
            self.first = False
            self.depth = 0
            self.preempt = 0
            return True
        # advance to next branch
        while self.stack and self.stack[-1][0] + 1 >= self.stack[-1][1]:
            self.stack.pop()
        if not self.stack or self.runs >= self.max_runs:
            self.exhausted = not self.stack
            return False
        self.stack[-1][0] += 1
        self.depth = 0
        self.preempt = 0
        return True

    def pick(self, sched, runnable, current):
        # order alternatives: current first (no preemption), then others by tid
        alts = list(runnable)
        cur_ok = current is not None and current.status == RUNNABLE and current in alts
        if cur_ok:
            alts.remove(current)
            alts.insert(0, current)
            if self.preempt >= self.bound:
                alts = alts[:1]
        if self.depth < len(self.stack):
            idx, n = self.stack[self.depth]
            if idx >= len(alts):
                idx = 0
        else:
            idx = 0
            self.stack.append([0, len(alts)])
        self.depth += 1
        if cur_ok and idx > 0:
            self.preempt += 1
        return alts[idx]


# ---------------------------------------------------------------------------------------------------------------


class Result:
    def __init__(self):
        self.status = None  # ok | deadlock | livelock | steplimit | stall | error
        self.value = None
        self.exc = None
        self.trace = []
        self.choices = []
        self.waitmap = {}
        self.leftover = []
        self.steps = 0
        self.vtime = 0.0
        self.thread_errors = []
        self.detail = ''
        self.root_done = False
        self.at_root_exit = None

    def __repr__(self):
        return f'<Result {self.status} steps={self.steps} vtime={self.vtime:.3f} {self.detail}>'


class Scheduler:
    def __init__(self, strategy, max_steps=200000, lag=0.0, line_files=(), on_step=None, max_idle_vtime=500.0,
                 t0=1000.0, record_choices=True, yield_on_release=False):
        self.strategy = strategy
        self.max_steps = max_steps
        self.lag = lag
        self.line_files = tuple(line_files)
        self.on_step = on_step
        self.max_idle_vtime = max_idle_vtime
        self.now = t0
        self.threads = {}  # ident -> TState (live, controlled)
        self.all = []  # all TStates in creation order
        self.current = None
        self.steps = 0
        self.trace = []
        self.choices = []
        self.record_choices = record_choices
        self.result = Result()
        self.done_lock = _real_allocate()
        self.done_lock.acquire()
        self.finished = False
        self.last_progress_vtime = t0
        self.root = None
        self.root_done = False
        self.thread_errors = []
        self.yield_on_release = yield_on_release
        self.seq = 0
        self.clock_eps = 0.0
        self.clock_reads = 0

    # ---- helpers -------------------------------------------------------------------------------------------
    def me(self):
        t = self.threads.get(_get_ident())
        if t is None or t.passthrough:
            return None
        return t

    def emit(self, ev, **kw):
        """Record one event in exact execution order.  Safe to call from any controlled thread."""
        self.seq += 1
        t = self.threads.get(_get_ident())
        rec = {'seq': self.seq, 'th': t.tid if t else -1, 'ev': ev}
        rec.update(kw)
        self.trace.append(rec)
        self.last_progress_vtime = self.now
        hook = getattr(self.strategy, 'on_emit', None)
        if hook is not None:
            hook(self, rec)
            # under a guided strategy every logged event is also a scheduling point, so that the next step of the
            # behaviour can be given to another thread before this one goes on to its next event
            if t is not None and not t.passthrough and not self.finished:
                self.yield_point(t, 'emit', None)
        return rec

    def alive(self):
        return [t for t in self.all if t.status != DONE]

    def _runnable(self):
        return [t for t in self.all if t.status == RUNNABLE]

    def _finish(self, status, detail=''):
        if self.finished:
            return
        self.finished = True
        r = self.result
        r.status = status
        r.detail = detail
        r.trace = self.trace
        r.choices = self.choices
        r.steps = self.steps
        r.vtime = self.now
        r.thread_errors = self.thread_errors
        r.waitmap = {f'T{t.tid}:{t.name}': (t.wait_kind, repr(t.waiting_on), t.deadline) for t in self.all
                     if t.status == BLOCKED}
        r.leftover = [f'T{t.tid}:{t.name}' for t in self.all if t.status != DONE and t is not self.root]
        self.done_lock.release()

    def _park_forever(self, me):
        # the execution is over (deadlock / abort); this thread is abandoned
        me.passthrough += 1
        while True:
            me.baton.acquire()

    def _choose(self, me):
        """Pick the next thread to run.  `me` may be RUNNABLE, BLOCKED or DONE.  Returns a TState or None (=over)."""
        while True:
            runnable = self._runnable()
            # bounded-lag adversarial time: fire a timer although threads are runnable
            if runnable and self.lag > 0:
                # a thread whose timer has fired but which has not run yet may be overtaken by at most `lag`
                overdue = [t.deadline for t in self.all if t.status == RUNNABLE and t.timed_out
                           and t.deadline is not None]
                limit = (min(overdue) + self.lag) if overdue else float('inf')
                due = [t for t in self.all if t.status == BLOCKED and t.deadline is not None
                       and t.deadline - self.now <= self.lag and t.deadline <= limit]
                if due:
                    t = self.strategy.fire_early(self, due)
                    if t is not None and not getattr(self.strategy, 'advance_clock', True):
                        # scripted expiry of ONE thread's timer without moving the clock (spec -> code steering: the model
                        # has no clock, the behaviour says "this wait times out now"; the other threads' deadlines must
                        # not come closer because of it)
                        t.status = RUNNABLE
                        t.timed_out = True
                        if self.record_choices:
                            self.choices.append(f'T{t.tid}')
                        continue
                    if t is not None:
                        # keep deadline order: everything due before t fires too
                        for u in due:
                            if u.deadline <= t.deadline:
                                u.status = RUNNABLE
                                u.timed_out = True
                        self.now = max(self.now, t.deadline)
                        if self.record_choices:
                            self.choices.append(f'T{t.tid}')
                        continue
            if runnable:
                nxt = self.strategy.pick(self, runnable, me if me.status == RUNNABLE else None)
                if self.record_choices and (len(runnable) > 1):
                    self.choices.append(nxt.tid)
                return nxt
            timed = [t for t in self.all if t.status == BLOCKED and t.deadline is not None]
            if timed:
                d = min(t.deadline for t in timed)
                self.now = max(self.now, d)
                for t in timed:
                    if t.deadline <= self.now:
                        t.status = RUNNABLE
                        t.timed_out = True
                if self.now - self.last_progress_vtime > self.max_idle_vtime:
                    self._finish('livelock', f'no progress event for {self.now - self.last_progress_vtime:.1f} virtual s')
                    return None
                continue
            if all(t.status == DONE for t in self.all):
                self._finish('ok')
            else:
                self._finish('deadlock', 'no runnable thread and no pending timer')
            return None

    def _switch(self, me, nxt):
        if nxt is me:
            return
        self.current = nxt
        nxt.baton.release()
        me.baton.acquire()
        if self.finished:
            self._park_forever(me)

    # ---- scheduling points ---------------------------------------------------------------------------------
    def yield_point(self, me, kind=None, obj=None):
        if self.finished:
            self._park_forever(me)
        self.steps += 1
        if self.steps > self.max_steps:
            self._finish('steplimit', f'more than {self.max_steps} scheduling steps')
            self._park_forever(me)
        cb = self.on_step
        if cb is not None:
            me.passthrough += 1
            try:
                cb(self, me, kind, obj)
            finally:
                me.passthrough -= 1
        nxt = self._choose(me)
        if nxt is None:
            self._park_forever(me)
        self._switch(me, nxt)

    def block(self, me, obj, deadline, kind):
        if self.finished:
            self._park_forever(me)
        me.status = BLOCKED
        me.waiting_on = obj
        me.deadline = deadline
        me.wait_kind = kind
        me.timed_out = False
        nxt = self._choose(me)
        if nxt is None:
            self._park_forever(me)
        self._switch(me, nxt)
        me.waiting_on = None
        me.deadline = None
        me.wait_kind = None

    def on_release(self, lock):
        for t in self.all:
            if t.status == BLOCKED and t.waiting_on is lock:
                t.status = RUNNABLE

    def thread_exit(self, me):
        me.status = DONE
        self.threads.pop(me.ident, None)
        self.last_progress_vtime = self.now
        for t in self.all:
            if t.status == BLOCKED and t.waiting_on is me:
                t.status = RUNNABLE
        if self.finished:
            return
        nxt = self._choose(me)
        if nxt is None:
            return
        self.current = nxt
        nxt.baton.release()

    def sleep(self, me, secs):
        self.yield_point(me, 'sleep', secs)
        if secs > 0:
            deadline = self.now + secs
            while self.now < deadline:
                self.block(me, None, deadline, 'sleep')

    # ---- line mode -----------------------------------------------------------------------------------------
    def _make_tracer(self):
        files = self.line_files
        sched = self

        def local(frame, event, arg):
            if event == 'line':
                me = sched.threads.get(_get_ident())
                if me is not None and not me.passthrough and not sched.finished:
                    sched.yield_point(me, 'line', (frame.f_code.co_filename, frame.f_lineno))
            return local

        def glob(frame, event, arg):
            if event == 'call' and frame.f_code.co_filename.endswith(files):
                return local
            return None

        return glob


# ---------------------------------------------------------------------------------------------------------------
# substitutes installed into the stdlib

_orig = {}


def _thread_start(self):
    s = _SCHED
    me = s.me() if s is not None else None
    if me is None or s.finished:
        return _orig['start'](self)
    ts = TState(len(s.all), self.name, self)
    ts.daemon = self.daemon
    self._detsched_ts = ts
    ts_sched = s
    orig_run = self.run
    tracer = s._make_tracer() if s.line_files else None

    def run_wrapper():
        ts.ident = _get_ident()
        ts_sched.threads[ts.ident] = ts
        ts.reg.release()
        ts.baton.acquire()  # parked until scheduled for the first time
        if ts_sched.finished:
            ts_sched._park_forever(ts)
        if tracer is not None:
            sys.settrace(tracer)
        try:
            orig_run()
        except SchedAbort:
            pass
        except BaseException as e:  # uncaught in thread
            ts_sched.thread_errors.append((ts.name, repr(e)))
            raise
        finally:
            if tracer is not None:
                sys.settrace(None)
            ts_sched.thread_exit(ts)

    self.run = run_wrapper
    me.passthrough += 1
    try:
        _orig['start'](self)  # real handshake (parent and child both uncontrolled meanwhile)
        ts.reg.acquire()
    finally:
        me.passthrough -= 1
    s.all.append(ts)
    s.strategy.on_thread(s, ts)
    s.last_progress_vtime = s.now
    s.yield_point(me, 'start', ts)


def _thread_join(self, timeout=None):
    s = _SCHED
    ts = getattr(self, '_detsched_ts', None)
    me = s.me() if s is not None else None
    if me is None or ts is None or ts not in s.all:
        return _orig['join'](self, timeout)
    if ts is me:
        raise RuntimeError('cannot join current thread')
    s.yield_point(me, 'join', ts)
    if ts.status == DONE:
        return
    if timeout is not None and timeout <= 0:
        return
    deadline = None if timeout is None else s.now + timeout
    while ts.status != DONE:
        s.block(me, ts, deadline, 'join')
        if deadline is not None and s.now >= deadline:
            return


def _thread_is_alive(self):
    ts = getattr(self, '_detsched_ts', None)
    if ts is None:
        return _orig['is_alive'](self)
    v = ts.status != DONE
    # a scheduling point right after the (lock-free) read, so that `if not t.is_alive(): ...` can race with the thread's exit
    s = _SCHED
    if s is not None and not s.finished:
        me = s.threads.get(_get_ident())
        if me is not None and not me.passthrough:
            s.yield_point(me, 'is_alive', ts)
    return v


def _v_sleep(secs):
    s = _SCHED
    me = s.me() if s is not None else None
    if me is None:
        return _real_sleep(secs)
    s.sleep(me, secs)


def _v_now(s):
    # optional clock drift: every read of the clock is a hair later than the previous one (time elapses between
    # statements), so that `deadline - now()` is slightly NEGATIVE at the deadline instead of exactly 0
    if s.clock_eps:
        s.clock_reads += 1
        return s.now + s.clock_reads * s.clock_eps
    return s.now


def _v_monotonic():
    s = _SCHED
    if s is not None and _get_ident() in s.threads:
        return _v_now(s)
    return _real_monotonic()


def _v_perf_counter():
    s = _SCHED
    if s is not None and _get_ident() in s.threads:
        return _v_now(s)
    return _real_perf_counter()


def _event_is_set(self):
    # Event.is_set() reads a flag without the lock; make it a scheduling point so check-then-act races are explored
    s = _SCHED
    if s is not None:
        me = s.threads.get(_get_ident())
        if me is not None and not me.passthrough and not s.finished:
            s.yield_point(me, 'is_set', self)
    return self._flag


SELECT_QUANTUM = 0.001


def _make_select(orig):
    def select(self, timeout=None):
        s = _SCHED
        me = s.me() if s is not None else None
        if me is None or s.finished:
            return orig(self, timeout)
        s.yield_point(me, 'select', None)
        deadline = None if timeout is None else s.now + max(0.0, timeout)
        while True:
            ev = orig(self, 0)
            if ev or (deadline is not None and s.now >= deadline):
                return ev
            d = s.now + SELECT_QUANTUM
            if deadline is not None and deadline < d:
                d = deadline
            # nothing ready: let the other threads run; poll again when virtual time moves (or the strategy says so)
            s.block(me, None, d, 'select')

    return select


def install():
    """Patch the stdlib.  Must run before `concurrent.futures`, `logging`, `queue` users and mpservice are imported."""
    global _INSTALLED
    if _INSTALLED:
        return
    import threading
    import queue
    _orig['start'] = threading.Thread.start
    _orig['join'] = threading.Thread.join
    _orig['is_alive'] = threading.Thread.is_alive
    threading._allocate_lock = SchedLock
    threading.Lock = SchedLock
    threading._CRLock = None
    threading.Thread.start = _thread_start
    threading.Thread.join = _thread_join
    threading.Thread.is_alive = _thread_is_alive
    threading.Event.is_set = _event_is_set
    threading.Event.isSet = _event_is_set
    threading._time = _v_monotonic
    queue.SimpleQueue = queue._PySimpleQueue
    queue.time = _v_monotonic
    import selectors
    for nm in ('SelectSelector', 'PollSelector', 'EpollSelector'):
        cls = getattr(selectors, nm, None)
        if cls is not None:
            cls.select = _make_select(cls.select)
    _time.sleep = _v_sleep
    _time.monotonic = _v_monotonic
    _time.perf_counter = _v_perf_counter
    _INSTALLED = True


def emit(ev, **kw):
    s = _SCHED
    if s is not None:
        return s.emit(ev, **kw)


def checkpoint(kind='user', obj=None):
    """Explicit scheduling point for harness code (e.g. before a lock-free read of shared state)."""
    s = _SCHED
    if s is not None:
        me = s.me()
        if me is not None and not s.finished:
            s.yield_point(me, kind, obj)


def current():
    return _SCHED


def now():
    s = _SCHED
    return s.now if s is not None else _real_monotonic()


def run(fn, strategy, *, max_steps=200000, lag=0.0, line_files=(), on_step=None, max_idle_vtime=500.0,
        stall_timeout=60.0, name='root', drain=True, clock_eps=0.0):
    """Run `fn()` in a controlled root thread under `strategy`; returns a Result.

    After `fn` returns, remaining controlled threads keep being scheduled until all are done (status ok), or they
    can make no progress (status deadlock/livelock with `leftover` naming them).
    """
    global _SCHED
    import threading
    assert _INSTALLED, 'detsched.install() must be called first'
    assert _SCHED is None or _SCHED.finished
    s = Scheduler(strategy, max_steps=max_steps, lag=lag, line_files=line_files, on_step=on_step,
                  max_idle_vtime=max_idle_vtime)
    s.clock_eps = clock_eps
    res = s.result
    root_ts = TState(0, name)
    s.root = root_ts
    s.all.append(root_ts)
    strategy.on_thread(s, root_ts)
    tracer = s._make_tracer() if s.line_files else None

    def root_body():
        root_ts.ident = _get_ident()
        s.threads[root_ts.ident] = root_ts
        root_ts.reg.release()
        root_ts.baton.acquire()
        if tracer is not None:
            sys.settrace(tracer)
        try:
            res.value = fn()
        except SchedAbort:
            pass
        except BaseException as e:
            res.exc = e
        finally:
            if tracer is not None:
                sys.settrace(None)
            s.root_done = True
            res.root_done = True
            res.at_root_exit = [f'T{t.tid}:{t.name}' for t in s.all if t.status != DONE and t is not root_ts]
            s.thread_exit(root_ts)

    import gc
    gc.collect()
    gc.disable()  # cyclic GC would run finalizers (with lock operations) at allocation-dependent points
    _SCHED = s
    _thread.start_new_thread(root_body, ())
    root_ts.reg.acquire()
    s.current = root_ts
    root_ts.baton.release()
    ok = s.done_lock.acquire(True, stall_timeout)
    if not ok:
        # something blocked in C (or runs very long): machinery problem, not a verdict
        s.finished = True
        res.status = 'stall'
        res.detail = f'no verdict within {stall_timeout}s wall clock; current={s.current}'
        res.trace = s.trace
        res.choices = s.choices
        res.steps = s.steps
        res.vtime = s.now
        res.waitmap = {f'T{t.tid}:{t.name}': (t.wait_kind, repr(t.waiting_on), t.deadline) for t in s.all
                       if t.status == BLOCKED}
    _SCHED = None
    gc.enable()
    return res
