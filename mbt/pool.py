"""Run binder jobs in parallel, each in its own interpreter and its own session (so that a hung grandchild can be
killed with the whole session; output goes to files, never to pipes)."""
from __future__ import annotations

import json
import os
import shutil
import signal
import subprocess
import sys
import tempfile
import time

ROOT = os.path.dirname(os.path.dirname(os.path.abspath(__file__)))
PY = os.environ.get('VERIF_PYTHON', '/venv/bin/python')


class JobError(Exception):
    pass


def run_jobs(binder, jobs, *, nproc=16, timeout=600, env=None):
    """jobs: list of dicts.  Returns list of outputs (same order).  A job that times out yields {'timeout': True}."""
    scratch = tempfile.mkdtemp(prefix='jobs-', dir=os.environ.get('VERIF_SCRATCH'))
    e = dict(os.environ)
    e['PYTHONHASHSEED'] = '0'
    e['PYTHONDONTWRITEBYTECODE'] = '1'
    if env:
        e.update(env)
    pending = list(enumerate(jobs))
    running = {}
    results = [None] * len(jobs)
    try:
        while pending or running:
            while pending and len(running) < nproc:
                k, job = pending.pop(0)
                jp = os.path.join(scratch, f'job{k}.json')
                op = os.path.join(scratch, f'out{k}.json')
                lp = os.path.join(scratch, f'log{k}.txt')
                with open(jp, 'w') as f:
                    json.dump(job, f)
                lf = open(lp, 'w')
                pr = subprocess.Popen([PY, os.path.join(ROOT, 'mbt', 'runner.py'), binder, jp, op], stdout=lf,
                                      stderr=subprocess.STDOUT, stdin=subprocess.DEVNULL, env=e, cwd=scratch,
                                      start_new_session=True)
                running[k] = (pr, time.time(), op, lp, lf, job.get('timeout', timeout))
            time.sleep(0.02)
            for k in list(running):
                pr, t0, op, lp, lf, to = running[k]
                rc = pr.poll()
                if rc is None and time.time() - t0 > to:
                    try:
                        os.killpg(pr.pid, signal.SIGKILL)
                    except ProcessLookupError:
                        pass
                    pr.wait()
                    rc = -9
                    results[k] = {'timeout': True, 'log': _tail(lp)}
                if rc is not None:
                    lf.close()
                    # make sure no stray grandchild survives
                    try:
                        os.killpg(pr.pid, signal.SIGKILL)
                    except (ProcessLookupError, PermissionError):
                        pass
                    if results[k] is None:
                        if os.path.exists(op):
                            with open(op) as f:
                                results[k] = json.load(f)
                            if isinstance(results[k], dict):
                                results[k].setdefault('log', _tail(lp, 2000))
                        else:
                            results[k] = {'machinery_error': f'runner exited rc={rc} without output', 'log': _tail(lp)}
                    del running[k]
        return results
    finally:
        for k in list(running):
            try:
                os.killpg(running[k][0].pid, signal.SIGKILL)
            except Exception:
                pass
        shutil.rmtree(scratch, ignore_errors=True)


def _tail(path, n=6000):
    try:
        with open(path, 'rb') as f:
            data = f.read()
        return data[-n:].decode('utf8', 'replace')
    except OSError:
        return ''
