"""Check framework: legs (L1 model checking, sensitivity, conformance), evidence, known findings, exit codes.

exit 0: property held on everything explored (KNOWN-FINDING lines possible)
exit 1: VIOLATION property=<id> replay=<path>
exit 2: machinery failure (TLC crashed, vacuous action, sensitivity lost, runner error) - never a verdict
"""
from __future__ import annotations

import hashlib
import json
import os
import sys
import time
import traceback

from . import pool, tlc

ROOT = os.path.dirname(os.path.dirname(os.path.abspath(__file__)))
EVIDENCE_DIR = os.path.join(ROOT, 'evidence')
REPLAY_DIR = os.path.join(ROOT, 'out', 'replays')
FINDINGS = os.path.join(ROOT, 'findings', 'known_findings.json')


class Machinery(Exception):
    pass


def _errtail(out, n=40):
    lines = [ln for ln in out.splitlines() if not ln.lstrip().startswith('|') and ' of module ' not in ln]
    for k, ln in enumerate(lines):
        if ln.startswith('Error:'):
            return '\n'.join(lines[k:k + n])
    return '\n'.join(lines[-n:])


def load_findings():
    try:
        with open(FINDINGS) as f:
            return json.load(f)
    except FileNotFoundError:
        return []


def sig_matches(match, sig):
    """every key of `match` must be present in `sig` with an equal value (lists compare as sets of JSON values)"""
    for k, v in match.items():
        if k not in sig:
            return False
        s = sig[k]
        if isinstance(v, dict) and 'in' in v:
            if s not in v['in']:
                return False
        elif isinstance(v, dict) and 'ge' in v:
            if not (isinstance(s, (int, float)) and s >= v['ge']):
                return False
        elif s != v:
            return False
    return True


class Check:
    def __init__(self, pid, tier='quick', seed=0):
        self.pid = pid
        self.tier = tier
        self.seed = seed
        self.t0 = time.time()
        self.states = 0
        self.transitions = 0
        self.traces = 0
        self.replays = 0
        self.evaluations = 0
        self.samples = []
        self.legs = []
        self.violations = []
        self.known_hits = []
        self.assumptions = []
        self.sensitivity = {}
        self.findings = [f for f in load_findings() if f.get('property') == pid]
        self.exhaustive = True
        self.notes = []

    # ---- L1 ------------------------------------------------------------------------------------------------
    def l1(self, name, module, cfg, *, expect_ok=True, workers=16, timeout=1500, coverage=True, must_cover=None,
           may_skip=(), count=True, heap='12g', env=None):
        """Exhaustive TLC run.  `cfg`: file name under spec/ or config text."""
        res = tlc.run_tlc(module, cfg, workers=workers, timeout=timeout, coverage=coverage, heap=heap, env=env)
        leg = {'leg': 'L1', 'name': name, 'module': module, **res.summary()}
        self.legs.append(leg)
        if getattr(res, 'timed_out', False):
            raise Machinery(f'L1 {name}: TLC timed out after {timeout}s')
        if res.violation is not None and res.violation['kind'] == 'error':
            raise Machinery(f'L1 {name}: TLC error: {res.violation["name"]}\n{_errtail(res.stdout)}')
        if res.violation is None and not res.ok:
            raise Machinery(f'L1 {name}: TLC did not finish cleanly:\n{res.stdout[-2500:]}')
        if count:
            self.states += res.distinct
            self.transitions += res.generated
        if expect_ok:
            if res.violation is not None:
                v = res.violation
                self.violation({'leg': 'L1', 'name': name, 'module': module, 'kind': v['kind'], 'what': v['name'],
                                'counterexample': [[a, s] for a, s in v['trace']][:80]},
                               sig={'leg': 'L1', 'module': module, 'what': v['name']})
            elif coverage:
                dead = [a for a, (d, g) in res.actions.items() if g == 0 and a not in may_skip and a != 'Init']
                if must_cover:
                    dead += [a for a in must_cover if a not in res.actions]
                if dead:
                    raise Machinery(f'L1 {name}: vacuous - actions never taken: {sorted(set(dead))}')
                leg['actions'] = {a: g for a, (d, g) in res.actions.items()}
        return res

    def sensitive(self, name, module, cfg, expect_kind, expect_name=None, *, workers=16, timeout=900, heap='8g'):
        """The as-found variant of the design MUST violate the property in the model (vacuity guard)."""
        res = tlc.run_tlc(module, cfg, workers=workers, timeout=timeout, coverage=False, heap=heap)
        v = res.violation
        okk = v is not None and v['kind'] == expect_kind and (expect_name is None or v['name'] == expect_name)
        self.legs.append({'leg': 'sensitivity', 'name': name, 'module': module, **res.summary(),
                          'as_expected': okk})
        self.sensitivity[name] = 'violated_as_expected' if okk else 'NOT VIOLATED'
        if not okk:
            raise Machinery(f'sensitivity {name}: expected {expect_kind} {expect_name}, got '
                            f'{None if v is None else (v["kind"], v["name"])}\n{res.stdout[-1500:]}')
        return res

    def trap(self, name, module, cfg, *, workers=8, timeout=600):
        """Reachability goal: `cfg` checks INVARIANT ~Goal, TLC must report it violated; returns the behaviour."""
        res = tlc.run_tlc(module, cfg, workers=workers, timeout=timeout, coverage=False)
        v = res.violation
        if v is None or v['kind'] != 'invariant':
            raise Machinery(f'trap {name}: goal unreachable in the model (vacuity alarm)\n{res.stdout[-1500:]}')
        self.legs.append({'leg': 'trap', 'name': name, 'len': len(v['trace'])})
        return v['trace']

    # ---- conformance ---------------------------------------------------------------------------------------
    def run_binder(self, binder, items, *, nproc=16, timeout=900, per_job=None, extra=None, env=None):
        """Distribute `items` over runner processes; returns merged dict of lists."""
        if not items:
            return {}
        nj = min(nproc, max(1, len(items)))
        if per_job:
            nj = max(nj, (len(items) + per_job - 1) // per_job)
        jobs = []
        for k in range(nj):
            job = {'items': items[k::nj]}
            if extra:
                job.update(extra)
            jobs.append(job)
        outs = pool.run_jobs(binder, jobs, nproc=nproc, timeout=timeout, env=env)
        merged = {}
        for o in outs:
            if isinstance(o, dict) and 'machinery_error' in o and o.get('through_repo'):
                # the code under test raised something no harness path anticipated: that is a finding about the code
                self.violation({'leg': 'L3', 'kind': 'unexpected-exception', 'binder': binder,
                                'exc_type': o.get('exc_type'), 'repo_frames': o.get('repo_frames'),
                                'traceback': o['machinery_error'][-4000:]},
                               sig={'leg': 'L3', 'kind': 'unexpected-exception', 'binder': binder,
                                    'exc': o.get('exc_type'), 'at': (o.get('repo_frames') or ['?'])[-1]})
                continue
            if o is None or 'machinery_error' in o or o.get('timeout'):
                raise Machinery(f'binder {binder}: runner failed: {json.dumps(o)[:3000]}')
            for k, v in o.items():
                if isinstance(v, list):
                    merged.setdefault(k, []).extend(v)
                elif isinstance(v, (int, float)) and not isinstance(v, bool):
                    merged[k] = merged.get(k, 0) + v
        return merged

    def validate(self, name, trace_module, cfg, traces, *, sig_of=None, describe=None, chunk=400, timeout=900):
        """TLC trace validation of recorded executions; every rejection is a violation (or a known finding)."""
        if not traces:
            return []
        verdicts, stats = tlc.validate_traces(trace_module, cfg, traces, chunk=chunk, timeout=timeout)
        nrej = 0
        for t, v in zip(traces, verdicts):
            if v['accepted']:
                continue
            nrej += 1
            k = v['reached']
            ev = t['ev'][k - 1] if 0 < k <= len(t['ev']) else None
            detail = {'leg': 'L3', 'name': name, 'trace_module': trace_module, 'rejected_at': k, 'event': ev,
                      'model_state_before': v['last'], 'item': {x: t[x] for x in t if x not in ('ev',)},
                      'events': t['ev']}
            sig = {'leg': 'L3', 'module': trace_module, 'event': (ev or {}).get('ev')}
            if sig_of:
                sig.update(sig_of(t, v))
            self.violation(detail, sig=sig)
        self.traces += len(traces)
        self.states += stats['distinct']
        self.transitions += stats['generated']
        self.legs.append({'leg': 'L3', 'name': name, 'traces': len(traces), 'rejected': nrej, **stats})
        for t in traces[:2]:
            if len(self.samples) < 6:
                self.samples.append({'kind': 'validated_trace', 'leg': name, 'p': t.get('p'),
                                     'events': t['ev'][:40]})
        return verdicts

    def validate_groups(self, name, trace_module, groups, *, sig_of=None, jobs=8, timeout=900):
        """Several (cfg, traces) groups (different constants) validated concurrently; one summary leg."""
        from concurrent.futures import ThreadPoolExecutor
        groups = [(c, t) for c, t in groups if t]
        if not groups:
            return
        before = len(self.legs)
        sub = []

        def one(g):
            c = Check(self.pid, self.tier, self.seed)
            c.findings = self.findings
            c.validate(name, trace_module, g[0], g[1], sig_of=sig_of, timeout=timeout)
            return c

        with ThreadPoolExecutor(max_workers=jobs) as ex:
            sub = list(ex.map(one, groups))
        tr = rej = dist = gen = 0
        for c in sub:
            self.violations.extend(c.violations)
            self.known_hits.extend(c.known_hits)
            self.traces += c.traces
            self.states += c.states
            self.transitions += c.transitions
            for lg in c.legs:
                tr += lg.get('traces', 0)
                rej += lg.get('rejected', 0)
                dist += lg.get('distinct', 0)
                gen += lg.get('generated', 0)
            for smp in c.samples:
                self.sample(smp)
        self.legs.append({'leg': 'L3', 'name': name, 'groups': len(groups), 'traces': tr, 'rejected': rej,
                          'distinct': dist, 'generated': gen})

    # ---- verdicts ------------------------------------------------------------------------------------------
    def violation(self, detail, sig):
        for f in self.findings:
            if f.get('status') == 'open' and sig_matches(f.get('signature', {}), sig):
                self.known_hits.append((f, detail))
                return
        if len(self.violations) < 200:
            self.violations.append({'sig': sig, 'detail': detail})

    def sample(self, obj):
        if len(self.samples) < 8:
            self.samples.append(obj)

    def write_replay(self, v):
        os.makedirs(REPLAY_DIR, exist_ok=True)
        blob = json.dumps(v, sort_keys=True, default=repr)
        h = hashlib.sha1(blob.encode()).hexdigest()[:10]
        path = os.path.join(REPLAY_DIR, f'{self.pid}-{h}.json')
        with open(path, 'w') as f:
            json.dump({'property': self.pid, **v}, f, indent=1, default=repr)
        return path

    def finish(self, level='model_checking', rule=None, extra_cov=None):
        wall = time.time() - self.t0
        cov = {
            'states': int(self.states),
            'transitions': int(self.transitions),
            'traces_validated_against_impl': int(self.traces + self.replays),
            'samples': self.samples or [{'note': 'no sample recorded'}],
            'evaluations': int(self.evaluations + self.traces + self.replays),
            'exhaustive': False,
            'legs': self.legs,
            'sensitivity': self.sensitivity,
            'l3_traces': int(self.traces),
            'l2_replays': int(self.replays),
        }
        if rule:
            cov['rule'] = rule
        if extra_cov:
            cov.update(extra_cov)
        ev = {'property_id': self.pid, 'tier': self.tier, 'seed': int(self.seed), 'level': level, 'coverage': cov,
              'assumptions': self.assumptions, 'wall_s': round(wall, 2), 'violations': len(self.violations),
              'known_findings_hit': len(self.known_hits), 'notes': self.notes}
        # coverage beyond the listed properties (ids X..) keeps its evidence apart from the properties' evidence
        edir = EVIDENCE_DIR if not self.pid.startswith('X') else os.path.join(ROOT, 'extras', 'evidence')
        os.makedirs(edir, exist_ok=True)
        tmp = os.path.join(edir, f'{self.pid}.json.tmp')
        with open(tmp, 'w') as f:
            json.dump(ev, f, indent=1, default=repr)
        os.replace(tmp, os.path.join(edir, f'{self.pid}.json'))
        seen = set()
        for f, detail in self.known_hits:
            key = f.get('id') or json.dumps(f.get('signature'), sort_keys=True)
            if key in seen:
                continue
            seen.add(key)
            print(f'KNOWN-FINDING: property={self.pid} {f.get("what", "")}')
        if self.violations:
            shown = set()
            for v in self.violations:
                key = json.dumps(v['sig'], sort_keys=True, default=repr)
                path = self.write_replay(v)
                if key in shown:
                    continue
                shown.add(key)
                d = v['detail']
                print(f'-- violation: {json.dumps(v["sig"], default=repr)}')
                print(f'   {json.dumps({k: d[k] for k in d if k not in ("events", "counterexample")}, default=repr)[:1500]}')
                print(f'VIOLATION property={self.pid} replay={path}')
            print(f'{self.pid}: {len(self.violations)} violation(s); evidence written; wall {wall:.1f}s')
            return 1
        print(f'{self.pid}: OK tier={self.tier} states={self.states} traces={self.traces} replays={self.replays} '
              f'wall={wall:.1f}s')
        return 0


def main(run_fn, pid, argv=None):
    import argparse
    ap = argparse.ArgumentParser()
    ap.add_argument('--tier', default=os.environ.get('VERIF_TIER', 'quick'), choices=['quick', 'thorough'])
    ap.add_argument('--replay', default=None)
    args = ap.parse_args(argv)
    seed = int(os.environ.get('VERIF_SEED', '0') or 0)
    ck = Check(pid, args.tier, seed)
    try:
        if args.replay:
            with open(args.replay) as f:
                rp = json.load(f)
            return run_fn(ck, replay=rp) or 0
        run_fn(ck)
        return ck.finish_rc if hasattr(ck, 'finish_rc') else 0
    except Machinery as e:
        if ck.violations and not hasattr(ck, 'finish_rc'):
            # A guard of the machinery (vacuity, completeness of a run) tripped AFTER violations had been recorded: the code
            # under test misbehaves so badly that a later leg could not do its job.  The violations are the finding.
            ck.notes.append(f'a later leg could not complete: {str(e)[:1500]}')
            return ck.finish(rule='incomplete run: reported after a machinery guard tripped')
        print(f'MACHINERY-FAILURE property={pid}: {e}', file=sys.stderr)
        return 2
    except Exception:
        traceback.print_exc()
        print(f'MACHINERY-FAILURE property={pid}: unexpected exception', file=sys.stderr)
        return 2
