"""Runs one job of a binder in a fresh interpreter:  python runner.py <binder> <job.json> <out.json>

For detsched binders the stdlib is patched before anything else is imported.  The process always ends with
os._exit so that threads parked by a detected deadlock are simply abandoned.
"""
import importlib
import json
import os
import sys
import traceback

ROOT = os.path.dirname(os.path.dirname(os.path.abspath(__file__)))
REPO_SRC = os.environ.get('VERIF_REPO_SRC', '/repo/src')


def _through_repo(e):
    root = os.path.realpath(REPO_SRC)
    frames = []
    seen = set()
    while e is not None and id(e) not in seen:
        seen.add(id(e))
        for fs in traceback.extract_tb(e.__traceback__):
            if os.path.realpath(fs.filename).startswith(root + os.sep):
                frames.append(f'{os.path.relpath(os.path.realpath(fs.filename), root)}:{fs.name}')
        e = e.__cause__ or e.__context__
    return {'through_repo': bool(frames), 'repo_frames': frames[-4:]}


def main():
    binder_name, job_path, out_path = sys.argv[1:4]
    with open(job_path) as f:
        job = json.load(f)
    sys.path.insert(0, ROOT)
    if job.get('detsched', True):
        from mbt import detsched
        detsched.install()
    sys.path.insert(0, REPO_SRC)
    status = 0
    try:
        binder = importlib.import_module('mbt.bind.' + binder_name)
        out = binder.run_job(job)
    except BaseException as e:
        # An exception nobody anticipated.  If it was raised by (or passed through) the code under test it is evidence
        # about that code - the check reports it as a violation; otherwise it is a failure of the machinery itself.
        out = {'machinery_error': traceback.format_exc(), 'exc_type': type(e).__name__}
        out.update(_through_repo(e))
        status = 2
    tmp = out_path + '.tmp'
    with open(tmp, 'w') as f:
        json.dump(out, f)
    os.replace(tmp, out_path)
    sys.stdout.flush()
    sys.stderr.flush()
    os._exit(status)


if __name__ == '__main__':
    main()
