"""TLC driver: run the model checker, parse results, export behaviours, validate recorded traces in batches.

Only the standard library.  All scratch (metadir, java tmpdir, simulate output) lives in a private temporary
directory that is removed afterwards.
"""
from __future__ import annotations

import json
import os
import re
import shutil
import subprocess
import tempfile
import time

SPEC_DIR = os.path.join(os.path.dirname(os.path.dirname(os.path.abspath(__file__))), 'spec')
JAR = '/opt/veriftools/tla/tla2tools.jar'
DEPS = '/opt/veriftools/tla/CommunityModules-deps.jar'


class TLCError(Exception):
    """Machinery failure (parse error, TLC crashed, timeout) - never a property verdict."""


# ---------------------------------------------------------------------------------------------------------------
# TLA+ value parser (enough for what TLC prints: ints, strings, booleans, sets, sequences, records, functions)

class _P:
    def __init__(self, s):
        self.s = s
        self.i = 0

    def ws(self):
        s, n = self.s, len(self.s)
        while self.i < n and s[self.i] in ' \t\r\n':
            self.i += 1

    def peek(self, k=1):
        self.ws()
        return self.s[self.i:self.i + k]

    def eat(self, tok):
        self.ws()
        if not self.s.startswith(tok, self.i):
            raise ValueError(f'expected {tok!r} at {self.i}: {self.s[self.i:self.i + 40]!r}')
        self.i += len(tok)

    def value(self):
        self.ws()
        s = self.s
        c = s[self.i]
        if c == '"':
            j = self.i + 1
            out = []
            while s[j] != '"':
                if s[j] == '\\':
                    j += 1
                out.append(s[j])
                j += 1
            self.i = j + 1
            return ''.join(out)
        if c == '<' and s.startswith('<<', self.i):
            self.i += 2
            items = []
            if self.peek(2) == '>>':
                self.i += 2
                return items
            while True:
                items.append(self.value())
                if self.peek(2) == '>>':
                    self.eat('>>')
                    return items
                self.eat(',')
        if c == '{':
            self.i += 1
            items = []
            if self.peek() == '}':
                self.eat('}')
                return {'#set': items}
            while True:
                items.append(self.value())
                if self.peek() == '}':
                    self.eat('}')
                    return {'#set': items}
                self.eat(',')
        if c == '[':
            self.i += 1
            rec = {}
            if self.peek() == ']':
                self.eat(']')
                return rec
            while True:
                self.ws()
                m = re.compile(r'[A-Za-z_][A-Za-z0-9_]*').match(s, self.i)
                k = m.group(0)
                self.i = m.end()
                self.eat('|->')
                rec[k] = self.value()
                if self.peek() == ']':
                    self.eat(']')
                    return rec
                self.eat(',')
        if c == '(':
            # function  (k1 :> v1 @@ k2 :> v2)
            self.i += 1
            fn = {}
            while True:
                k = self.value()
                self.eat(':>')
                v = self.value()
                fn[k if isinstance(k, (int, str, bool)) else json.dumps(k)] = v
                if self.peek() == ')':
                    self.eat(')')
                    return {'#fn': fn}
                self.eat('@@')
        m = re.compile(r'-?\d+').match(s, self.i)
        if m:
            self.i = m.end()
            return int(m.group(0))
        m = re.compile(r'[A-Za-z_][A-Za-z0-9_]*').match(s, self.i)
        if m:
            self.i = m.end()
            w = m.group(0)
            if w == 'TRUE':
                return True
            if w == 'FALSE':
                return False
            return {'#mv': w}
        raise ValueError(f'cannot parse at {self.i}: {s[self.i:self.i + 40]!r}')


def parse_value(text):
    p = _P(text)
    v = p.value()
    p.ws()
    if p.i != len(p.s):
        raise ValueError(f'trailing text: {p.s[p.i:p.i + 40]!r}')
    return v


def parse_state(text):
    """`/\\ a = 1\\n/\\ b = <<>>` -> {'a': 1, 'b': []}"""
    st = {}
    parts = re.split(r'(?m)^/\\ ', text.strip())
    for part in parts:
        part = part.strip()
        if not part:
            continue
        m = re.match(r'([A-Za-z_][A-Za-z0-9_]*)\s*=\s*(.*)\Z', part, re.S)
        if not m:
            raise ValueError(f'bad conjunct: {part[:80]!r}')
        st[m.group(1)] = parse_value(m.group(2))
    return st


def to_py(v):
    """Strip the #set/#fn wrappers: sets -> sorted lists where possible, functions -> dicts."""
    if isinstance(v, dict):
        if '#set' in v:
            items = [to_py(x) for x in v['#set']]
            try:
                return sorted(items)
            except TypeError:
                return items
        if '#fn' in v:
            return {k: to_py(x) for k, x in v['#fn'].items()}
        if '#mv' in v:
            return v['#mv']
        return {k: to_py(x) for k, x in v.items()}
    if isinstance(v, list):
        return [to_py(x) for x in v]
    return v


# ---------------------------------------------------------------------------------------------------------------

class TLCResult:
    def __init__(self):
        self.ok = False  # finished without any error
        self.generated = 0
        self.distinct = 0
        self.depth = 0
        self.actions = {}  # name -> (distinct, generated)
        self.violation = None  # dict(kind, name, trace=[(action, state)])
        self.stdout = ''
        self.wall_s = 0.0
        self.cmd = ''
        self.printed = []  # PrintT lines (parsed where possible)

    def summary(self):
        v = self.violation
        return {'ok': self.ok, 'generated': self.generated, 'distinct': self.distinct, 'depth': self.depth,
                'violation': None if v is None else {'kind': v['kind'], 'name': v['name'], 'len': len(v['trace'])},
                'wall_s': round(self.wall_s, 2)}


_STATE_HDR = re.compile(r'^State (\d+): <([^>]*)>\s*$')
_ACTION_COV = re.compile(r'^<(\w+) line \d+, col \d+ to line \d+, col \d+ of module (\w+)(?: \([^)]*\))?>: (\d+):(\d+)')


def _parse_trace(lines, start):
    """Parse `State k: <Action ...>` blocks beginning at lines[start]."""
    trace = []
    i = start
    n = len(lines)
    while i < n:
        m = _STATE_HDR.match(lines[i])
        if not m:
            if lines[i].startswith('State ') and 'Stuttering' in lines[i]:
                trace.append(('Stuttering', None))
                i += 1
                continue
            if lines[i].startswith('Back to state'):
                trace.append((lines[i].strip(), None))
                i += 1
                continue
            if trace and not lines[i].strip():
                i += 1
                continue
            if trace:
                break
            i += 1
            continue
        hdr = m.group(2)
        act = hdr.split(' ')[0]
        if hdr.startswith('Initial predicate'):
            act = 'Init'
        j = i + 1
        buf = []
        while j < n and lines[j].strip() and not lines[j].startswith('State '):
            buf.append(lines[j])
            j += 1
        try:
            st = to_py(parse_state('\n'.join(buf)))
        except Exception as e:  # keep raw text if the parser cannot cope
            st = {'#raw': '\n'.join(buf), '#err': str(e)}
        trace.append((act, st))
        i = j
    return trace


def parse_output(out, res):
    lines = out.splitlines()
    for k, ln in enumerate(lines):
        m = re.match(r'^(\d+) states generated, (\d+) distinct states found', ln)
        if m:
            res.generated, res.distinct = int(m.group(1)), int(m.group(2))
        m = re.match(r'^The depth of the complete state graph search is (\d+)', ln)
        if m:
            res.depth = int(m.group(1))
        m = _ACTION_COV.match(ln)
        if m:
            name = m.group(1)
            d, g = int(m.group(3)), int(m.group(4))
            od, og = res.actions.get(name, (0, 0))
            res.actions[name] = (od + d, og + g)
        if res.violation is None:
            m = re.match(r'^Error: Invariant (\w+) is violated', ln)
            if m:
                res.violation = {'kind': 'invariant', 'name': m.group(1), 'trace': _parse_trace(lines, k + 1)}
                continue
            if ln.startswith('Error: Deadlock reached'):
                res.violation = {'kind': 'deadlock', 'name': 'Deadlock', 'trace': _parse_trace(lines, k + 1)}
                continue
            m = re.match(r'^Error: Action property (\w+) is violated', ln)
            if m:
                res.violation = {'kind': 'action_property', 'name': m.group(1), 'trace': _parse_trace(lines, k + 1)}
                continue
            m = re.match(r'^Error: Temporal propert(?:y (\w+) was|ies were) violated', ln)
            if m:
                res.violation = {'kind': 'temporal', 'name': m.group(1) or 'temporal',
                                 'trace': _parse_trace(lines, k + 1)}
                continue
            m = re.match(r'^Error: (.*)', ln)
            if m and 'behavior up to this point' not in ln:
                res.violation = {'kind': 'error', 'name': m.group(1)[:200], 'trace': _parse_trace(lines, k + 1)}
    res.ok = ('Model checking completed. No error has been found.' in out) or \
             ('Finished in' in out and res.violation is None and 'Error:' not in out)
    return res


def run_tlc(module, cfg, *, workers=16, timeout=900, coverage=False, simulate=None, depth=None, seed=None,
            env=None, extra=(), spec_dir=SPEC_DIR, keep=None, dfs_queue=False, heap='8g', deadlock=None):
    """Run TLC on spec_dir/module.tla with config `cfg` (a path, or config TEXT containing a newline)."""
    res = TLCResult()
    scratch = tempfile.mkdtemp(prefix='tlc-', dir=os.environ.get('VERIF_SCRATCH'))
    try:
        if '\n' in cfg:
            cfg_path = os.path.join(scratch, module + '_gen.cfg')
            with open(cfg_path, 'w') as f:
                f.write(cfg)
        else:
            cfg_path = cfg if os.path.isabs(cfg) else os.path.join(spec_dir, cfg)
        java = ['java', '-XX:+UseParallelGC', f'-Xmx{heap}', f'-Djava.io.tmpdir={scratch}']
        if dfs_queue:
            java.append('-Dtlc2.tool.queue.IStateQueue=StateDeque')
        cmd = java + ['-cp', f'{JAR}:{DEPS}', 'tlc2.TLC', '-workers', str(workers), '-metadir',
                      os.path.join(scratch, 'meta'), '-noGenerateSpecTE', '-config', cfg_path]
        if coverage:
            cmd += ['-coverage', '1']
        if simulate is not None:
            cmd += ['-simulate', simulate]
            m = re.search(r'file=([^,]+)', simulate)
            if m and os.path.dirname(m.group(1)):
                os.makedirs(os.path.join(scratch, os.path.dirname(m.group(1))), exist_ok=True)
        if depth is not None:
            cmd += ['-depth', str(depth)]
        if seed is not None:
            cmd += ['-seed', str(seed)]
        if deadlock is False:
            cmd += ['-deadlock']
        cmd += list(extra)
        cmd += [os.path.join(spec_dir, module + '.tla')]
        e = dict(os.environ)
        e.pop('JAVA_TOOL_OPTIONS', None)
        if env:
            e.update(env)
        e['VERIF_TLC_SCRATCH'] = scratch
        res.cmd = ' '.join(cmd)
        t0 = time.time()
        try:
            cp = subprocess.run(cmd, cwd=scratch, env=e, stdout=subprocess.PIPE, stderr=subprocess.STDOUT,
                                timeout=timeout, text=True)
            out = cp.stdout
        except subprocess.TimeoutExpired as te:
            out = (te.stdout or b'')
            if isinstance(out, bytes):
                out = out.decode('utf8', 'replace')
            res.stdout = out
            res.wall_s = time.time() - t0
            res.timed_out = True
            parse_output(out, res)
            res.ok = False
            return res
        res.timed_out = False
        res.wall_s = time.time() - t0
        res.stdout = out
        parse_output(out, res)
        if keep:
            keep(scratch, res)
        return res
    finally:
        shutil.rmtree(scratch, ignore_errors=True)


# ---------------------------------------------------------------------------------------------------------------
# behaviour export via -simulate

_SIM_STATE = re.compile(r'^STATE_(\d+) ==\s*$')


def parse_sim_file(path):
    """A file written by `-simulate file=...`: `\\* <Action ...>` comment + `STATE_n == /\\ ...` blocks."""
    beh = []
    act = 'Init'
    buf = None
    with open(path) as f:
        for ln in f:
            ln = ln.rstrip('\n')
            if ln.startswith('\\*'):
                m = re.match(r'^\\\* <(\w+(?:\([^)]*\))?)', ln)
                if m:
                    act = m.group(1)
                continue
            if _SIM_STATE.match(ln):
                buf = []
                continue
            if buf is not None:
                if ln.strip() == '' or ln.startswith('===='):
                    if buf:
                        beh.append((act, to_py(parse_state('\n'.join(buf)))))
                    buf = None
                    if ln.startswith('===='):
                        break
                else:
                    buf.append(ln)
    if buf:
        beh.append((act, to_py(parse_state('\n'.join(buf)))))
    if beh:
        beh[0] = ('Init', beh[0][1])
    return beh


def split_action(a):
    """'WorkerFinish(2)' -> ('WorkerFinish', [2]);  'Submit(1,"x")' -> ('Submit', [1, 'x']);  'Init' -> ('Init', [])"""
    m = re.match(r'(\w+)(?:\((.*)\))?$', a.strip())
    if not m:
        return a, []
    args = []
    if m.group(2):
        for tok in m.group(2).split(','):
            tok = tok.strip()
            try:
                args.append(parse_value(tok))
            except Exception:
                args.append(tok)
    return m.group(1), args


def simulate(module, cfg, *, num=100, depth=60, seed=1, timeout=300, spec_dir=SPEC_DIR, env=None):
    """Random behaviours of the spec: list of [(action, state), ...]."""
    behs = []

    def keep(scratch, res):
        d = os.path.join(scratch, 'sim')
        if os.path.isdir(d):
            for fn in sorted(os.listdir(d)):
                try:
                    behs.append(parse_sim_file(os.path.join(d, fn)))
                except Exception as e:
                    raise TLCError(f'cannot parse simulate output {fn}: {e}')

    # the file= path is relative to cwd (= scratch)
    os_sim = f'file=sim/b,num={num}'
    res = run_tlc(module, cfg, workers=1, timeout=timeout, simulate=os_sim, depth=depth, seed=seed,
                  spec_dir=spec_dir, env=env, keep=lambda s, r: (os.makedirs(os.path.join(s, 'sim'), exist_ok=True), keep(s, r)),
                  extra=())
    return res, behs


# ---------------------------------------------------------------------------------------------------------------
# batch trace validation

def validate_traces(trace_module, cfg_text, traces, *, timeout=900, spec_dir=SPEC_DIR, chunk=400, heap='4g',
                    jobs=8):
    """Validate recorded traces against `<trace_module>.tla`.

    `traces`: list of dicts {'id':..., 'p': {...}, 'ev': [ {...}, ... ]}.  The trace spec reads the JSON file named by
    env TRACE_FILE (a JSON array), explores every trace (variable `tid`), keeps per-trace progress in TLC registers
    and prints one line `<<"VERDICT", tid, reached, total, laststate>>` per trace from its POSTCONDITION.

    Returns list of verdict dicts in input order: {'id', 'accepted', 'reached', 'total', 'last'}.
    """
    from concurrent.futures import ThreadPoolExecutor
    chunks = [traces[i:i + chunk] for i in range(0, len(traces), chunk)]
    stats = {'generated': 0, 'distinct': 0, 'wall_s': 0.0, 'runs': 0}

    def one(ch):
        scratch = tempfile.mkdtemp(prefix='trv-', dir=os.environ.get('VERIF_SCRATCH'))
        try:
            tf = os.path.join(scratch, 'traces.json')
            with open(tf, 'w') as f:
                json.dump([{'p': t['p'], 'ev': t['ev']} for t in ch], f)
            res = run_tlc(trace_module, cfg_text, workers=1, timeout=timeout, spec_dir=spec_dir,
                          env={'TRACE_FILE': tf}, heap=heap)
            if getattr(res, 'timed_out', False):
                raise TLCError(f'trace validation timed out after {timeout}s')
            verd = {}
            for val in _find_tuples(res.stdout, 'VERDICT'):
                verd[val[1]] = (val[2], val[3], json.dumps(to_py(val[4:]), default=repr))
            if len(verd) != len(ch):
                raise TLCError('trace validation produced %d verdicts for %d traces:\n%s'
                               % (len(verd), len(ch), res.stdout[-3000:]))
            out = []
            for k, tr in enumerate(ch, 1):
                reached, total, last = verd[k]
                out.append({'id': tr.get('id'), 'accepted': reached == total + 1, 'reached': reached,
                            'total': total, 'last': last})
            return out, res
        finally:
            shutil.rmtree(scratch, ignore_errors=True)

    verdicts = []
    with ThreadPoolExecutor(max_workers=jobs) as ex:
        for out, res in ex.map(one, chunks):
            verdicts.extend(out)
            stats['generated'] += res.generated
            stats['distinct'] += res.distinct
            stats['wall_s'] += res.wall_s
            stats['runs'] += 1
    return verdicts, stats


def _find_tuples(out, tag):
    """All `<<"tag", ...>>` values printed by PrintT (TLC pretty-prints long ones over several lines)."""
    res = []
    pat = re.compile(r'<<\s*"' + re.escape(tag) + '"')
    pos = 0
    while True:
        m = pat.search(out, pos)
        if not m:
            break
        i = m.start()
        depth = 0
        j = i
        n = len(out)
        instr = False
        while j < n:
            c = out[j]
            if instr:
                if c == '\\':
                    j += 1
                elif c == '"':
                    instr = False
            elif c == '"':
                instr = True
            elif out.startswith('<<', j):
                depth += 1
                j += 1
            elif out.startswith('>>', j):
                depth -= 1
                j += 1
                if depth == 0:
                    break
            j += 1
        text = out[i:j + 1]
        try:
            res.append(parse_value(text))
        except Exception as e:
            raise TLCError(f'cannot parse printed tuple: {e}: {text[:200]}')
        pos = j + 1
    return res


def cfg_text(spec='Spec', constants=None, invariants=(), properties=(), deadlock=True, constraint=None,
             postcondition=None, view=None, action_constraint=None, init=None, next_=None, symmetry=None):
    lines = []
    if init:
        lines += [f'INIT {init}', f'NEXT {next_}']
    else:
        lines.append(f'SPECIFICATION {spec}')
    if constants:
        lines.append('CONSTANTS')
        for k, v in constants.items():
            lines.append(f'  {k} = {tla_const(v)}' if not (isinstance(v, str) and v.startswith('<-')) else f'  {k} {v}')
    for i in invariants:
        lines.append(f'INVARIANT {i}')
    for p in properties:
        lines.append(f'PROPERTY {p}')
    if constraint:
        lines.append(f'CONSTRAINT {constraint}')
    if action_constraint:
        lines.append(f'ACTION_CONSTRAINT {action_constraint}')
    if postcondition:
        lines.append(f'POSTCONDITION {postcondition}')
    if view:
        lines.append(f'VIEW {view}')
    if symmetry:
        lines.append(f'SYMMETRY {symmetry}')
    lines.append(f'CHECK_DEADLOCK {"TRUE" if deadlock else "FALSE"}')
    return '\n'.join(lines) + '\n'


def tla_const(v):
    if isinstance(v, bool):
        return 'TRUE' if v else 'FALSE'
    if isinstance(v, int):
        return str(v)
    if isinstance(v, str):
        return '"' + v + '"'
    if isinstance(v, (set, frozenset)):
        return '{' + ', '.join(tla_const(x) for x in sorted(v, key=repr)) + '}'
    if isinstance(v, (list, tuple)):
        return '<<' + ', '.join(tla_const(x) for x in v) + '>>'
    raise TypeError(v)
