--------------------------- MODULE FifoPipeTrace ---------------------------
(* Validates executions of the REAL mpservice.pipe Server / Client in two real processes (mbt/bind/socketmux.py), each end  *)
(* with a sender and a receiver thread.  Logged per process with the system-wide monotonic clock and merged by time stamp: *)
(* SendBegin (before send), SendEnd (after send returned), Recv (after recv returned; the object is compared with the one   *)
(* the peer generates for that position).  Pipe capacity is environment: the trace takes every message as one unit and a    *)
(* buffer that never fills (p.cap = number of messages), so only order, intactness and causality are judged.               *)
EXTENDS FifoPipe, Json, IOUtils, TLCExt

TraceLog == JsonDeserialize(IOEnv.TRACE_FILE)
VARIABLES tid, l
tvars == <<vars, tid, l>>
Evs == TraceLog[tid].ev
E == Evs[l]
Is(name) == l <= Len(Evs) /\ E.ev = name
Step == l' = l + 1 /\ tid' = tid
Silent == l' = l /\ tid' = tid
Same == UNCHANGED vars
ParamOf(h) == [cap |-> h.cap, sz |-> <<h.sz1, h.sz2>>, seq |-> FALSE, exit |-> {}]

TraceInit ==
  \E t \in 1..Len(TraceLog) :
     /\ tid = t /\ l = 1 /\ InitWith(ParamOf(TraceLog[t].p))
     /\ TLCSet(t, <<1, "init", "none">>)

TSendBegin == Is("SendBegin") /\ SendBegin(E.d) /\ snt'[E.d] = E.k /\ Step
TSendEnd   == Is("SendEnd") /\ snt[E.d] = E.k /\ SendEnd(E.d) /\ Step
\* the object received at position Len(rcv)+1 equals the E.k-th object sent (E.k = 0: equals none of them)
TRecv      == Is("Recv") /\ Recv(E.d) /\ Len(rcv'[E.d]) = E.k /\ E.intact /\ Step
TEnd       == Is("End") /\ AllDelivered /\ Same /\ Step
TSilent    == (\E d \in Dir : WriteUnit(d) \/ ReadUnit(d) \/ OpenReader(d)) /\ Silent
TraceNext == TSendBegin \/ TSendEnd \/ TRecv \/ TEnd \/ TSilent
TraceSpec == TraceInit /\ [][TraceNext]_tvars

FailedInv == IF ~FifoPrefix THEN "FifoPrefix" ELSE IF ~Intact THEN "Intact" ELSE IF ~ChannelShape THEN "ChannelShape" ELSE "none"
Progress ==
  IF FailedInv # "none"
    THEN TLCSet(tid, <<TLCGet(tid)[1], TLCGet(tid)[2], FailedInv>>) /\ FALSE
    ELSE IF TLCGet(tid)[1] < l
           THEN TLCSet(tid, <<l, <<snt, sending, rcv, asm>>, TLCGet(tid)[3]>>)
           ELSE TRUE
Report ==
  \A t \in 1..Len(TraceLog) :
     PrintT(<<"VERDICT", t, TLCGet(t)[1], Len(TraceLog[t].ev), TLCGet(t)[2], TLCGet(t)[3]>>)
=============================================================================
