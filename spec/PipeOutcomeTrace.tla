-------------------------- MODULE PipeOutcomeTrace --------------------------
(* Consumer-side events of composed pipelines (mbt/bind/pipeadapt.py, detsched) against PipeOutcome.                      *)
EXTENDS PipeOutcome, Json, IOUtils, TLCExt, Sequences

TraceLog == JsonDeserialize(IOEnv.TRACE_FILE)
VARIABLES tid, l
tvars == <<vars, tid, l>>
Evs == TraceLog[tid].ev
E == Evs[l]
Is(name) == l <= Len(Evs) /\ E.ev = name
Adv == l' = l + 1 /\ tid' = tid

TraceInit == \E t \in 1..Len(TraceLog) :
  /\ tid = t /\ l = 1
  /\ InitWith([n |-> TraceLog[t].p.n, srcfail |-> TraceLog[t].p.srcfail, maybreak |-> TraceLog[t].p.maybreak])
  /\ TLCSet(t, <<1, "init", "none">>)

TYield  == Is("Yield") /\ Yield(E.i) /\ Adv
TEnd    == /\ Is("End")
           /\ \/ E.k = "none" /\ EndNone
              \/ E.k = "src" /\ EndSrc
              \/ E.k = "brk" /\ Break
           /\ Adv
TClosed == Is("Closed") /\ Closed(E.leftover) /\ Adv

TraceNext == TYield \/ TEnd \/ TClosed
TraceSpec == TraceInit /\ [][TraceNext]_tvars

Progress == IF TLCGet(tid)[1] < l THEN TLCSet(tid, <<l, <<k, st>>, "none">>) ELSE TRUE
Report == \A t \in 1..Len(TraceLog) : PrintT(<<"VERDICT", t, TLCGet(t)[1], Len(TraceLog[t].ev), TLCGet(t)[2], TLCGet(t)[3]>>)
=============================================================================
