------------------------------ MODULE BufferOp ------------------------------
(***************************************************************************)
(* Stream.buffer(maxsize): class Buffer of streamer/_streamer.py (899-963). *)
(* A producer thread pulls the source and hands elements to the consumer   *)
(* through a bounded SingleLane; end / failure travel as queue items; the  *)
(* generator's `finally` runs `_finalize` (set flag, drain, join).         *)
(*                                                                         *)
(* Flags model the code as found (FALSE) and as repaired (TRUE):           *)
(*   DrainUntilJoined  as found: drain until the queue is momentarily      *)
(*                     empty, then join() - the producer may still need    *)
(*                     2-3 slots -> hang for small maxsize (D1).           *)
(*   ForwardBase       as found: `except Exception` misses StopRequested   *)
(*                     (a BaseException): the producer dies silently and   *)
(*                     the consumer waits forever (D2).                    *)
(* Serves C05 (clean end) and C08 (look-ahead <= maxsize + 2).              *)
(***************************************************************************)
EXTENDS Naturals, Sequences, FiniteSets, TLC

CONSTANTS MaxN, MaxSize, DrainUntilJoined, ForwardBase

VARIABLES
  p,       \* [n, maxsize, srcfail, srcbase, maybreak]
  srcPos,  \* successful pulls
  prod,    \* producer pc
  heldP,   \* element in the producer's hands
  q,       \* SingleLane content: sequence of [t, x], t in {"item","fin","stopped","exc"}
  cons,    \* consumer pc
  val,     \* element about to be yielded
  out,     \* yielded elements
  stop,    \* the `_stopped` flag
  raised   \* "none" | "src"

vars == <<p, srcPos, prod, heldP, q, cons, val, out, stop, raised>>

SrcLen == IF p.srcfail = 0 THEN p.n ELSE p.srcfail - 1
It(t, x) == [t |-> t, x |-> x]

Params ==
  { c \in [ n : 0..MaxN, maxsize : 1..MaxSize, srcfail : 0..(MaxN+1), srcbase : BOOLEAN, maybreak : BOOLEAN ] :
      /\ c.srcfail <= c.n + 1
      /\ (c.srcfail = 0 => ~c.srcbase) }

InitWith(c) ==
  /\ p = c /\ srcPos = 0 /\ prod = "idle" /\ heldP = 0 /\ q = <<>>
  /\ cons = "new" /\ val = 0 /\ out = <<>> /\ stop = FALSE /\ raised = "none"

Init == \E c \in Params : InitWith(c)

-----------------------------------------------------------------------------
(* PRODUCER -- `_run_worker`                                               *)
ProdPull ==
  /\ prod = "pull" /\ srcPos < SrcLen
  /\ srcPos' = srcPos + 1 /\ heldP' = srcPos + 1 /\ prod' = "check"
  /\ UNCHANGED <<p, q, cons, val, out, stop, raised>>

ProdSrcEnd ==
  /\ prod = "pull" /\ srcPos = SrcLen /\ p.srcfail = 0
  /\ prod' = "putfin"
  /\ UNCHANGED <<p, srcPos, heldP, q, cons, val, out, stop, raised>>

ProdSrcRaise ==
  /\ prod = "pull" /\ srcPos = SrcLen /\ p.srcfail # 0
  /\ prod' = IF p.srcbase /\ ~ForwardBase THEN "dead" ELSE "putstopped"
  /\ UNCHANGED <<p, srcPos, heldP, q, cons, val, out, stop, raised>>

\* `if stopped.is_set(): break`
ProdCheckStop ==
  /\ prod = "check"
  /\ IF stop THEN prod' = "putfin" /\ heldP' = 0 ELSE prod' = "put" /\ heldP' = heldP
  /\ UNCHANGED <<p, srcPos, q, cons, val, out, stop, raised>>

ProdPut ==
  /\ prod = "put" /\ Len(q) < p.maxsize
  /\ q' = Append(q, It("item", heldP)) /\ heldP' = 0 /\ prod' = "pull"
  /\ UNCHANGED <<p, srcPos, cons, val, out, stop, raised>>

ProdPutFin ==
  /\ prod = "putfin" /\ Len(q) < p.maxsize
  /\ q' = Append(q, It("fin", 0)) /\ prod' = "done"
  /\ UNCHANGED <<p, srcPos, heldP, cons, val, out, stop, raised>>

ProdPutStopped ==
  /\ prod = "putstopped" /\ Len(q) < p.maxsize
  /\ q' = Append(q, It("stopped", 0)) /\ prod' = "putexc"
  /\ UNCHANGED <<p, srcPos, heldP, cons, val, out, stop, raised>>

ProdPutExc ==
  /\ prod = "putexc" /\ Len(q) < p.maxsize
  /\ q' = Append(q, It("exc", 0)) /\ prod' = "done"
  /\ UNCHANGED <<p, srcPos, heldP, cons, val, out, stop, raised>>

-----------------------------------------------------------------------------
(* CONSUMER -- `__iter__` and the user's loop                               *)
ConsStart ==
  /\ cons = "new"
  /\ cons' = "get" /\ prod' = "pull"
  /\ UNCHANGED <<p, srcPos, heldP, q, val, out, stop, raised>>

ConsNeverStarted ==
  /\ cons = "new" /\ p.maybreak
  /\ cons' = "closed"
  /\ UNCHANGED <<p, srcPos, prod, heldP, q, val, out, stop, raised>>

ConsGet ==
  /\ cons = "get" /\ q # <<>>
  /\ q' = Tail(q)
  /\ LET z == Head(q) IN
       IF z.t = "fin" THEN cons' = "setstop" /\ val' = val
       ELSE IF z.t = "stopped" THEN cons' = "getexc" /\ val' = val
       ELSE cons' = "yield" /\ val' = z.x
  /\ UNCHANGED <<p, srcPos, prod, heldP, out, stop, raised>>

\* `raise tasks.get()`
ConsGetExc ==
  /\ cons = "getexc" /\ q # <<>>
  /\ q' = Tail(q) /\ raised' = "src" /\ cons' = "setstop"
  /\ UNCHANGED <<p, srcPos, prod, heldP, val, out, stop>>

ConsYield ==
  /\ cons = "yield"
  /\ out' = Append(out, val) /\ cons' = "susp" /\ val' = 0
  /\ UNCHANGED <<p, srcPos, prod, heldP, q, stop, raised>>

ConsNext ==
  /\ cons = "susp" /\ cons' = "get"
  /\ UNCHANGED <<p, srcPos, prod, heldP, q, val, out, stop, raised>>

ConsBreak ==
  /\ cons = "susp" /\ p.maybreak /\ cons' = "setstop"
  /\ UNCHANGED <<p, srcPos, prod, heldP, q, val, out, stop, raised>>

-----------------------------------------------------------------------------
(* FINALIZER -- `_finalize`                                                 *)
FinSetStop ==
  /\ cons = "setstop"
  /\ stop' = TRUE /\ cons' = "drain"
  /\ UNCHANGED <<p, srcPos, prod, heldP, q, val, out, raised>>

FinDrainOne ==
  /\ cons = "drain" /\ q # <<>>
  /\ q' = Tail(q)
  /\ UNCHANGED <<p, srcPos, prod, heldP, cons, val, out, stop, raised>>

FinDrainEmpty ==
  /\ cons = "drain" /\ q = <<>>
  /\ cons' = "join"
  /\ UNCHANGED <<p, srcPos, prod, heldP, q, val, out, stop, raised>>

\* repaired: `join(timeout)` elapsed while the producer is still alive -> drain again
FinJoinTimeout ==
  /\ DrainUntilJoined
  /\ cons = "join" /\ prod \notin {"done", "dead"}
  /\ cons' = "drain"
  /\ UNCHANGED <<p, srcPos, prod, heldP, q, val, out, stop, raised>>

FinJoin ==
  /\ cons = "join" /\ prod \in {"done", "dead"}
  /\ cons' = "closed"
  /\ UNCHANGED <<p, srcPos, prod, heldP, q, val, out, stop, raised>>

Terminated == cons = "closed"

Next ==
  \/ ProdPull \/ ProdSrcEnd \/ ProdSrcRaise \/ ProdCheckStop \/ ProdPut \/ ProdPutFin \/ ProdPutStopped \/ ProdPutExc
  \/ ConsStart \/ ConsNeverStarted \/ ConsGet \/ ConsGetExc \/ ConsYield \/ ConsNext \/ ConsBreak
  \/ FinSetStop \/ FinDrainOne \/ FinDrainEmpty \/ FinJoinTimeout \/ FinJoin
  \/ (Terminated /\ UNCHANGED vars)

Producer == ProdPull \/ ProdSrcEnd \/ ProdSrcRaise \/ ProdCheckStop \/ ProdPut \/ ProdPutFin \/ ProdPutStopped \/ ProdPutExc
Consumer == ConsStart \/ ConsNeverStarted \/ ConsGet \/ ConsGetExc \/ ConsYield \/ ConsNext \/ ConsBreak
            \/ FinSetStop \/ FinDrainOne \/ FinDrainEmpty \/ FinJoin

Spec == Init /\ [][Next]_vars
\* the consumer eventually really joins (FinJoin is strongly fair against the timeout loop)
FairSpec == Spec /\ WF_vars(Producer) /\ WF_vars(Consumer) /\ WF_vars(FinJoinTimeout) /\ SF_vars(FinJoin)

-----------------------------------------------------------------------------
TypeOK ==
  /\ srcPos \in 0..MaxN /\ heldP \in 0..MaxN /\ stop \in BOOLEAN /\ raised \in {"none", "src"}
  /\ prod \in {"idle", "pull", "check", "put", "putfin", "putstopped", "putexc", "done", "dead"}
  /\ cons \in {"new", "get", "getexc", "yield", "susp", "setstop", "drain", "join", "closed"}

\* C03/C05: buffer is the identity on the stream
OutIsPrefix == \A k \in 1..Len(out) : out[k] = k

EndOK ==
  cons = "closed" =>
    \/ raised = "none" /\ p.srcfail = 0 /\ Len(out) = SrcLen
    \/ raised = "none" /\ p.maybreak
    \/ raised = "src" /\ p.srcfail # 0 /\ Len(out) = SrcLen

\* C05: the helper thread has exited when the iterator is closed
NoLeak == cons = "closed" => prod \in {"idle", "done"}

\* C08: look-ahead of buffer(n) is at most n + 2
Consuming == cons \in {"new", "get", "getexc", "yield", "susp"}
LookAhead == Consuming => srcPos - Len(out) <= p.maxsize + 2
InFlight == (IF heldP # 0 THEN 1 ELSE 0) + Cardinality({k \in DOMAIN q : q[k].t = "item"}) + (IF val # 0 THEN 1 ELSE 0)
InFlightBound == InFlight <= p.maxsize + 2
QueueBound == Len(q) <= p.maxsize

EventuallyClosed == <>Terminated

Trap_BreakWhileFull == ~(cons = "setstop" /\ prod = "put" /\ Len(q) = p.maxsize)
Trap_SrcFailAfterBreak == ~(cons = "join" /\ prod = "putexc")
Trap_MaxLookAhead == ~(Consuming /\ srcPos - Len(out) = p.maxsize + 2)
=============================================================================
