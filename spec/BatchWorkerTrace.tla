-------------------------- MODULE BatchWorkerTrace --------------------------
(* Validates recorded executions of the real Worker loops (mbt/bind/batchworker.py; detsched with EXACT virtual time)   *)
(* against BatchWorker.  Logged: arrivals (with time), read-lock traffic, gets from the input queue, puts/gets on the    *)
(* batch buffer (with time), what `call` received and when, short-circuits to the output queue.  Silent: the collector's *)
(* pure tests (incl. the test for room at the top of its loop and the wait for room), the consumer closing a batch, the   *)
(* return of `call` (a slow call: `dur` ticks, known from the header) and the passing of time (Tick - only when nothing   *)
(* else can move).                                                                                                       *)
EXTENDS BatchWorker, Json, IOUtils, TLCExt

TraceLog == JsonDeserialize(IOEnv.TRACE_FILE)
VARIABLES tid, l
tvars == <<vars, tid, l>>

Evs == TraceLog[tid].ev
E == Evs[l]
Is(name) == l <= Len(Evs) /\ E.ev = name
Adv == l' = l + 1 /\ tid' = tid
Silent == l' = l /\ tid' = tid
Same == UNCHANGED vars
LastOf(s) == s[Len(s)]

TraceInit ==
  \E t \in 1..Len(TraceLog) :
     /\ tid = t /\ l = 1
     /\ InitWith([b |-> TraceLog[t].p.b, w |-> TraceLog[t].p.w, arr |-> TraceLog[t].p.arr,
                  slow |-> {TraceLog[t].p.slow[i] : i \in 1..Len(TraceLog[t].p.slow)}, dur |-> TraceLog[t].p.dur])
     /\ TLCSet(t, <<1, "init", "none">>)

TArrive  == Is("Arrive") /\ Arrive /\ nextArr = E.id /\ now = E.t /\ Adv
TStop    == Is("Stop") /\ Stop /\ now = E.t /\ Adv
TRLock   == Is("RLock") /\ CLock(E.w) /\ Adv
\* release of the read lock: by the decision step, or (redundant) after the end marker was handled
TRUnlock == /\ Is("RUnlock")
            /\ \/ rlock = E.w /\ CDecide(E.w) /\ rlock' = 0
               \/ rlock # E.w /\ cpc[E.w] = "done" /\ Same
            /\ Adv
TInGet   == /\ Is("InGet") /\ qin # <<>> /\ Head(qin).id = E.id
            /\ \/ p.b >= 2 /\ CGet(E.w)
               \/ p.b <= 1 /\ SGet(E.w)
            /\ Adv
\* collector: genuine input or end marker into the batch buffer; the consumer's put-back of the end marker changes nothing
TBufPut  == /\ Is("BufPut")
            /\ \/ E.coll /\ cz[E.w].id = E.id /\ cz[E.w].kind \in {"ok", "end"} /\ CProc(E.w)
               \/ ~E.coll /\ E.id = 0 /\ Same
            /\ Adv
TOut     == /\ Is("Out") /\ E.own        \* own: the short-circuited failure is the request's own (its class, its id)
            /\ \/ p.b >= 2 /\ cz[E.w].id = E.id /\ cz[E.w].kind = E.kind /\ CProc(E.w)
               \/ p.b <= 1 /\ [id |-> E.id, kind |-> E.kind] \in outs /\ Same
            /\ Adv
TBufGet  == /\ Is("BufGet") /\ buf[E.w] # <<>> /\ Head(buf[E.w]).id = E.id /\ now = E.t
            /\ (GFirst(E.w) \/ GMore(E.w))
            /\ Adv
TCall    == /\ Is("Call") /\ now = E.t
            /\ \/ p.b >= 2 /\ GCall(E.w) /\ LastOf(calls').ids = E.ids /\ ~E.bare
               \/ p.b <= 1 /\ (\E j \in 1..Len(calls) : calls[j].ids = E.ids /\ calls[j].w = E.w /\ calls[j].t = E.t)
                  /\ E.bare = (p.b = 0) /\ Same
            /\ Adv
\* the result of a genuine input leaves the worker (call returned its input): must be an input that was passed to `call`
TRes     == Is("Res") /\ E.same /\ E.id \in Called /\ Same /\ Adv
TAllDone == Is("AllDone") /\ AllDone /\ E.leftover = 0 /\ Same /\ Adv

TSilent  == /\ \/ \E w \in Wk : CTop(w) \/ CToWait(w) \/ CMore(w) \/ (CDecide(w) /\ rlock' = rlock) \/ GClose(w) \/ GSetFlag(w)
                                  \/ GReturn(w)
               \/ Tick
            /\ Silent

TraceNext == TArrive \/ TStop \/ TRLock \/ TRUnlock \/ TInGet \/ TBufPut \/ TOut \/ TBufGet \/ TCall \/ TRes \/ TAllDone
             \/ TSilent
TraceSpec == TraceInit /\ [][TraceNext]_tvars

FailedInv ==
  IF ~WellFormed THEN "WellFormed" ELSE IF ~AtMostOnce THEN "AtMostOnce" ELSE IF ~ExactlyOnceAtEnd THEN "ExactlyOnceAtEnd"
  ELSE IF ~Timely THEN "Timely" ELSE IF ~Immediate THEN "Immediate" ELSE "none"

Progress ==
  IF FailedInv # "none"
    THEN TLCSet(tid, <<TLCGet(tid)[1], TLCGet(tid)[2], FailedInv>>) /\ FALSE
    ELSE IF TLCGet(tid)[1] < l
           THEN TLCSet(tid, <<l, <<now, cpc, gpc, rlock, qin, buf, batch>>, TLCGet(tid)[3]>>)
           ELSE TRUE

Report ==
  \A t \in 1..Len(TraceLog) :
     PrintT(<<"VERDICT", t, TLCGet(t)[1], Len(TraceLog[t].ev), TLCGet(t)[2], TLCGet(t)[3]>>)
=============================================================================
