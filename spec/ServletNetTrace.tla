--------------------------- MODULE ServletNetTrace ---------------------------
(* Validates recorded executions of the real Server over thread servlet trees (mbt/bind/servletnet.py, detsched) against *)
(* ServletNet.  Logged: id minting (ledger insert), every get from every queue of the tree (who, which id), what each     *)
(* worker call received and whether it raised, and the decoded value each caller got.                                    *)
EXTENDS ServletNet, Json, IOUtils, TLCExt

TraceLog == JsonDeserialize(IOEnv.TRACE_FILE)
VARIABLES tid, l
tvars == <<vars, tid, l>>

ToSet(s) == {s[i] : i \in DOMAIN s}
Evs == TraceLog[tid].ev
E == Evs[l]
Is(name) == l <= Len(Evs) /\ E.ev = name
Adv == l' = l + 1 /\ tid' = tid
Same == UNCHANGED vars

ParamOf(h) == [ fail |-> [s \in Stages |-> ToSet(h.fail[s])], pre |-> [s \in Stages |-> ToSet(h.pre[s])],
                route |-> h.route, abandon |-> ToSet(h.abandon) ]

TraceInit ==
  \E t \in 1..Len(TraceLog) :
     /\ tid = t /\ l = 1 /\ InitWith(ParamOf(TraceLog[t].p))
     /\ TLCSet(t, <<1, "init", "none">>)

\* a request id is minted.  Re-use of an id is accepted only if nothing in the servlet tree still carries it.
InsideNet(u) == \/ \E n \in QNames : \E k \in 1..Len(qs[n]) : qs[n][k].uid = u
                \/ \E i \in WIds : \/ \E k \in 1..Len(hold[i]) : hold[i][k].uid = u
                                   \/ \E k \in 1..Len(obx[i]) : obx[i][k].uid = u
                                   \/ \E k \in 1..Len(scb[i]) : scb[i][k].uid = u
                \/ u \in DOMAIN cat \/ u \in DOMAIN ledger
TSubmit == /\ Is("Submit") /\ pc[E.r] = "new" /\ ~InsideNet(E.u)
           /\ used' = used \cup {E.u} /\ uidOf' = [uidOf EXCEPT ![E.r] = E.u] /\ pc' = [pc EXCEPT ![E.r] = "wait"]
           /\ ledger' = With(ledger, E.u, E.r) /\ qs' = Put("in", Msg(E.u, In(E.r)))
           /\ UNCHANGED <<p, hold, obx, scb, cat, outcome, batches, missed>>
           /\ Adv
TQGet   == /\ Is("QGet") /\ qs[E.q] # <<>> /\ Head(qs[E.q]).uid = E.u
           /\ \/ E.who \in {"w", "wc"} /\ W(E.n).from = E.q /\ WTake(E.n)
              \/ E.who = "gather" /\ E.q = "out" /\ Gather
              \/ E.who = "enq" /\ E.q = "in" /\ EnsEnq
              \/ E.who = "sw" /\ E.q = "in" /\ SwEnq
              \/ E.who = "deq" /\ E.q = "oa" /\ EnsDeq("A")
              \/ E.who = "deq" /\ E.q = "ob" /\ EnsDeq("B")
           /\ Adv
\* a worker puts a result / a short-circuited exception value on its output queue
TQPut   == /\ Is("QPut")
           /\ \/ E.who = "w" /\ obx[E.n] # <<>> /\ Head(obx[E.n]).uid = E.u /\ WPut(E.n)
              \/ E.who = "wc" /\ scb[E.n] # <<>> /\ Head(scb[E.n]).uid = E.u /\ WPutSc(E.n)
           /\ W(E.n).to = E.q
           /\ Adv
\* a worker call finished: which requests it was given, whether it raised
TWDone  == /\ Is("WDone") /\ Len(E.reqs) <= Len(hold[E.n])
           /\ \A j \in 1..Len(E.reqs) : hold[E.n][j].val.req = E.reqs[j]
           /\ WFinish(E.n, Len(E.reqs))
           /\ E.ok = (ToSet(E.reqs) \cap p.fail[W(E.n).stage] = {})
           /\ Adv
\* what the caller got, decoded to a value record
TRet    == /\ Is("Ret") /\ Return(E.r) /\ E.tb      \* tb: a failure carries its type, args and failure-site traceback
           /\ outcome[E.r].k = E.k
           /\ \/ E.k = "v" /\ outcome[E.r].req = E.req /\ outcome[E.r].path = E.path
              \/ E.k = "e" /\ outcome[E.r].path = E.path
                 /\ IF E.path[1] \in {"PS1", "PS2", "PA", "PB"}
                      THEN outcome[E.r].req = E.req            \* preprocess is per element: always the request's own failure
                      ELSE (W(CHOOSE i \in WIds : W(i).stage = E.path[1]).b = 1 => outcome[E.r].req = E.req)
              \/ E.k \in {"l", "x"} /\ outcome[E.r].a = E.a /\ outcome[E.r].b = E.b
           /\ Adv
\* the caller puts the input into the tree's input queue: its ledger entry exists by then (D4)
TInPut   == Is("InPut") /\ E.u \in DOMAIN ledger /\ Same /\ Adv
TAbandon == Is("Abandon") /\ Abandon(E.r) /\ Adv
TIdle   == /\ Is("Idle") /\ E.backlog = 0 /\ ledger = <<>> /\ (\A n \in QNames : qs[n] = <<>>)
           /\ (\A i \in WIds : hold[i] = <<>> /\ obx[i] = <<>> /\ scb[i] = <<>>) /\ Same /\ Adv
TExit   == Is("Exit") /\ E.leftover = 0 /\ Same /\ Adv

TraceNext == TSubmit \/ TQGet \/ TQPut \/ TWDone \/ TRet \/ TInPut \/ TAbandon \/ TIdle \/ TExit
TraceSpec == TraceInit /\ [][TraceNext]_tvars

FailedInv == IF ~NoCrossTalk THEN "NoCrossTalk" ELSE IF ~NoMiss THEN "NoMiss" ELSE "none"

Progress ==
  IF FailedInv # "none"
    THEN TLCSet(tid, <<TLCGet(tid)[1], TLCGet(tid)[2], FailedInv>>) /\ FALSE
    ELSE IF TLCGet(tid)[1] < l
           THEN TLCSet(tid, <<l, <<pc, uidOf, hold, DOMAIN cat, DOMAIN ledger>>, TLCGet(tid)[3]>>)
           ELSE TRUE

Report ==
  \A t \in 1..Len(TraceLog) :
     PrintT(<<"VERDICT", t, TLCGet(t)[1], Len(TraceLog[t].ev), TLCGet(t)[2], TLCGet(t)[3]>>)
=============================================================================
