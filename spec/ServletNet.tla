----------------------------- MODULE ServletNet -----------------------------
(***************************************************************************)
(* The data path of a server: mpserver/_server.py (uid minting, ledger,     *)
(* gather), _servlet.py (Sequential wiring, Ensemble enqueue/dequeue threads *)
(* with their catalog and the fail_fast rules, Switch) and _worker.py       *)
(* (single loop with uid pairing, exception short-circuit, batched call      *)
(* whose failure fails exactly its members).                                 *)
(*                                                                         *)
(* Values carry provenance: which request's input they were computed from   *)
(* and through which stages, so "no cross-talk" and "fails alone, with its  *)
(* own error" are state predicates.                                         *)
(*                                                                         *)
(* Topologies (CONSTANT Topo):                                              *)
(*   "single"  in -> S1 (2 workers) -> out                                  *)
(*   "seq"     in -> S1 (2 workers) -> m1 -> S2 (1 worker, batch <= 2) -> out*)
(*   "ens"     in -> Ensemble[A (1 worker), B (1 worker)] -> out             *)
(*   "switch"  in -> Switch[A, B] -> out                                    *)
(*                                                                         *)
(* Flag FreshUid: TRUE = repaired: request ids are never reused.            *)
(*   FALSE = as found: uid = id(future): an id may be taken again as soon   *)
(*   as the earlier future object is dead, although the servlet tree may    *)
(*   still hold the old id (catalog, member queues) -> cross-talk (D7).     *)
(***************************************************************************)
EXTENDS Naturals, Sequences, FiniteSets, TLC

CONSTANTS R, Topo, FailFast, FreshUid, NUids

VARIABLES
  p,        \* [fail, pre : [stage -> SUBSET Req], route : [Req -> {"A","B"}], abandon : SUBSET Req]
            \* whose call fails where; whom the per-element preprocess hook of a stage rejects; switch routing; which callers
            \* may time out before their result arrives
  qs,       \* queues: [name -> sequence of [uid, val]]
  hold,     \* hold[w]: messages in the hands of worker w
  obx,      \* obx[w]: results computed by worker w, not yet put on its output queue (put in this order)
  scb,      \* scb[w]: exception values short-circuited by worker w's collector thread (batching worker), not yet put
  cat,      \* ensemble catalog: [uid -> [a, b, n]] for uids present (function on a subset of Uids)
  ledger,   \* [uid -> request] for uids present
  used,     \* uids minted so far (set)
  pc,       \* per request: "new" | "wait" | "done"
  uidOf,    \* uid of request r (0 = not yet)
  outcome,  \* value delivered to request r (None record = nothing yet)
  batches,  \* history: set of sets of requests that shared a batched call at S2
  missed    \* results dropped by the gather thread (no ledger entry)

vars == <<p, qs, hold, obx, scb, cat, ledger, used, pc, uidOf, outcome, batches, missed>>

Req == 1..R
Uids == 1..NUids
Stages == {"S1", "S2", "A", "B"}
QNames == {"in", "out", "m1", "ma", "mb", "oa", "ob"}
None == [k |-> "none", req |-> 0, path |-> <<>>, a |-> 0, b |-> 0]
In(r) == [k |-> "v", req |-> r, path |-> <<>>, a |-> 0, b |-> 0]
Err(r, s) == [k |-> "e", req |-> r, path |-> <<s>>, a |-> 0, b |-> 0]
Through(v, s) == [v EXCEPT !.path = Append(@, s)]
\* ensemble results keep, per member, the request the member value was computed from and whether it is an error
Mv(v) == IF v.k = "none" THEN 0 ELSE (IF v.k = "e" THEN v.req + 100 ELSE v.req)      \* encoded member value
Lst(va, vb) == [k |-> "l", req |-> 0, path |-> <<>>, a |-> Mv(va), b |-> Mv(vb)]
EnsErr(va, vb) == [k |-> "x", req |-> 0, path |-> <<>>, a |-> Mv(va), b |-> Mv(vb)]
IsErr(v) == v.k \in {"e", "x"}
Msg(u, v) == [uid |-> u, val |-> v]

\* workers: [id, from, to, stage, b]
Workers ==
  CASE Topo = "single" -> {[id |-> 1, from |-> "in", to |-> "out", stage |-> "S1", b |-> 1],
                           [id |-> 2, from |-> "in", to |-> "out", stage |-> "S1", b |-> 1]}
    [] Topo = "seq"    -> {[id |-> 1, from |-> "in", to |-> "m1", stage |-> "S1", b |-> 1],
                           [id |-> 2, from |-> "in", to |-> "m1", stage |-> "S1", b |-> 1],
                           [id |-> 3, from |-> "m1", to |-> "out", stage |-> "S2", b |-> 2]}
    [] Topo = "ens"    -> {[id |-> 1, from |-> "ma", to |-> "oa", stage |-> "A", b |-> 1],
                           [id |-> 2, from |-> "mb", to |-> "ob", stage |-> "B", b |-> 1]}
    [] Topo = "switch" -> {[id |-> 1, from |-> "ma", to |-> "out", stage |-> "A", b |-> 1],
                           [id |-> 2, from |-> "mb", to |-> "out", stage |-> "B", b |-> 1]}
WIds == {w.id : w \in Workers}
W(i) == CHOOSE w \in Workers : w.id = i
UsedStages == {w.stage : w \in Workers}

PSite(s) == CASE s = "S1" -> "PS1" [] s = "S2" -> "PS2" [] s = "A" -> "PA" [] s = "B" -> "PB"
Configs == { c \in [fail : [Stages -> SUBSET Req], pre : [Stages -> SUBSET {2}], route : [Req -> {"A", "B"}],
                    abandon : SUBSET {1}] :
               /\ \A s \in Stages \ UsedStages : c.fail[s] = {} /\ c.pre[s] = {}
               /\ \A s \in Stages : c.pre[s] \subseteq Req
               /\ (Topo # "switch" => \A r \in Req : c.route[r] = "A") }

InitWith(c) ==
  /\ p = c
  /\ qs = [n \in QNames |-> <<>>] /\ hold = [i \in 1..3 |-> <<>>]
  /\ obx = [i \in 1..3 |-> <<>>] /\ scb = [i \in 1..3 |-> <<>>]
  /\ cat = <<>> /\ ledger = <<>> /\ used = {}
  /\ pc = [r \in Req |-> "new"] /\ uidOf = [r \in Req |-> 0] /\ outcome = [r \in Req |-> None]
  /\ batches = {} /\ missed = {}
Init == \E c \in Configs : InitWith(c)

Put(q, m) == [qs EXCEPT ![q] = Append(@, m)]
Drop(f, k) == [x \in DOMAIN f \ {k} |-> f[x]]
With(f, k, v) == [x \in DOMAIN f \cup {k} |-> IF x = k THEN v ELSE f[x]]
\* uids whose future object is still alive (recorded in the ledger, or its caller has not returned yet)
LiveFut == DOMAIN ledger \cup {uidOf[r] : r \in {x \in Req : pc[x] = "wait"}}

-----------------------------------------------------------------------------
(* SERVER FRONT                                                              *)
Submit(r, u) ==
  /\ pc[r] = "new" /\ u \in Uids
  /\ IF FreshUid THEN u = r /\ u \notin used ELSE u \notin LiveFut
  /\ used' = used \cup {u} /\ uidOf' = [uidOf EXCEPT ![r] = u] /\ pc' = [pc EXCEPT ![r] = "wait"]
  /\ ledger' = With(ledger, u, r) /\ qs' = Put("in", Msg(u, In(r)))
  /\ UNCHANGED <<p, hold, obx, scb, cat, outcome, batches, missed>>

Gather ==
  /\ qs["out"] # <<>>
  /\ LET m == Head(qs["out"]) IN
       /\ qs' = [qs EXCEPT !["out"] = Tail(@)]
       /\ IF m.uid \in DOMAIN ledger
            THEN /\ outcome' = [outcome EXCEPT ![ledger[m.uid]] = m.val]
                 /\ ledger' = Drop(ledger, m.uid) /\ missed' = missed
            ELSE outcome' = outcome /\ ledger' = ledger /\ missed' = missed \cup {m.uid}
  /\ UNCHANGED <<p, hold, obx, scb, cat, used, pc, uidOf, batches>>

Return(r) ==
  /\ pc[r] = "wait" /\ outcome[r].k # "none"
  /\ pc' = [pc EXCEPT ![r] = "done"]
  /\ UNCHANGED <<p, qs, hold, obx, scb, cat, ledger, used, uidOf, outcome, batches, missed>>

\* the caller's deadline expires first: it leaves without an outcome; the ledger entry stays until the result emerges
Abandon(r) ==
  /\ pc[r] = "wait" /\ r \in p.abandon      \* possibly while the gather thread already holds its result
  /\ pc' = [pc EXCEPT ![r] = "done"]
  /\ UNCHANGED <<p, qs, hold, obx, scb, cat, ledger, used, uidOf, outcome, batches, missed>>

-----------------------------------------------------------------------------
(* WORKERS                                                                   *)
\* take one message; an exception value is short-circuited towards the output queue (by the worker loop itself, or by the
\* collector thread of a batching worker - which writes to the output queue concurrently with the worker's main thread)
WTake(i) ==
  LET w == W(i) IN
  /\ qs[w.from] # <<>> /\ (w.b = 1 => hold[i] = <<>> /\ obx[i] = <<>>)   \* a batching worker keeps collecting
  /\ LET m0 == Head(qs[w.from])
         \* the per-element preprocess hook of this stage rejects the input: its own exception takes the value's place
         m == IF ~IsErr(m0.val) /\ m0.val.req \in p.pre[w.stage] THEN Msg(m0.uid, Err(m0.val.req, PSite(w.stage))) ELSE m0
     IN
       /\ qs' = [qs EXCEPT ![w.from] = Tail(@)]
       /\ IF IsErr(m.val)
            THEN IF w.b = 1 THEN obx' = [obx EXCEPT ![i] = Append(@, m)] /\ scb' = scb /\ hold' = hold
                            ELSE scb' = [scb EXCEPT ![i] = Append(@, m)] /\ obx' = obx /\ hold' = hold
            ELSE hold' = [hold EXCEPT ![i] = Append(@, m)] /\ obx' = obx /\ scb' = scb
  /\ UNCHANGED <<p, cat, ledger, used, pc, uidOf, outcome, batches, missed>>

\* call(...) on the first k collected inputs (k <= batch size); a raising call fails every member of the batch
\* (each member keeps its own identity)
WFinish(i, k) ==
  LET w == W(i)
      reqs == {hold[i][j].val.req : j \in 1..k}
      bad == reqs \cap p.fail[w.stage] # {}
      res(m) == Msg(m.uid, IF bad THEN Err(m.val.req, w.stage) ELSE Through(m.val, w.stage))
  IN
  /\ k >= 1 /\ k <= w.b /\ k <= Len(hold[i]) /\ obx[i] = <<>>
  /\ obx' = [obx EXCEPT ![i] = [j \in 1..k |-> res(hold[i][j])]]
  /\ hold' = [hold EXCEPT ![i] = SubSeq(@, k + 1, Len(@))]
  /\ batches' = IF w.b > 1 THEN batches \cup {reqs} ELSE batches
  /\ UNCHANGED <<p, qs, scb, cat, ledger, used, pc, uidOf, outcome, missed>>

\* `q_out.put(...)`
WPut(i) ==
  /\ obx[i] # <<>>
  /\ qs' = Put(W(i).to, Head(obx[i])) /\ obx' = [obx EXCEPT ![i] = Tail(@)]
  /\ UNCHANGED <<p, hold, scb, cat, ledger, used, pc, uidOf, outcome, batches, missed>>
WPutSc(i) ==
  /\ scb[i] # <<>>
  /\ qs' = Put(W(i).to, Head(scb[i])) /\ scb' = [scb EXCEPT ![i] = Tail(@)]
  /\ UNCHANGED <<p, hold, obx, cat, ledger, used, pc, uidOf, outcome, batches, missed>>

-----------------------------------------------------------------------------
(* ENSEMBLE  (`_enqueue`, `_dequeue`)                                        *)
EnsEnq ==
  /\ Topo = "ens" /\ qs["in"] # <<>>
  /\ LET m == Head(qs["in"]) IN
       IF IsErr(m.val)
         THEN qs' = [qs EXCEPT !["in"] = Tail(@), !["out"] = Append(@, m)] /\ cat' = cat
         ELSE /\ cat' = With(cat, m.uid, [a |-> None, b |-> None, n |-> 0])
              /\ qs' = [qs EXCEPT !["in"] = Tail(@), !["ma"] = Append(@, m), !["mb"] = Append(@, m)]
  /\ UNCHANGED <<p, hold, obx, scb, ledger, used, pc, uidOf, outcome, batches, missed>>

EnsDeq(mem) ==
  LET q == IF mem = "A" THEN "oa" ELSE "ob" IN
  /\ Topo = "ens" /\ qs[q] # <<>>
  /\ LET m == Head(qs[q]) IN
       IF m.uid \notin DOMAIN cat
         THEN qs' = [qs EXCEPT ![q] = Tail(@)] /\ cat' = cat              \* entry removed by fail-fast: ignored
         ELSE LET z0 == cat[m.uid]
                  z == IF mem = "A" THEN [z0 EXCEPT !.a = m.val, !.n = @ + 1]
                                    ELSE [z0 EXCEPT !.b = m.val, !.n = @ + 1]
              IN IF FailFast /\ IsErr(m.val)
                   THEN /\ cat' = Drop(cat, m.uid)
                        /\ qs' = [qs EXCEPT ![q] = Tail(@), !["out"] = Append(@, Msg(m.uid, EnsErr(z.a, z.b)))]
                   ELSE IF z.n = 2
                     THEN /\ cat' = Drop(cat, m.uid)
                          /\ qs' = [qs EXCEPT ![q] = Tail(@),
                                              !["out"] = Append(@, Msg(m.uid, IF IsErr(z.a) /\ IsErr(z.b)
                                                                               THEN EnsErr(z.a, z.b) ELSE Lst(z.a, z.b)))]
                     ELSE cat' = With(cat, m.uid, z) /\ qs' = [qs EXCEPT ![q] = Tail(@)]
  /\ UNCHANGED <<p, hold, obx, scb, ledger, used, pc, uidOf, outcome, batches, missed>>

(* SWITCH (`_enqueue`)                                                       *)
SwEnq ==
  /\ Topo = "switch" /\ qs["in"] # <<>>
  /\ LET m == Head(qs["in"]) IN
       IF IsErr(m.val)
         THEN qs' = [qs EXCEPT !["in"] = Tail(@), !["out"] = Append(@, m)]
         ELSE qs' = [qs EXCEPT !["in"] = Tail(@),
                               ![IF p.route[m.val.req] = "A" THEN "ma" ELSE "mb"] = Append(@, m)]
  /\ UNCHANGED <<p, hold, obx, scb, cat, ledger, used, pc, uidOf, outcome, batches, missed>>

-----------------------------------------------------------------------------
AllDone == \A r \in Req : pc[r] = "done"
Quiet == AllDone /\ (\A n \in QNames : qs[n] = <<>>) /\ (\A i \in WIds : hold[i] = <<>> /\ obx[i] = <<>> /\ scb[i] = <<>>)

Next ==
  \/ \E r \in Req, u \in Uids : Submit(r, u)
  \/ \E r \in Req : Return(r) \/ Abandon(r)
  \/ Gather \/ EnsEnq \/ SwEnq \/ \E mem \in {"A", "B"} : EnsDeq(mem)
  \/ \E i \in WIds : WTake(i) \/ WPut(i) \/ WPutSc(i) \/ \E k \in 1..2 : WFinish(i, k)
  \/ (AllDone /\ UNCHANGED vars)

Spec == Init /\ [][Next]_vars
FairSpec == Spec /\ WF_vars(Next) /\ WF_vars(Gather) /\ WF_vars(EnsEnq) /\ WF_vars(SwEnq)
            /\ (\A mem \in {"A", "B"} : WF_vars(EnsDeq(mem)))
            /\ (\A i \in WIds : WF_vars(WTake(i)) /\ WF_vars(WPut(i)) /\ WF_vars(WPutSc(i))
                                  /\ WF_vars(\E k \in 1..2 : WFinish(i, k)))
            /\ (\A r \in Req : WF_vars(Return(r)) /\ WF_vars(\E u \in Uids : Submit(r, u)))

-----------------------------------------------------------------------------
FailsAt(r, s) == r \in p.fail[s]
\* the batch r shared at S2 (history), if any
BatchMates(r) == UNION {b \in batches : r \in b}

\* what request r must receive
PreAt(r, s) == r \in p.pre[s]
ExpectedOK(r, v) ==
  CASE Topo = "single" -> v = (IF PreAt(r, "S1") THEN Err(r, "PS1")
                               ELSE IF FailsAt(r, "S1") THEN Err(r, "S1") ELSE Through(In(r), "S1"))
    [] Topo = "seq" ->
         IF PreAt(r, "S1") THEN v = Err(r, "PS1")
         ELSE IF FailsAt(r, "S1") THEN v = Err(r, "S1")
         ELSE IF PreAt(r, "S2") THEN v = Err(r, "PS2")
         ELSE IF \E x \in BatchMates(r) : FailsAt(x, "S2") THEN v = Err(r, "S2")     \* exactly the members of the batch
         ELSE v = Through(Through(In(r), "S1"), "S2")
    [] Topo = "switch" ->
         LET s == p.route[r] IN v = (IF PreAt(r, s) THEN Err(r, PSite(s))
                                     ELSE IF FailsAt(r, s) THEN Err(r, s) ELSE Through(In(r), s))
    [] Topo = "ens" ->
         LET fa == FailsAt(r, "A") \/ PreAt(r, "A")  fb == FailsAt(r, "B") \/ PreAt(r, "B")
             ea == IF fa THEN r + 100 ELSE r   eb == IF fb THEN r + 100 ELSE r IN
         IF FailFast /\ (fa \/ fb)
           THEN v.k = "x" /\ v.a \in {0, ea} /\ v.b \in {0, eb} /\ (v.a = ea \/ v.b = eb)
                /\ (v.a # 0 => v.a = ea) /\ (v.b # 0 => v.b = eb)
           ELSE IF fa /\ fb THEN v = [k |-> "x", req |-> 0, path |-> <<>>, a |-> ea, b |-> eb]
           ELSE v = [k |-> "l", req |-> 0, path |-> <<>>, a |-> ea, b |-> eb]

\* C02 / C04: every delivered outcome is the request's own, computed by the configured composition; a failure is the
\* request's own failure (site = where it failed), batch failures hit exactly the batch members, ensemble rules hold
NoCrossTalk == \A r \in Req : outcome[r].k # "none" => ExpectedOK(r, outcome[r])
\* C02: no response is dropped
NoMiss == missed = {}
\* C02: everything that was submitted is answered (checked under FairSpec)
AllAnswered == <>AllDone
\* at most one outcome per request is by construction (Gather removes the ledger entry)

Trap_ReuseWhileInside == ~(\E r \in Req : pc[r] = "wait" /\ \E n \in {"ma", "mb", "oa", "ob"} :
                              \E k \in 1..Len(qs[n]) : qs[n][k].uid = uidOf[r] /\ qs[n][k].val.req # r)
Trap_BatchOfTwo == ~(\E b \in batches : Cardinality(b) = 2)
Trap_FailFastLate == ~(\E m \in {"oa", "ob"} : qs[m] # <<>> /\ Head(qs[m]).uid \notin DOMAIN cat)
=============================================================================
