--------------------------- MODULE StreamOpsCheck ---------------------------
(***************************************************************************)
(* code -> spec leg of C03.  Executions of the REAL Stream recorded by     *)
(* mbt/bind/streamops.py (random programs and sources beyond the bounds of *)
(* the exhaustive enumeration, and every enumerated shuffle case) are      *)
(* judged by TLC with the definitions of StreamOps: the expected result is *)
(* computed here, from the recorded source and program, never in Python.   *)
(* One recorded execution = one "trace" with the single event Observe, so  *)
(* that the batch machinery of mbt/tlc.py (one verdict line per trace) is  *)
(* reused.                                                                 *)
(*   p = [src, prog, mode, clean, same, n, has_o, o, e]                    *)
(*     clean  construction pulled nothing from the instrumented source     *)
(*     same   a raised V/K exception IS the object that was in the stream  *)
(*     o, e   yielded elements (if has_o) and raised element or None       *)
(*     n      number of yielded elements (-1: unknown because it raised)   *)
(***************************************************************************)
EXTENDS StreamOps, IOUtils, TLCExt

TraceLog == JsonDeserialize(IOEnv.TRACE_FILE)

VARIABLES tid, l

Verdict(c) ==
  LET S0 == Str(c.src, None)
      A  == [items |-> c.o, err |-> c.e, n |-> c.n, full |-> c.has_o] IN
  IF ~c.clean THEN "construction-pulled"
  ELSE IF ~c.same THEN "raised-object-is-not-the-stream-element"
  ELSE IF ~Decided(c.prog, S0) THEN "ok"
  ELSE IF Conf(c.prog, S0, A) THEN "ok"
  ELSE IF A.err # Run(c.prog, S0).err THEN "raised" ELSE "output"

TraceInit ==
  /\ input = <<>> /\ prog = <<>> /\ stages = <<>>
  /\ \E t \in 1..Len(TraceLog) :
        /\ tid = t /\ l = 1
        /\ TLCSet(t, <<1, Verdict(TraceLog[t].p), "none">>)

TObserve ==
  /\ l = 1 /\ Len(TraceLog[tid].ev) = 1 /\ TraceLog[tid].ev[1].ev = "Observe"
  /\ TLCGet(tid)[2] = "ok"
  /\ l' = 2 /\ UNCHANGED <<tid, input, prog, stages>>

TraceNext == TObserve
TraceSpec == TraceInit /\ [][TraceNext]_<<vars, tid, l>>

Progress == IF TLCGet(tid)[1] < l THEN TLCSet(tid, <<l, TLCGet(tid)[2], "none">>) ELSE TRUE

Report ==
  \A t \in 1..Len(TraceLog) :
     PrintT(<<"VERDICT", t, TLCGet(t)[1], Len(TraceLog[t].ev), TLCGet(t)[2], TLCGet(t)[3]>>)
=============================================================================
