----------------------------- MODULE ServerCore -----------------------------
(***************************************************************************)
(* Server / AsyncServer of mpserver/_server.py: the backlog ledger          *)
(* (uid -> future), the capacity condition, `_enqueue` (check / wait / put  *)
(* / record), `_wait_for_result` (deadline -> cancel -> TimeoutError), the   *)
(* gather thread (get / pop / cancelled? / set / notify) with its           *)
(* notification thread, abandoned stream requests (cancel at any time) and  *)
(* shutdown.  The servlet tree is abstract here (ServletNet.tla models it): *)
(* an input leaves the pipeline as `(uid, result)` after an arbitrary       *)
(* delay, in any order.                                                     *)
(*                                                                         *)
(* Flags: FALSE = the code as found, TRUE = repaired design.                *)
(*   LedgerFirst  record the future in the ledger BEFORE the input is put   *)
(*                on the queue (as found: after -> a fast result misses the *)
(*                ledger: response lost, caller times out, slot leaked; D4) *)
(*   WaitLoop     re-check the backlog after being woken (as found: `if`,   *)
(*                insert unconditionally -> backlog exceeds capacity; D5)   *)
(*   GuardedSet   gather tolerates a future cancelled between its check and *)
(*                set_result (as found: InvalidStateError kills the gather  *)
(*                thread, every later request hangs; D6)                    *)
(* Serves C06, C07 and the ledger half of C02.                              *)
(***************************************************************************)
EXTENDS Naturals, Sequences, FiniteSets, TLC

CONSTANTS
  R,            \* number of requests (callers) 1..R
  Capacity,
  Mixes,        \* set of request-kind assignments [1..R -> Kinds] explored from Init
  LedgerFirst, WaitLoop, GuardedSet,
  Async         \* TRUE = AsyncServer: the gather thread does not resolve the future itself, it schedules
                \* `fut.set_result` on the event loop (call_soon_threadsafe); a failure there is only logged by the loop

\* kinds of request:
\*  "bp"      call(backpressure=True), generous deadline
\*  "wait"    call(backpressure=False), generous deadline: may wait for a slot, never times out
\*  "short"   call(backpressure=False) whose deadline may expire at any moment (while waiting for a slot or a result)
\*  "stream"  element of a stream(): enqueued with backpressure=False; the consumer may stop early and cancel it
Kinds == {"bp", "wait", "short", "stream"}

VARIABLES
  kind,     \* [1..R -> Kinds], fixed per behaviour
  pc,       \* pc of caller r
  lock,     \* holder of the condition's lock: 0 = free, r = caller r, R+1 = notification thread
  waiters,  \* callers inside Condition.wait(), in arrival order
  ledger,   \* set of requests recorded in the backlog ledger
  inflight, \* requests inside the servlet pipeline
  outq,     \* output queue of the pipeline (sequence of requests whose result is ready)
  fut,      \* fut[r] \in {"none", "pending", "done", "cancelled"}
  gpc, gr,  \* gather thread: pc and the request in its hands
  notifq,   \* pending items of the notification queue
  lost,     \* results dropped by the gather thread because the ledger had no entry (KeyError branch)
  pendset,  \* AsyncServer: set_result callbacks scheduled on the loop, not yet run
  peak      \* history: largest backlog seen

vars == <<kind, pc, lock, waiters, ledger, inflight, outq, fut, gpc, gr, notifq, lost, pendset, peak>>

Req == 1..R
Notifier == R + 1
Max(a, b) == IF a > b THEN a ELSE b
Remove(s, e) == SelectSeq(s, LAMBDA x : x # e)

InitWith(k) ==
  /\ kind = k
  /\ pc = [r \in Req |-> "start"]
  /\ lock = 0 /\ waiters = <<>> /\ ledger = {} /\ inflight = {} /\ outq = <<>>
  /\ fut = [r \in Req |-> "none"]
  /\ gpc = "get" /\ gr = 0 /\ notifq = 0 /\ lost = {} /\ pendset = {} /\ peak = 0

Init == \E k \in Mixes : InitWith(k)

-----------------------------------------------------------------------------
(* CALLER -- `_enqueue` (313-321 / 550-584)                                 *)

\* `with self._pipeline_notfull:`  (also: re-acquisition of the lock after wait() was notified or timed out)
CallerLock(r) ==
  /\ pc[r] \in {"start", "notified", "wleft"} /\ lock = 0
  /\ lock' = r
  /\ pc' = [pc EXCEPT ![r] = CASE pc[r] = "start" -> "check"
                               [] pc[r] = "notified" -> (IF WaitLoop THEN "check" ELSE "put")
                               [] OTHER -> "wreject"]
  /\ UNCHANGED <<kind, waiters, ledger, inflight, outq, fut, gpc, gr, notifq, lost, pendset, peak>>

\* `if len(pipeline) >= capacity:` -> reject at once (backpressure) / wait() (releases the lock) / go on
CallerCheck(r) ==
  /\ pc[r] = "check" /\ lock = r
  /\ IF Cardinality(ledger) >= Capacity
       THEN IF kind[r] = "bp"
              THEN pc' = [pc EXCEPT ![r] = "rejected"] /\ lock' = 0 /\ waiters' = waiters
              ELSE pc' = [pc EXCEPT ![r] = "waiting"] /\ lock' = 0 /\ waiters' = Append(waiters, r)
       ELSE pc' = [pc EXCEPT ![r] = "put"] /\ lock' = lock /\ waiters' = waiters
  /\ UNCHANGED <<kind, ledger, inflight, outq, fut, gpc, gr, notifq, lost, pendset, peak>>

\* wait(timeout * 0.99) expires (any request that waits has a finite deadline) ...
CallerWaitTimeout(r) ==
  /\ pc[r] = "waiting"
  /\ pc' = [pc EXCEPT ![r] = "wtimeout"]
  /\ UNCHANGED <<kind, lock, waiters, ledger, inflight, outq, fut, gpc, gr, notifq, lost, pendset, peak>>

\* ... the caller takes itself off the waiter list (threading.Condition does this WITHOUT the lock), then
\* re-acquires the lock and raises ServerBacklogFull
CallerWaitLeave(r) ==
  /\ pc[r] = "wtimeout"
  /\ waiters' = Remove(waiters, r)
  /\ pc' = [pc EXCEPT ![r] = "wleft"]
  /\ UNCHANGED <<kind, lock, ledger, inflight, outq, fut, gpc, gr, notifq, lost, pendset, peak>>

\* AsyncServer only: after a wake-up that found the server full again (or after a slow lock acquisition) nothing is left of
\* the time budget: `asyncio.wait_for(cond.wait(), t <= 0)` cancels the wait before it starts - the lock is never released,
\* the caller is never on the waiter list - and ServerBacklogFull is raised straight from the check.
CallerNoTimeLeft(r) ==
  /\ Async /\ pc[r] = "check" /\ lock = r
  /\ Cardinality(ledger) >= Capacity /\ kind[r] # "bp"
  /\ lock' = 0 /\ pc' = [pc EXCEPT ![r] = "rejected"]
  /\ UNCHANGED <<kind, waiters, ledger, inflight, outq, fut, gpc, gr, notifq, lost, pendset, peak>>

CallerWaitReject(r) ==
  /\ pc[r] = "wreject" /\ lock = r
  /\ lock' = 0 /\ pc' = [pc EXCEPT ![r] = "rejected"]
  /\ UNCHANGED <<kind, waiters, ledger, inflight, outq, fut, gpc, gr, notifq, lost, pendset, peak>>

\* the two statements `_input_buffer.put((uid, x))` and `pipeline[uid] = fut`, in the order given by LedgerFirst
PutInput(r) == inflight' = inflight \cup {r}
Record(r) == ledger' = ledger \cup {r} /\ peak' = Max(peak, Cardinality(ledger) + 1)

CallerFirst(r) ==
  /\ pc[r] = "put" /\ lock = r
  /\ fut' = [fut EXCEPT ![r] = "pending"]
  /\ IF LedgerFirst THEN Record(r) /\ inflight' = inflight
                    ELSE PutInput(r) /\ ledger' = ledger /\ peak' = peak
  /\ pc' = [pc EXCEPT ![r] = "put2"]
  /\ UNCHANGED <<kind, lock, waiters, outq, gpc, gr, notifq, lost, pendset>>

CallerSecond(r) ==
  /\ pc[r] = "put2" /\ lock = r
  /\ IF LedgerFirst THEN PutInput(r) /\ ledger' = ledger /\ peak' = peak
                    ELSE Record(r) /\ inflight' = inflight
  /\ lock' = 0
  /\ pc' = [pc EXCEPT ![r] = "result"]
  /\ UNCHANGED <<kind, waiters, outq, fut, gpc, gr, notifq, lost, pendset>>

(* CALLER -- `_wait_for_result` (327-339 / 589-607)                          *)
CallerGotResult(r) ==
  /\ pc[r] = "result" /\ fut[r] = "done"
  /\ pc' = [pc EXCEPT ![r] = "done"]
  /\ UNCHANGED <<kind, lock, waiters, ledger, inflight, outq, fut, gpc, gr, notifq, lost, pendset, peak>>

\* the deadline expires before the result is there: result(timeout) raises ...
CallerDeadline(r) ==
  /\ pc[r] = "result" /\ kind[r] = "short" /\ fut[r] # "done"
  /\ pc' = [pc EXCEPT ![r] = "cancelling"]
  /\ UNCHANGED <<kind, lock, waiters, ledger, inflight, outq, fut, gpc, gr, notifq, lost, pendset, peak>>

\* ... then `fut.cancel()` (fails if the result arrived meanwhile) and TimeoutError is raised either way
CallerCancel(r) ==
  /\ pc[r] = "cancelling"
  /\ fut' = [fut EXCEPT ![r] = IF fut[r] = "pending" THEN "cancelled" ELSE fut[r]]
  /\ pc' = [pc EXCEPT ![r] = "timedout"]
  /\ UNCHANGED <<kind, lock, waiters, ledger, inflight, outq, gpc, gr, notifq, lost, pendset, peak>>

\* a stream consumer stops early: fifo_stream's finalizer cancels the pending future; nobody waits for it any more
StreamAbandon(r) ==
  /\ pc[r] = "result" /\ kind[r] = "stream"
  /\ fut' = [fut EXCEPT ![r] = IF fut[r] = "pending" THEN "cancelled" ELSE fut[r]]
  /\ pc' = [pc EXCEPT ![r] = "abandoned"]
  /\ UNCHANGED <<kind, lock, waiters, ledger, inflight, outq, gpc, gr, notifq, lost, pendset, peak>>

-----------------------------------------------------------------------------
(* PIPELINE (abstract servlet tree): any in-flight request finishes next     *)
PipeFinish(r) ==
  /\ r \in inflight
  /\ inflight' = inflight \ {r} /\ outq' = Append(outq, r)
  /\ UNCHANGED <<kind, pc, lock, waiters, ledger, fut, gpc, gr, notifq, lost, pendset, peak>>

-----------------------------------------------------------------------------
(* GATHER THREAD -- `_gather_output` (341-388 / 610-647)                     *)
GatherGet ==
  /\ gpc = "get" /\ outq # <<>>
  /\ gr' = Head(outq) /\ outq' = Tail(outq) /\ gpc' = "pop"
  /\ UNCHANGED <<kind, pc, lock, waiters, ledger, inflight, fut, notifq, lost, pendset, peak>>

\* `fut = pipeline.pop(uid)` - no lock is taken
GatherPop ==
  /\ gpc = "pop" /\ gr \in ledger
  /\ ledger' = ledger \ {gr} /\ gpc' = "check"
  /\ UNCHANGED <<kind, pc, lock, waiters, inflight, outq, fut, gr, notifq, lost, pendset, peak>>

\* `except KeyError: ... continue` - the response is dropped
GatherMiss ==
  /\ gpc = "pop" /\ gr \notin ledger
  /\ lost' = lost \cup {gr} /\ gpc' = "get" /\ gr' = 0
  /\ UNCHANGED <<kind, pc, lock, waiters, ledger, inflight, outq, fut, notifq, pendset, peak>>

\* `if not fut.cancelled():`   (AsyncServer: ... `loop.call_soon_threadsafe(fut.set_result, y)`)
GatherCheck ==
  /\ gpc = "check"
  /\ IF fut[gr] = "cancelled" THEN gpc' = "notify" /\ pendset' = pendset
     ELSE IF Async THEN gpc' = "notify" /\ pendset' = pendset \cup {gr}
     ELSE gpc' = "set" /\ pendset' = pendset
  /\ UNCHANGED <<kind, pc, lock, waiters, ledger, inflight, outq, fut, gr, notifq, lost, peak>>

\* AsyncServer: the loop runs the scheduled `fut.set_result`; on a future cancelled meanwhile it raises inside the
\* loop's callback machinery, which logs it and goes on
LoopSet(r) ==
  /\ r \in pendset
  /\ pendset' = pendset \ {r}
  /\ fut' = [fut EXCEPT ![r] = IF fut[r] = "pending" THEN "done" ELSE fut[r]]
  /\ UNCHANGED <<kind, pc, lock, waiters, ledger, inflight, outq, gpc, gr, notifq, lost, peak>>

\* `fut.set_result(y)` / `fut.set_exception(y)`: InvalidStateError if the future was cancelled after the check
GatherSet ==
  /\ gpc = "set"
  /\ IF fut[gr] = "cancelled"
       THEN fut' = fut /\ gpc' = IF GuardedSet THEN "notify" ELSE "dead"
       ELSE fut' = [fut EXCEPT ![gr] = "done"] /\ gpc' = "notify"
  /\ UNCHANGED <<kind, pc, lock, waiters, ledger, inflight, outq, gr, notifq, lost, pendset, peak>>

GatherNotify ==
  /\ gpc = "notify"
  /\ notifq' = notifq + 1 /\ gpc' = "get" /\ gr' = 0
  /\ UNCHANGED <<kind, pc, lock, waiters, ledger, inflight, outq, fut, lost, pendset, peak>>

\* notification thread: `with pipeline_notfull: pipeline_notfull.notify()` wakes the longest waiter, if any.
\* A waiter whose wait has just timed out but which is still on the list swallows the notification (this is how
\* threading.Condition behaves); it then proceeds either as notified or as timed out.
Notify ==
  /\ notifq > 0 /\ lock = 0
  /\ notifq' = notifq - 1
  /\ IF waiters # <<>>
       THEN /\ waiters' = Tail(waiters)
            /\ IF pc[Head(waiters)] = "wtimeout"
                 THEN \E nxt \in {"notified", "wleft"} : pc' = [pc EXCEPT ![Head(waiters)] = nxt]
                 ELSE pc' = [pc EXCEPT ![Head(waiters)] = "notified"]
       ELSE waiters' = waiters /\ pc' = pc
  /\ UNCHANGED <<kind, lock, ledger, inflight, outq, fut, gpc, gr, lost, pendset, peak>>

-----------------------------------------------------------------------------
Final(r) == pc[r] \in {"done", "rejected", "timedout", "abandoned"}
Quiescent == (\A r \in Req : Final(r)) /\ inflight = {} /\ outq = <<>> /\ gpc = "get" /\ notifq = 0 /\ pendset = {}

Next ==
  \/ \E r \in Req :
        \/ CallerLock(r) \/ CallerCheck(r) \/ CallerWaitTimeout(r) \/ CallerWaitLeave(r) \/ CallerWaitReject(r)
        \/ CallerNoTimeLeft(r)
        \/ CallerFirst(r) \/ CallerSecond(r) \/ CallerGotResult(r) \/ CallerDeadline(r) \/ CallerCancel(r)
        \/ StreamAbandon(r) \/ PipeFinish(r) \/ LoopSet(r)
  \/ GatherGet \/ GatherPop \/ GatherMiss \/ GatherCheck \/ GatherSet \/ GatherNotify \/ Notify
  \/ (Quiescent /\ UNCHANGED vars)

Spec == Init /\ [][Next]_vars

Fairness ==
  /\ \A r \in Req :
        /\ WF_vars(CallerLock(r)) /\ WF_vars(CallerCheck(r)) /\ WF_vars(CallerWaitReject(r))
        /\ WF_vars(CallerFirst(r)) /\ WF_vars(CallerSecond(r)) /\ WF_vars(CallerGotResult(r))
        /\ WF_vars(CallerCancel(r)) /\ WF_vars(PipeFinish(r)) /\ WF_vars(LoopSet(r))
        /\ WF_vars(CallerWaitTimeout(r))     \* every deadline is finite: it expires if the caller keeps waiting
        /\ WF_vars(CallerWaitLeave(r))
  /\ WF_vars(GatherGet) /\ WF_vars(GatherPop) /\ WF_vars(GatherMiss) /\ WF_vars(GatherCheck) /\ WF_vars(GatherSet)
  /\ WF_vars(GatherNotify) /\ SF_vars(Notify)
  /\ \A r \in Req : SF_vars(CallerLock(r))
FairSpec == Spec /\ Fairness

-----------------------------------------------------------------------------
TypeOK ==
  /\ kind \in [Req -> Kinds]
  /\ pc \in [Req -> {"start", "check", "waiting", "notified", "wtimeout", "wleft", "wreject", "put", "put2", "result",
                     "cancelling", "done", "rejected", "timedout", "abandoned"}]
  /\ lock \in 0..(R+1) /\ ledger \subseteq Req /\ inflight \subseteq Req
  /\ fut \in [Req -> {"none", "pending", "done", "cancelled"}]
  /\ gpc \in {"get", "pop", "check", "set", "notify", "dead"} /\ gr \in 0..R /\ notifq \in 0..(R+1)

\* C06: the backlog never exceeds the capacity
CapacityInv == Cardinality(ledger) <= Capacity
\* C06: a request rejected by backpressure leaves no trace
RejectClean == \A r \in Req : pc[r] = "rejected" => r \notin ledger /\ r \notin inflight /\ fut[r] = "none"
\* C02/C06: no response is ever dropped by the gather thread
NoLostResponse == lost = {}
\* C07: the gather thread never dies
GatherAlive == gpc # "dead"
\* C02: a caller is told "done" only when its own future was resolved, and a timed-out caller's result is discarded
OwnResult == \A r \in Req : pc[r] = "done" => fut[r] = "done"
\* C06: an idle server has backlog zero
IdleEmpty == Quiescent => ledger = {}

\* C06 (liveness): every slot that was taken is eventually given back
SlotsReturned == \A r \in Req : (r \in ledger) ~> (r \notin ledger)
\* C07 (liveness): every request that is not abandoned is eventually answered, whatever happened to the others
OthersAnswered == \A r \in Req : (pc[r] = "result" /\ kind[r] \in {"bp", "wait"}) ~> (pc[r] = "done")
\* every caller eventually returns
AllReturn == <>(\A r \in Req : Final(r))

Trap_WaiterWokenWhileFull == ~(\E r \in Req : pc[r] = "notified" /\ Cardinality(ledger) = Capacity)
Trap_CancelBetweenCheckAndSet == ~(gpc = "set" /\ fut[gr] = "cancelled")
Trap_CancelInWindowWhileWaiter == ~(gpc = "set" /\ fut[gr] = "cancelled" /\ \E q \in Req : pc[q] = "waiting")
Trap_ResultBeforeRecord == ~(\E r \in Req : pc[r] = "put2" /\ r \notin inflight /\ r \notin ledger)
Trap_TimeoutWhileWaitingForSlot == ~(\E r \in Req : pc[r] = "wtimeout")
Trap_NotificationSwallowed == ~(\E r \in Req : pc[r] = "waiting" /\ notifq = 0 /\ Cardinality(ledger) < Capacity
                                               /\ gpc = "get" /\ outq = <<>> /\ lock = 0
                                               /\ \A q \in Req : pc[q] \notin {"notified", "put", "put2", "check", "start"})
=============================================================================
