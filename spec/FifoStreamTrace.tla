-------------------------- MODULE FifoStreamTrace --------------------------
(***************************************************************************)
(* Validates executions of the REAL fifo_stream / Parmapper (recorded by   *)
(* mbt/bind/fifostream.py under detsched, exact global event order)        *)
(* against FifoStream.  Every logged event is one action of FifoStream     *)
(* with the logged fields bound; steps the harness cannot observe          *)
(* (flag test, flag set, empty() test, pool-internal dequeue) are silent   *)
(* actions that TLC interleaves.  All traces of a batch are explored in    *)
(* one run: variable `tid` selects the trace, `l` is the position in it.   *)
(***************************************************************************)
EXTENDS FifoStream, Json, IOUtils, TLCExt

TraceLog == JsonDeserialize(IOEnv.TRACE_FILE)

VARIABLES tid, l
tvars == <<vars, tid, l>>

ToSet(s) == {s[i] : i \in DOMAIN s}
ParamOf(h) == [ n |-> h.n, cap |-> h.cap, conc |-> h.conc, retexc |-> h.retexc, fail |-> ToSet(h.fail),
                prefail |-> ToSet(h.prefail), srcfail |-> h.srcfail, srcbase |-> h.srcbase,
                maybreak |-> h.maybreak, mode |-> h.mode, subfail |-> h.subfail ]

Evs == TraceLog[tid].ev
E == Evs[l]
Is(name) == l <= Len(Evs) /\ E.ev = name
Step == l' = l + 1 /\ tid' = tid
Silent == l' = l /\ tid' = tid

TraceInit ==
  \E t \in 1..Len(TraceLog) :
     /\ tid = t /\ l = 1
     /\ InitWith(ParamOf(TraceLog[t].p))
     /\ TLCSet(t, <<1, "init", "none">>)

LastOf(s) == s[Len(s)]

TNext     == Is("Next") /\ (ConsStart \/ ConsNext) /\ Step
TPull     == Is("Pull") /\ FeederPull /\ held' = E.i /\ Step
TSrcEnd   == Is("SrcEnd") /\ FeederSrcEnd /\ Step
TSrcRaise == Is("SrcRaise") /\ FeederSrcRaise /\ Step
TPreFail  == Is("PreFail") /\ held = E.i /\ FeederPreFail /\ Step
TSubmit   == Is("Submit") /\ held = E.i /\ FeederSubmit /\ Step
TSubFail  == Is("SubFail") /\ held = E.i /\ FeederSubmitRaise /\ Step
TPut      == /\ Is("Put")
             /\ \/ E.t = "item" /\ heldF # 0 /\ FeederPut /\ LastOf(q').x = E.x /\ LastOf(q').f = E.f
                \/ E.t = "end" /\ FeederPutEnd
                \/ E.t = "exc" /\ FeederPutExc
             /\ Len(q') = E.qlen
             /\ Step
TWStart   == Is("WStart") /\ WorkerStart(E.i) /\ Step
TWFinish  == Is("WFinish") /\ WorkerFinish(E.i) /\ (E.kind = "err") = (E.i \in p.fail) /\ Step
TGet      == /\ Is("Get") /\ q # <<>>
             /\ Head(q).t = E.t /\ Head(q).x = E.x /\ Head(q).f = E.f
             /\ (ConsGet \/ FinDrainOne)
             /\ Len(q') = E.qlen
             /\ Step
TAwait    == /\ Is("Await") /\ cur.f = E.f
             /\ ConsAwait
             /\ (E.kind = "ok") = (fut[E.f] = "ok")
             /\ Step
TYield    == /\ Is("Yield") /\ ConsYield
             /\ val.y = E.y /\ val.kind = E.kind /\ (E.x # 0 => val.x = E.x)
             /\ Step
TBreak    == Is("Break") /\ ConsBreak /\ Step
TCancel   == /\ Is("Cancel") /\ cons = "cancel" /\ cur.f = E.f
             /\ FinCancel
             /\ E.did = Cancellable(E.f)
             /\ Step
TClosed   == /\ Is("Closed") /\ FinJoin
             /\ raised.k = E.k /\ raised.i = E.i /\ E.fa = FALSE
             /\ Step
TExecShut == Is("ExecShut") /\ ExecShutdown /\ Step

TSilent == /\ \/ FeederCheckStop \/ ConsSetStop \/ FinDrainEmpty \/ WorkerTake
              \/ \E i \in 1..p.n : (WorkerSetRunning(i) \/ WorkerSkip(i))
           /\ Silent

\* `y = await t` of the async consumer cannot be observed from outside: silent in async traces
TSilentAsync == p.mode = "async" /\ ConsAwait /\ Silent

TraceNext ==
  \/ TNext \/ TPull \/ TSrcEnd \/ TSrcRaise \/ TPreFail \/ TSubmit \/ TSubFail \/ TPut \/ TWStart \/ TWFinish
  \/ TGet \/ TAwait \/ TYield \/ TBreak \/ TCancel \/ TClosed \/ TExecShut
  \/ TSilent \/ TSilentAsync

TraceSpec == TraceInit /\ [][TraceNext]_tvars

\* The invariants of FifoStream, evaluated on every state of every trace.  They are folded into the state constraint
\* (not INVARIANT) so that one bad trace does not stop the validation of the others in the batch.
FailedInv ==
  IF ~OutIsPrefix THEN "OutIsPrefix" ELSE IF ~CalledOnce THEN "CalledOnce" ELSE IF ~EndOK THEN "EndOK"
  ELSE IF ~NoFeederLeak THEN "NoFeederLeak" ELSE IF ~NoWorkLeak THEN "NoWorkLeak"
  ELSE IF ~LookAhead THEN "LookAhead" ELSE IF ~InFlightBound THEN "InFlightBound"
  ELSE IF ~QueueBound THEN "QueueBound" ELSE IF ~ConcBound THEN "ConcBound" ELSE "none"

\* progress of each trace (furthest position reached, where the model was then, violated invariant if any) is kept
\* in TLC register `tid`
Progress ==
  IF FailedInv # "none"
    THEN TLCSet(tid, <<TLCGet(tid)[1], TLCGet(tid)[2], FailedInv>>) /\ FALSE
    ELSE IF TLCGet(tid)[1] < l
           THEN TLCSet(tid, <<l, <<feeder, cons, Len(q), held, cur.f, stop>>, TLCGet(tid)[3]>>)
           ELSE TRUE

Report ==
  \A t \in 1..Len(TraceLog) :
     PrintT(<<"VERDICT", t, TLCGet(t)[1], Len(TraceLog[t].ev), TLCGet(t)[2], TLCGet(t)[3]>>)
=============================================================================
