--------------------------- MODULE ServerLifecycle ---------------------------
(***************************************************************************)
(* Start and stop of a server over a servlet with NWk process workers:      *)
(* mpserver/_server.py (`_enter_server`, `__exit__`, onboarding thread,      *)
(* gather thread), _servlet.py (`start` handshake, `stop` sentinel) and      *)
(* _worker.py (`run` handshake, sentinel re-broadcast / forwarding).         *)
(* Input and output queue are PIPES of bounded capacity P (units); a put     *)
(* blocks while the pipe is full.  Accepted but abandoned inputs (timed-out  *)
(* calls, dropped streams) wait in the unbounded onboarding buffer; each     *)
(* processed input produces a result of RS units that nobody waits for.      *)
(*                                                                         *)
(* Flags (FALSE = as found, TRUE = repaired design):                        *)
(*   CleanupOnFailedStart   workers already started are stopped when a      *)
(*                          later worker fails in __init__ (D10)            *)
(*   StopThroughBuffer      the stop sentinel is sent through the           *)
(*                          onboarding buffer, i.e. after the abandoned      *)
(*                          inputs (as found: directly into the pipe; the   *)
(*                          onboarding thread then blocks for ever; D11a)   *)
(*   GatherOutlivesWorkers  the gather thread keeps draining the output     *)
(*                          pipe until every worker has gone (as found: it  *)
(*                          leaves at the first sentinel; a worker still    *)
(*                          writing results blocks for ever; D11b)          *)
(*   ClearLedgerAtExit      __exit__ forgets the requests whose results     *)
(*                          were dropped at shutdown (as found: the ledger  *)
(*                          entries survive exit AND re-entry and occupy    *)
(*                          capacity for ever; D24)                         *)
(***************************************************************************)
EXTENDS Naturals, Sequences, FiniteSets, TLC

CONSTANTS NWk, P, RS, MaxAbandoned, Cycles,
          CleanupOnFailedStart, StopThroughBuffer, GatherOutlivesWorkers, ClearLedgerAtExit

VARIABLES
  cfg,      \* [failAt : 0..NWk, ab : 0..MaxAbandoned]  which worker fails in __init__ (0 = none); abandoned inputs
  cycle,    \* enter/exit cycle number
  phase,    \* "idle" | "starting" | "running" | "exiting" | "exited" | "enterfailed"
  spc,      \* starter / exiter pc
  k,        \* worker being started / joined
  w,        \* w[i] : "none" | "init" | "ready" | "take" | "res" | "rebroadcast" | "forward" | "gone" | "failed"
  wleft,    \* w result units still to write for the item in hand
  buf,      \* onboarding buffer: sequence of "item" | "end"
  pin,      \* input pipe (sequence of "item" | "end"); capacity P
  pout,     \* output pipe (sequence of "name" | "fail" | "unit" | "end"); capacity P
  ob,       \* onboarding thread: "off" | "get" | "put" | "done";  obx: item in hand
  obx,
  g,        \* gather thread: "off" | "run" | "done"
  led       \* ledger (`_uid_to_futures`): number of accepted requests whose result has not been gathered

vars == <<cfg, cycle, phase, spc, k, w, wleft, buf, pin, pout, ob, obx, g, led>>

Wk == 1..NWk
Alive == {i \in Wk : w[i] \notin {"none", "gone", "failed"}}
\* only payload occupies the pipe; sentinels and handshake items are a few bytes
Load(q, what) == Cardinality({j \in DOMAIN q : q[j] \in what})
InFull == Load(pin, {"item"}) >= P
OutFull == Load(pout, {"unit", "last"}) >= P

Init ==
  /\ cfg \in [failAt : 0..NWk, ab : 0..MaxAbandoned]
  /\ cycle = 1 /\ phase = "idle" /\ spc = "enter" /\ k = 0
  /\ w = [i \in Wk |-> "none"] /\ wleft = [i \in Wk |-> 0]
  /\ buf = <<>> /\ pin = <<>> /\ pout = <<>> /\ ob = "off" /\ obx = "none" /\ g = "off" /\ led = 0

-----------------------------------------------------------------------------
(* START: `servlet.start` launches the workers one by one and waits for each handshake                   *)
Enter ==
  /\ phase = "idle" /\ spc = "enter"
  /\ phase' = "starting" /\ spc' = "spawn" /\ k' = 1
  /\ UNCHANGED <<cfg, cycle, w, wleft, buf, pin, pout, ob, obx, g, led>>

Spawn ==
  /\ phase = "starting" /\ spc = "spawn" /\ k <= NWk
  /\ w' = [w EXCEPT ![k] = "init"] /\ spc' = "await"
  /\ UNCHANGED <<cfg, cycle, phase, k, wleft, buf, pin, pout, ob, obx, g, led>>

\* Worker.run: __init__ succeeds (puts its name) or fails (puts None and dies); only the first cycle may fail
WInit(i) ==
  /\ w[i] = "init"
  /\ IF cfg.failAt = i /\ cycle = 1
       THEN w' = [w EXCEPT ![i] = "failed"] /\ pout' = Append(pout, "fail")
       ELSE w' = [w EXCEPT ![i] = "take"] /\ pout' = Append(pout, "name")
  /\ UNCHANGED <<cfg, cycle, phase, spc, k, wleft, buf, pin, ob, obx, g, led>>

\* `name = q_out.get()`
Await ==
  /\ phase = "starting" /\ spc = "await" /\ pout # <<>>
  /\ pout' = Tail(pout)
  /\ IF Head(pout) = "name"
       THEN IF k < NWk THEN k' = k + 1 /\ spc' = "spawn" ELSE k' = k /\ spc' = "helpers"
       ELSE k' = k /\ spc' = IF CleanupOnFailedStart /\ Alive # {} THEN "cleanup" ELSE "raise"
  /\ UNCHANGED <<cfg, cycle, phase, w, wleft, buf, pin, ob, obx, g, led>>

\* repaired: `q_in.put(None)`, join the started workers, then raise
Cleanup ==
  /\ phase = "starting" /\ spc = "cleanup"
  /\ pin' = Append(pin, "end") /\ spc' = "cleanjoin"
  /\ UNCHANGED <<cfg, cycle, phase, k, w, wleft, buf, pout, ob, obx, g, led>>
CleanJoin ==
  /\ phase = "starting" /\ spc = "cleanjoin" /\ Alive = {}
  /\ spc' = "raise"
  /\ UNCHANGED <<cfg, cycle, phase, k, w, wleft, buf, pin, pout, ob, obx, g, led>>
EnterRaise ==
  /\ phase = "starting" /\ spc = "raise"
  /\ phase' = "enterfailed"
  /\ UNCHANGED <<cfg, cycle, spc, k, w, wleft, buf, pin, pout, ob, obx, g, led>>

\* all workers ready: onboarding thread and gather thread start; the workload runs and leaves `ab` abandoned inputs
\* in the onboarding buffer
Helpers ==
  /\ phase = "starting" /\ spc = "helpers"
  /\ phase' = "running" /\ ob' = "get" /\ g' = "run" /\ spc' = "exit"
  /\ buf' = [j \in 1..cfg.ab |-> "item"]
  /\ led' = led + cfg.ab          \* the abandoned requests keep their ledger entries until their results come back
  /\ UNCHANGED <<cfg, cycle, k, w, wleft, pin, pout, obx>>

-----------------------------------------------------------------------------
(* ONBOARDING THREAD: buffer -> input pipe                                                                *)
ObGet ==
  /\ ob = "get" /\ buf # <<>>
  /\ obx' = Head(buf) /\ buf' = Tail(buf) /\ ob' = "put"
  /\ UNCHANGED <<cfg, cycle, phase, spc, k, w, wleft, pin, pout, g, led>>
ObPut ==
  /\ ob = "put" /\ (obx = "end" \/ ~InFull)
  /\ pin' = Append(pin, obx) /\ ob' = (IF obx = "end" THEN "done" ELSE "get") /\ obx' = "none"
  /\ UNCHANGED <<cfg, cycle, phase, spc, k, w, wleft, buf, pout, g, led>>

(* WORKERS                                                                                                *)
WTake(i) ==
  /\ w[i] = "take" /\ pin # <<>>
  /\ pin' = Tail(pin)
  /\ IF Head(pin) = "end" THEN w' = [w EXCEPT ![i] = "rebroadcast"] /\ wleft' = wleft
                          ELSE w' = [w EXCEPT ![i] = "res"] /\ wleft' = [wleft EXCEPT ![i] = RS]
  /\ UNCHANGED <<cfg, cycle, phase, spc, k, buf, pout, ob, obx, g, led>>
\* the result (RS units) goes into the output pipe
WRes(i) ==
  /\ w[i] = "res" /\ ~OutFull
  /\ pout' = Append(pout, IF wleft[i] = 1 THEN "last" ELSE "unit")
  /\ wleft' = [wleft EXCEPT ![i] = @ - 1]
  /\ w' = [w EXCEPT ![i] = IF wleft[i] = 1 THEN "take" ELSE "res"]
  /\ UNCHANGED <<cfg, cycle, phase, spc, k, buf, pin, ob, obx, g, led>>
\* sentinel: `q_in.put(None)` for a fellow worker, `q_out.put(None)`, exit
WRebroadcast(i) ==
  /\ w[i] = "rebroadcast"
  /\ pin' = Append(pin, "end") /\ w' = [w EXCEPT ![i] = "forward"]
  /\ UNCHANGED <<cfg, cycle, phase, spc, k, wleft, buf, pout, ob, obx, g, led>>
WForward(i) ==
  /\ w[i] = "forward"
  /\ pout' = Append(pout, "end") /\ w' = [w EXCEPT ![i] = "gone"]
  /\ UNCHANGED <<cfg, cycle, phase, spc, k, wleft, buf, pin, ob, obx, g, led>>

(* GATHER THREAD                                                                                          *)
Gather ==
  /\ g = "run" /\ pout # <<>> /\ phase \in {"running", "exiting"}
  /\ pout' = Tail(pout)
  /\ g' = IF Head(pout) = "end" /\ (~GatherOutlivesWorkers \/ Alive = {}) THEN "done" ELSE "run"
  /\ led' = IF Head(pout) = "last" THEN led - 1 ELSE led     \* a complete result: `_uid_to_futures.pop(uid)`
  /\ UNCHANGED <<cfg, cycle, phase, spc, k, w, wleft, buf, pin, ob, obx>>
\* repaired: with every worker gone and the pipe drained the gather thread is told to leave
GatherRelease ==
  /\ GatherOutlivesWorkers /\ g = "run" /\ pout = <<>> /\ Alive = {} /\ phase = "exiting" /\ spc = "joing"
  /\ g' = "done"
  /\ UNCHANGED <<cfg, cycle, phase, spc, k, w, wleft, buf, pin, pout, ob, obx, led>>

-----------------------------------------------------------------------------
(* EXIT: `__exit__`                                                                                       *)
Exit ==
  /\ phase = "running" /\ spc = "exit"
  /\ phase' = "exiting" /\ spc' = IF StopThroughBuffer THEN "bufend" ELSE "pinend"
  /\ UNCHANGED <<cfg, cycle, k, w, wleft, buf, pin, pout, ob, obx, g, led>>
\* `self._input_buffer.put(None)` (never blocks)
BufEnd ==
  /\ phase = "exiting" /\ spc = "bufend"
  /\ buf' = Append(buf, "end") /\ spc' = "joinob"
  /\ UNCHANGED <<cfg, cycle, phase, k, w, wleft, pin, pout, ob, obx, g, led>>
JoinOb ==
  /\ phase = "exiting" /\ spc = "joinob" /\ ob = "done"
  /\ spc' = IF StopThroughBuffer THEN "pinend" ELSE "finish"
  /\ UNCHANGED <<cfg, cycle, phase, k, w, wleft, buf, pin, pout, ob, obx, g, led>>
\* `servlet.stop()`: `self._q_in.put(None)` then join the workers
PinEnd ==
  /\ phase = "exiting" /\ spc = "pinend"
  /\ pin' = Append(pin, "end") /\ spc' = "joinw"
  /\ UNCHANGED <<cfg, cycle, phase, k, w, wleft, buf, pout, ob, obx, g, led>>
JoinW ==
  /\ phase = "exiting" /\ spc = "joinw" /\ Alive = {}
  /\ spc' = "joing"
  /\ UNCHANGED <<cfg, cycle, phase, k, w, wleft, buf, pin, pout, ob, obx, g, led>>
JoinG ==
  /\ phase = "exiting" /\ spc = "joing" /\ g = "done"
  /\ spc' = IF StopThroughBuffer THEN "finish" ELSE "bufend"
  /\ UNCHANGED <<cfg, cycle, phase, k, w, wleft, buf, pin, pout, ob, obx, g, led>>
Finish ==
  /\ phase = "exiting" /\ spc = "finish"
  /\ phase' = "exited"
  /\ led' = IF ClearLedgerAtExit THEN 0 ELSE led
  /\ UNCHANGED <<cfg, cycle, spc, k, w, wleft, buf, pin, pout, ob, obx, g>>
\* the same server object is entered again: fresh queues
Reenter ==
  /\ phase = "exited" /\ cycle < Cycles
  /\ cycle' = cycle + 1 /\ phase' = "idle" /\ spc' = "enter" /\ k' = 0
  /\ w' = [i \in Wk |-> "none"] /\ wleft' = [i \in Wk |-> 0]
  /\ buf' = <<>> /\ pin' = <<>> /\ pout' = <<>> /\ ob' = "off" /\ obx' = "none" /\ g' = "off"
  /\ UNCHANGED <<cfg, led>>       \* the ledger belongs to the server object: it survives re-entry

Terminal == (phase = "exited" /\ cycle = Cycles) \/ phase = "enterfailed"
Next ==
  \/ Enter \/ Spawn \/ Await \/ Cleanup \/ CleanJoin \/ EnterRaise \/ Helpers
  \/ ObGet \/ ObPut \/ Gather \/ GatherRelease
  \/ \E i \in Wk : WInit(i) \/ WTake(i) \/ WRes(i) \/ WRebroadcast(i) \/ WForward(i)
  \/ Exit \/ BufEnd \/ JoinOb \/ PinEnd \/ JoinW \/ JoinG \/ Finish \/ Reenter
  \/ (Terminal /\ UNCHANGED vars)
Spec == Init /\ [][Next]_vars
FairSpec == Spec /\ WF_vars(Next)

-----------------------------------------------------------------------------
\* C11: entering is all-or-nothing
AllOrNothing ==
  /\ phase = "enterfailed" => Alive = {} /\ ob = "off" /\ g = "off"
  /\ phase = "running" => Alive = Wk
\* C11: after leaving, nothing is left
ExitComplete == phase = "exited" => Alive = {} /\ ob = "done" /\ g = "done"
\* C11: leaving (and a failed enter) always completes: TLC's deadlock check + this liveness property under fairness
Completes == <>Terminal
PipeBounds == Load(pin, {"item"}) <= P /\ Load(pout, {"unit", "last"}) <= P

\* C11 / C06: an exited server has given every slot back; what is left would occupy capacity after re-entry for ever
LedgerEmptyAfterExit == phase = "exited" => led = 0
LedgerSane == led >= 0 /\ led <= Cycles * MaxAbandoned

Trap_ResultDroppedAtExit == ~(phase = "exiting" /\ spc = "finish" /\ led > 0)
Trap_OnboardBlockedAfterWorkersGone == ~(ob = "put" /\ InFull /\ Alive = {} /\ phase = "exiting")
Trap_WorkerBlockedAfterGatherGone == ~(\E i \in Wk : w[i] = "res" /\ OutFull /\ g = "done")
Trap_SecondCycle == ~(cycle = 2 /\ phase = "running")
=============================================================================
