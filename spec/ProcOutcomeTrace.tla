------------------------- MODULE ProcOutcomeTrace -------------------------
(* Validates what was observed on REAL mpservice Process / Thread objects (mbt/bind/procoutcome.py) against          *)
(* ProcOutcome.  Logged (all in the parent, in program order): the phase at which the child reported itself parked, *)
(* the signal then sent, and every accessor call with what it returned or raised.  Everything the child, the OS and  *)
(* the collector thread do is silent.  A parked child takes no step until the signal has been sent.                 *)
EXTENDS ProcOutcome, Json, IOUtils, TLCExt

TraceLog == JsonDeserialize(IOEnv.TRACE_FILE)
VARIABLES tid, l, parked
tvars == <<vars, tid, l, parked>>

ParamOf(h) == [flavour |-> h.flavour, kind |-> h.kind, val |-> h.val]
Evs == TraceLog[tid].ev
E == Evs[l]
Is(name) == l <= Len(Evs) /\ E.ev = name
Adv == l' = l + 1 /\ tid' = tid
Silent == l' = l /\ tid' = tid

TraceInit ==
  \E t \in 1..Len(TraceLog) :
     /\ tid = t /\ l = 1 /\ parked = FALSE
     /\ InitWith(ParamOf(TraceLog[t].p))
     /\ TLCSet(t, <<1, "init", "none">>)

LabelOf(ph) == CASE ph = "boot" -> "Boot" [] ph = "run" -> "RunTarget" [] ph = "between" -> "SendError"
                 [] ph = "final" -> "Exit" [] OTHER -> "?"

TPhase == /\ Is("Phase") /\ cpc = LabelOf(E.ph) /\ Running /\ ~parked
          /\ parked' = TRUE /\ UNCHANGED vars /\ Adv
TKill  == /\ Is("Kill") /\ Kill(E.sig)
          /\ parked' = FALSE /\ Adv
TAcc   == /\ Is("Acc") /\ E.acc \in Accs
          /\ AccOut(E.acc) = [k |-> E.k, x |-> E.x]
          /\ Access(E.acc)
          /\ parked' = parked /\ Adv
TSilent == /\ \/ ~parked /\ ChildStep
              \/ CollStep
              \/ Deliver
              \/ MainReap
           /\ parked' = parked /\ Silent

TraceNext == TPhase \/ TKill \/ TAcc \/ TSilent
TraceSpec == TraceInit /\ [][TraceNext]_tvars

FailedInv ==
  IF ~TypeOK THEN "TypeOK" ELSE IF ~Agreement THEN "Agreement" ELSE IF ~ExitCodeRight THEN "ExitCodeRight"
  ELSE IF ~FutureRight THEN "FutureRight" ELSE "none"

Progress ==
  IF FailedInv # "none"
    THEN TLCSet(tid, <<TLCGet(tid)[1], TLCGet(tid)[2], FailedInv>>) /\ FALSE
    ELSE IF TLCGet(tid)[1] < l
           THEN TLCSet(tid, <<l, <<cpc, ek, sent, code, reap, kpc, fut, sigp>>, TLCGet(tid)[3]>>)
           ELSE TRUE

Report ==
  \A t \in 1..Len(TraceLog) :
     PrintT(<<"VERDICT", t, TLCGet(t)[1], Len(TraceLog[t].ev), TLCGet(t)[2], TLCGet(t)[3]>>)
=============================================================================
