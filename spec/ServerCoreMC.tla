---------------------------- MODULE ServerCoreMC ----------------------------
EXTENDS ServerCore
AllMixes == [1..R -> Kinds]
\* every mix that contains at least one request that may wait for a slot
NoBpOnly == {m \in [1..R -> Kinds] : \E r \in 1..R : m[r] # "bp"}
NoStream == [1..R -> {"bp", "wait", "short"}]
Mix3 == { <<"wait", "short", "stream">>, <<"short", "short", "wait">>, <<"wait", "wait", "wait">>, <<"bp", "wait", "short">>,
          <<"stream", "stream", "short">>, <<"wait", "wait", "short">> }
Mix4 == { <<"wait", "wait", "short", "stream">>, <<"wait", "short", "short", "bp">>, <<"stream", "stream", "wait", "short">>,
          <<"wait", "wait", "wait", "wait">>, <<"short", "short", "short", "wait">>, <<"bp", "wait", "stream", "short">> }
=============================================================================
