---------------------------- MODULE ManagedRegTrace ----------------------------
(* Validates what the CLIENTS of a real server process observe (mbt/bind/managedreg.py): every call of a hosted     *)
(* method that returns managed(obj) - logged when it starts and when it has returned (a live proxy whose referent    *)
(* has the value of THIS call) or raised.  The server's steps (Lookup, Register, Create, Pop) are silent: TLC        *)
(* searches for an interleaving of them that explains the outcomes.                                                 *)
EXTENDS ManagedReg, Sequences, Json, IOUtils, TLCExt

TraceLog == JsonDeserialize(IOEnv.TRACE_FILE)
VARIABLES tid, l
tvars == <<vars, tid, l>>
Evs == TraceLog[tid].ev
E == Evs[l]
Is(name) == l <= Len(Evs) /\ E.ev = name
Adv == l' = l + 1 /\ tid' = tid
Silent == l' = l /\ tid' = tid

TraceInit == \E t \in 1..Len(TraceLog) : tid = t /\ l = 1 /\ Init /\ TLCSet(t, <<1, "init", "none">>)

TCall == Is("Call") /\ Start(E.t, E.c, E.v) /\ Adv
TRet  == /\ Is("Ret") /\ Ret(E.t)
         /\ E.ok = (out[E.t] = "proxy")
         /\ E.ok => E.got = val[E.t]          \* the proxy refers to the object of this call
         /\ Adv
TSilent == (\E t \in Threads : Lookup(t) \/ Register(t) \/ Create(t) \/ Pop(t)) /\ Silent
TraceNext == TCall \/ TRet \/ TSilent
TraceSpec == TraceInit /\ [][TraceNext]_tvars

FailedInv == IF ~NoKeyError THEN "NoKeyError" ELSE IF ~EntriesBounded THEN "EntriesBounded" ELSE "none"
Progress ==
  IF FailedInv # "none"
    THEN TLCSet(tid, <<TLCGet(tid)[1], TLCGet(tid)[2], FailedInv>>) /\ FALSE
    ELSE IF TLCGet(tid)[1] < l THEN TLCSet(tid, <<l, <<pc, reg, out>>, TLCGet(tid)[3]>>) ELSE TRUE
Report == \A t \in 1..Len(TraceLog) :
            PrintT(<<"VERDICT", t, TLCGet(t)[1], Len(TraceLog[t].ev), TLCGet(t)[2], TLCGet(t)[3]>>)
=============================================================================
