------------------------------ MODULE SingleLane ------------------------------
(* mpservice/_queues.py: SingleLane - the bounded hand-off queue underneath fifo_stream, Buffer / AsyncBuffer and   *)
(* the batching worker (C01 C05 C08 C09 rest on it; their specifications treat it as an ATOMIC bounded FIFO: `Put`  *)
(* enabled iff Len(q) < Cap, `Get` iff q # <<>>).  This module is the fine-grained model that justifies that        *)
(* abstraction: one mutex, two condition variables on it, `if` (not `while`) around each wait - which is sound for  *)
(* ONE writer and ONE reader only -, notify after every change.                                                     *)
(*                                                                                                                  *)
(* One action per step of threading.Condition as CPython implements it (the pure-Python class):                     *)
(*   wait(): append own waiter to the list; release the mutex; block on the waiter (until notified or timed out);   *)
(*           RE-ACQUIRE THE MUTEX; only then, if not notified, remove the waiter from the list.                     *)
(*   notify(): pop the first waiter of the list and release it.                                                     *)
(* Hence a waiter whose wait has timed out is still on the list until it gets the mutex back and can swallow a      *)
(* notification (Cleanup takes it out of `sig`).                                                                    *)
(*                                                                                                                  *)
(* Every thread performs the attempts listed in p.ops[t] (modes "block" | "timed" | "nowait"); a writer moves on to *)
(* its next item after a successful put.                                                                            *)
EXTENDS Naturals, Sequences, FiniteSets, TLC

CONSTANTS NW, NR,        \* writer / reader threads (the class is documented for 1 / 1)
          MaxOps,        \* attempts per thread in the grid of Init
          MaxCap,        \* capacities 0 (= unlimited) .. MaxCap
          NotifyAlways   \* TRUE: the code (get and put notify unconditionally, under the mutex)
                         \* FALSE: get notifies only if a LOCK-FREE look before taking the mutex saw a full queue

Writers == 1..NW
Readers == (NW + 1)..(NW + NR)
Threads == Writers \cup Readers
IsW(t) == t \in Writers
Modes == {"block", "timed", "nowait"}

VARIABLES p,        \* scenario: [cap |-> 0..MaxCap, ops |-> [Threads -> Seq(Modes)], mayclose |-> BOOLEAN]
          q,        \* the deque: sequence of items <<writer, k>>
          mutex,    \* 0 or the holder
          waitNF, waitNE,   \* waiter lists of the two conditions (sequences of threads)
          sig,      \* threads whose waiter lock has been released by a notify
          pc, k,    \* per thread: control point, index of the current attempt
          gotit,    \* per thread: result of the last wait
          nxt,      \* per writer: number of the next item
          snap,     \* per thread: what the lock-free look at entry saw (only used when ~NotifyAlways)
          res,      \* per thread: sequence of results [ok |-> BOOLEAN, item |-> the item put / got, <<0, 0>> for a failure]
          appended, popped,  \* history: everything ever appended / popped, in order
          closed    \* close() has been called (by the owner of the queue, any time)

vars == <<p, q, mutex, waitNF, waitNE, sig, pc, k, gotit, nxt, snap, res, appended, popped, closed>>

Full == p.cap > 0 /\ Len(q) >= p.cap
Empty == q = <<>>
Mode(t) == p.ops[t][k[t]]
Remove(s, t) == SelectSeq(s, LAMBDA x : x # t)
Failed == [ok |-> FALSE, item |-> <<0, 0>>]
Refused == [ok |-> FALSE, item |-> <<0, 1>>]     \* ValueError of a closed queue
InSeq(s, t) == \E i \in 1..Len(s) : s[i] = t

SeqsUpTo(n) == UNION {[1..m -> Modes] : m \in 1..n}

InitWith(par) ==
  /\ p = par
  /\ q = <<>> /\ mutex = 0 /\ waitNF = <<>> /\ waitNE = <<>> /\ sig = {}
  /\ pc = [t \in Threads |-> "idle"] /\ k = [t \in Threads |-> 1]
  /\ gotit = [t \in Threads |-> FALSE] /\ nxt = [t \in Writers |-> 1]
  /\ snap = [t \in Threads |-> FALSE]
  /\ res = [t \in Threads |-> <<>>]
  /\ appended = <<>> /\ popped = <<>> /\ closed = FALSE

\* the documented restriction, for the sensitivity run: two writers, one reader, capacity 1
InitTwoWriters == InitWith([cap |-> 1, ops |-> [t \in Threads |-> <<"block", "block">>], mayclose |-> FALSE])

Init == \E cap \in 0..MaxCap, ops \in [Threads -> SeqsUpTo(MaxOps)], mc \in BOOLEAN :
          InitWith([cap |-> cap, ops |-> ops, mayclose |-> mc])

\* ---- one call of put / get -------------------------------------------------------------------------------------
Start(t) ==          \* the call is made (nothing of the queue has been looked at yet)
  /\ pc[t] = "idle" /\ k[t] <= Len(p.ops[t])
  /\ pc' = [pc EXCEPT ![t] = "begin"]
  /\ UNCHANGED <<p, q, mutex, waitNF, waitNE, sig, k, gotit, nxt, snap, res, appended, popped, closed>>

Begin(t) ==          \* `if self._closed: raise ValueError` (a lock-free read), nothing shared is written
  /\ pc[t] = "begin"
  /\ IF closed
       THEN /\ pc' = [pc EXCEPT ![t] = "ret"]                       \* ValueError: the queue is not touched
            /\ res' = [res EXCEPT ![t] = Append(@, Refused)]
       ELSE /\ pc' = [pc EXCEPT ![t] = "lock"] /\ UNCHANGED res
  /\ snap' = [snap EXCEPT ![t] = IF IsW(t) THEN Empty ELSE Full]
  /\ UNCHANGED <<p, q, mutex, waitNF, waitNE, sig, k, gotit, nxt, appended, popped, closed>>

\* close(): sets the flag, nothing else - calls under way go on, and a thread blocked in wait() is NOT woken
Close ==
  /\ ~closed /\ p.mayclose
  /\ closed' = TRUE
  /\ UNCHANGED <<p, q, mutex, waitNF, waitNE, sig, pc, k, gotit, nxt, snap, res, appended, popped>>

Lock(t) ==           \* `with self._not_full:` / `with self._not_empty:`
  /\ pc[t] = "lock" /\ mutex = 0
  /\ mutex' = t /\ pc' = [pc EXCEPT ![t] = "test"]
  /\ UNCHANGED <<p, q, waitNF, waitNE, sig, k, gotit, nxt, snap, res, appended, popped, closed>>

Test(t) ==           \* `if 0 < maxsize <= len(q):` / `if len(q) == 0:`
  /\ pc[t] = "test"
  /\ LET blocked == IF IsW(t) THEN Full ELSE Empty IN
       IF ~blocked
         THEN pc' = [pc EXCEPT ![t] = "mod"] /\ UNCHANGED <<waitNF, waitNE, res>>
         ELSE IF Mode(t) = "nowait"
                THEN /\ pc' = [pc EXCEPT ![t] = "unlock"]          \* raise Full / Empty: the `with` releases the mutex
                     /\ res' = [res EXCEPT ![t] = Append(@, Failed)]
                     /\ UNCHANGED <<waitNF, waitNE>>
                ELSE /\ pc' = [pc EXCEPT ![t] = "wait"]            \* Condition.wait: waiter appended to the list
                     /\ IF IsW(t) THEN waitNF' = Append(waitNF, t) /\ UNCHANGED waitNE
                                  ELSE waitNE' = Append(waitNE, t) /\ UNCHANGED waitNF
                     /\ UNCHANGED res
  /\ UNCHANGED <<p, q, mutex, sig, k, gotit, nxt, snap, appended, popped, closed>>

WaitRelease(t) ==    \* wait(): _release_save
  /\ pc[t] = "wait"
  /\ mutex' = 0 /\ pc' = [pc EXCEPT ![t] = "waiting"]
  /\ UNCHANGED <<p, q, waitNF, waitNE, sig, k, gotit, nxt, snap, res, appended, popped, closed>>

Woken(t) ==          \* waiter.acquire() succeeded
  /\ pc[t] = "waiting" /\ t \in sig
  /\ sig' = sig \ {t} /\ gotit' = [gotit EXCEPT ![t] = TRUE] /\ pc' = [pc EXCEPT ![t] = "reacq"]
  /\ UNCHANGED <<p, q, mutex, waitNF, waitNE, k, nxt, snap, res, appended, popped, closed>>

Timeout(t) ==        \* waiter.acquire(True, timeout) gave up
  /\ pc[t] = "waiting" /\ t \notin sig /\ Mode(t) = "timed"
  /\ gotit' = [gotit EXCEPT ![t] = FALSE] /\ pc' = [pc EXCEPT ![t] = "reacq"]
  /\ UNCHANGED <<p, q, mutex, waitNF, waitNE, sig, k, nxt, snap, res, appended, popped, closed>>

Reacq(t) ==          \* wait(): _acquire_restore
  /\ pc[t] = "reacq" /\ mutex = 0
  /\ mutex' = t /\ pc' = [pc EXCEPT ![t] = "cleanup"]
  /\ UNCHANGED <<p, q, waitNF, waitNE, sig, k, gotit, nxt, snap, res, appended, popped, closed>>

Cleanup(t) ==        \* wait() returns gotit; `if not wait(): raise Full/Empty` - NO re-test of the queue after a wake-up
  /\ pc[t] = "cleanup"
  /\ IF gotit[t]
       THEN pc' = [pc EXCEPT ![t] = "mod"] /\ UNCHANGED <<waitNF, waitNE, sig, res>>
       ELSE /\ waitNF' = Remove(waitNF, t) /\ waitNE' = Remove(waitNE, t)
            /\ sig' = sig \ {t}                                     \* a notification that came after the time-out is swallowed
            /\ res' = [res EXCEPT ![t] = Append(@, Failed)]
            /\ pc' = [pc EXCEPT ![t] = "unlock"]
  /\ UNCHANGED <<p, q, mutex, k, gotit, nxt, snap, appended, popped, closed>>

Mod(t) ==            \* `self._queue.append(item)` / `z = self._queue.popleft()`
  /\ pc[t] = "mod"
  /\ IF IsW(t)
       THEN /\ q' = Append(q, <<t, nxt[t]>>) /\ appended' = Append(appended, <<t, nxt[t]>>)
            /\ nxt' = [nxt EXCEPT ![t] = @ + 1] /\ res' = [res EXCEPT ![t] = Append(@, [ok |-> TRUE, item |-> <<t, nxt[t]>>])]
            /\ UNCHANGED popped
       ELSE /\ q # <<>>                                               \* popleft of an empty deque raises IndexError: never (NoUnderflow)
            /\ q' = Tail(q) /\ popped' = Append(popped, Head(q))
            /\ res' = [res EXCEPT ![t] = Append(@, [ok |-> TRUE, item |-> Head(q)])]
            /\ UNCHANGED <<appended, nxt>>
  /\ pc' = [pc EXCEPT ![t] = "notify"]
  /\ UNCHANGED <<p, mutex, waitNF, waitNE, sig, k, gotit, snap, closed>>

Notify(t) ==         \* `self._not_empty.notify()` / `self._not_full.notify()`
  /\ pc[t] = "notify"
  /\ IF NotifyAlways \/ snap[t]
       THEN IF IsW(t)
              THEN /\ IF waitNE # <<>> THEN waitNE' = Tail(waitNE) /\ sig' = sig \cup {Head(waitNE)}
                                       ELSE UNCHANGED <<waitNE, sig>>
                   /\ UNCHANGED waitNF
              ELSE /\ IF waitNF # <<>> THEN waitNF' = Tail(waitNF) /\ sig' = sig \cup {Head(waitNF)}
                                       ELSE UNCHANGED <<waitNF, sig>>
                   /\ UNCHANGED waitNE
       ELSE UNCHANGED <<waitNF, waitNE, sig>>
  /\ pc' = [pc EXCEPT ![t] = "unlock"]
  /\ UNCHANGED <<p, q, mutex, k, gotit, nxt, snap, res, appended, popped, closed>>

Unlock(t) ==         \* leaving the `with`
  /\ pc[t] = "unlock"
  /\ mutex' = 0 /\ pc' = [pc EXCEPT ![t] = "ret"]
  /\ UNCHANGED <<p, q, waitNF, waitNE, sig, k, gotit, nxt, snap, res, appended, popped, closed>>

Ret(t) ==            \* the call returns / raises to its caller
  /\ pc[t] = "ret"
  /\ k' = [k EXCEPT ![t] = @ + 1]
  /\ pc' = [pc EXCEPT ![t] = IF k[t] + 1 > Len(p.ops[t]) THEN "done" ELSE "idle"]
  /\ UNCHANGED <<p, q, mutex, waitNF, waitNE, sig, gotit, nxt, snap, res, appended, popped, closed>>

Step(t) == Start(t) \/ Begin(t) \/ Lock(t) \/ Test(t) \/ WaitRelease(t) \/ Woken(t) \/ Timeout(t) \/ Reacq(t) \/ Cleanup(t)
           \/ Mod(t) \/ Notify(t) \/ Unlock(t) \/ Ret(t)
Idle == (\A t \in Threads : ~ENABLED Step(t)) /\ ~ENABLED Close /\ UNCHANGED vars
Next == (\E t \in Threads : Step(t)) \/ Close \/ Idle
Spec == Init /\ [][Next]_vars
FairSpec == Spec /\ \A t \in Threads : WF_vars(Step(t))

\* ---- properties ------------------------------------------------------------------------------------------------
PCs == {"idle", "begin", "lock", "test", "wait", "waiting", "reacq", "cleanup", "mod", "notify", "unlock", "ret", "done"}
TypeOK == /\ mutex \in {0} \cup Threads /\ sig \subseteq Threads /\ \A t \in Threads : pc[t] \in PCs
          /\ Len(waitNF) <= NW /\ Len(waitNE) <= NR

Bound == p.cap > 0 => Len(q) <= p.cap                     \* never more than maxsize elements
Fifo == popped \o q = appended                            \* what is taken out is what was put in, in that order, nothing lost or repeated
NoUnderflow == \A t \in Readers : pc[t] = "mod" => q # <<>>
MutexSane == \A t \in Threads : (mutex = t) <=> pc[t] \in {"test", "wait", "cleanup", "mod", "notify", "unlock"}
NoGhostWaiter ==                                          \* the waiter lists hold only threads that are inside wait()
  /\ \A i \in 1..Len(waitNF) : pc[waitNF[i]] \in {"wait", "waiting", "reacq", "cleanup"}
  /\ \A i \in 1..Len(waitNE) : pc[waitNE[i]] \in {"wait", "waiting", "reacq", "cleanup"}
\* no lost wake-up: with nobody inside the critical section, a thread blocked in wait() has its reason
WaitsOnlyWhenFull  == \A t \in Writers : (mutex = 0 /\ pc[t] = "waiting" /\ t \notin sig) => Full
WaitsOnlyWhenEmpty == \A t \in Readers : (mutex = 0 /\ pc[t] = "waiting" /\ t \notin sig) => Empty

\* a call that starts after close() is refused and leaves the queue alone (calls under way complete)
ClosedRefuses == [][\A t \in Threads : (closed /\ pc[t] = "begin" /\ pc'[t] # "begin") => (pc'[t] = "ret" /\ q' = q)]_vars

\* refinement of the atomic bounded FIFO the stream / server specifications use: the queue changes only by an append
\* while there is room or by removing the head
AtomicQ == [][ \/ (Len(q') = Len(q) + 1 /\ SubSeq(q', 1, Len(q)) = q /\ (p.cap = 0 \/ Len(q) < p.cap))
               \/ (q # <<>> /\ q' = Tail(q)) ]_q

\* under fair scheduling nobody stays blocked while the queue lets him go on, and every finite program ends when
\* the other side does its part (checked for all-blocking programs of equal length)
AllBlocking == \A t \in Threads : \A i \in 1..Len(p.ops[t]) : p.ops[t][i] = "block"
Balanced == \A w \in Writers, r \in Readers : Len(p.ops[w]) * NW = Len(p.ops[r]) * NR
AllDone == (AllBlocking /\ Balanced /\ ~p.mayclose) => <>(\A t \in Threads : pc[t] = "done")
WriterProgress == \A t \in Writers : (pc[t] = "waiting" /\ ~Full) ~> (pc[t] # "waiting")
ReaderProgress == \A t \in Readers : (pc[t] = "waiting" /\ ~Empty) ~> (pc[t] # "waiting")

\* reachability goals (vacuity guards; each must be reachable)
Trap_SwallowedNotify == ~(\E t \in Threads : pc[t] = "reacq" /\ ~gotit[t] /\ t \in sig)
Trap_FailWithRoom == ~(\E t \in Writers : pc[t] = "ret" /\ Len(res[t]) > 0 /\ ~res[t][Len(res[t])].ok /\ ~Full
                                          /\ p.ops[t][k[t]] = "timed")
Trap_RefusedWhilePeerBlocked == ~(closed /\ \E s, t \in Threads : pc[s] = "waiting" /\ s \notin sig /\ pc[t] = "done" /\ Len(res[t]) > 0 /\ res[t][Len(res[t])] = Refused)
Trap_WriterWoken == ~(\E t \in Writers : pc[t] = "cleanup" /\ gotit[t])
Trap_ReaderWoken == ~(\E t \in Readers : pc[t] = "cleanup" /\ gotit[t])
=============================================================================
