------------------------------ MODULE RenewTokens ------------------------------
(* queue.py: IterableQueue.renew() over MULTIPROCESSING helper queues.  A multiprocessing queue counts a `put` at    *)
(* once (its bounded semaphore: that is what `full()` reads) but DELIVERS the item through a background thread and a *)
(* pipe, some time later (that is what `empty()` and `get()` see).  IterableQueue.tla treats the helper queues as     *)
(* atomic; this module models the delivery step for the tokens ("lids") that renew() recycles from `_used_lids` to   *)
(* `_spare_lids`, the place where the difference matters (D25, and the seeded change C17-renew-drains-used-lids-     *)
(* until-empty):                                                                                                    *)
(*   MoveLid       a consumer moves a lid: `_used_lids.put(z)`           (counted at once)                          *)
(*   DeliverUsed   the feeder thread writes one token into the pipe      (visible to get / empty)                   *)
(*   RenewStart    `if not self._used_lids.full(): raise` - passes as soon as M lids are COUNTED                    *)
(*   RenewGet      `z = self._used_lids.get(); self._spare_lids.put(z)`  (blocks until a token has ARRIVED)         *)
(*   RenewEnd      the loop ends: CountTokens = TRUE (the code): after num_suppliers tokens;                        *)
(*                 FALSE: "while not self._used_lids.empty()" - ends when nothing has arrived (yet)                 *)
EXTENDS Naturals, TLC

CONSTANTS M,            \* num_suppliers = number of tokens
          Rounds,
          CountTokens

VARIABLES usedCnt,      \* tokens counted by _used_lids' semaphore (puts that have returned, minus gets)
          usedArr,      \* tokens that have arrived in its pipe (<= usedCnt)
          spareCnt,     \* tokens counted by _spare_lids
          moved,        \* lids moved by the consumers in this round
          rpc, taken,   \* renew(): control point, tokens recycled so far
          round
vars == <<usedCnt, usedArr, spareCnt, moved, rpc, taken, round>>

Init == usedCnt = 0 /\ usedArr = 0 /\ spareCnt = 0 /\ moved = 0 /\ rpc = "idle" /\ taken = 0 /\ round = 1

MoveLid == /\ rpc = "idle" /\ moved < M
           /\ moved' = moved + 1 /\ usedCnt' = usedCnt + 1
           /\ UNCHANGED <<usedArr, spareCnt, rpc, taken, round>>
DeliverUsed == /\ usedArr < usedCnt /\ usedArr' = usedArr + 1
               /\ UNCHANGED <<usedCnt, spareCnt, moved, rpc, taken, round>>
RenewStart == /\ rpc = "idle" /\ usedCnt >= M /\ moved = M            \* full()
              /\ rpc' = "loop" /\ taken' = 0
              /\ UNCHANGED <<usedCnt, usedArr, spareCnt, moved, round>>
RenewGet == /\ rpc = "loop" /\ usedArr > 0 /\ (CountTokens => taken < M)
            /\ usedArr' = usedArr - 1 /\ usedCnt' = usedCnt - 1 /\ spareCnt' = spareCnt + 1 /\ taken' = taken + 1
            /\ UNCHANGED <<moved, rpc, round>>
RenewEnd == /\ rpc = "loop" /\ (IF CountTokens THEN taken = M ELSE usedArr = 0)
            /\ rpc' = "done"
            /\ UNCHANGED <<usedCnt, usedArr, spareCnt, moved, taken, round>>
\* the next round: the suppliers take the spare tokens back (put_end), the consumers start moving lids again
NextRound == /\ rpc = "done" /\ round < Rounds /\ spareCnt = M
             /\ round' = round + 1 /\ rpc' = "idle" /\ moved' = 0 /\ spareCnt' = 0
             /\ UNCHANGED <<usedCnt, usedArr, taken>>
Finished == rpc = "done" /\ (round = Rounds \/ spareCnt # M) /\ UNCHANGED vars
Next == MoveLid \/ DeliverUsed \/ RenewStart \/ RenewGet \/ RenewEnd \/ NextRound \/ Finished
Spec == Init /\ [][Next]_vars
FairSpec == Spec /\ WF_vars(DeliverUsed) /\ WF_vars(RenewGet) /\ WF_vars(RenewEnd) /\ WF_vars(MoveLid) /\ WF_vars(RenewStart)
                 /\ WF_vars(NextRound)

TypeOK == usedArr <= usedCnt /\ usedCnt <= M /\ spareCnt <= M /\ taken <= M /\ moved <= M
\* "after renew the same holds for the next round, nothing leaking between rounds"
NothingLeaks == rpc = "done" => (usedCnt = 0 /\ spareCnt = M)
EveryRoundRenewed == <>(rpc = "done" /\ round = Rounds)
Trap_RenewWaitsForDelivery == ~(rpc = "loop" /\ usedArr = 0 /\ usedCnt > 0)
=============================================================================
