------------------------------ MODULE ProxyCall ------------------------------
(***************************************************************************)
(* multiprocessing/server_process.py: what a call through a proxy does.     *)
(*                                                                         *)
(* The hosted objects are SEQUENTIAL OBJECTS; every call made through a     *)
(* proxy - from any thread of any process - is one atomic step of the       *)
(* server (linearizable): the behaviours are all interleavings of whole     *)
(* operations.  Each operation is defined as (new state, result) where the  *)
(* result is a value or error(type); an operation that raises leaves the    *)
(* state unchanged and the caller's connection usable.                      *)
(*                                                                         *)
(*   L   hosted list            ops of ListProxy                            *)
(*   D   hosted dict            ops of DictProxy (insertion ordered)        *)
(*   N   hosted Namespace       getattr / setattr / delattr                 *)
(*   V   hosted Value           get / set                                   *)
(*   C   custom class: a counter `n` and a list `items`; `items_proxy()`    *)
(*       returns managed_list(self.items): a PROXY to the contained list   *)
(*   K   that contained list, reachable only through such a proxy (or       *)
(*       through a copy of the proxy stored in L): operations through it    *)
(*       must be visible through C (`size`, `items_copy`) and vice versa    *)
(*       (`push`) - aliasing, not a copy.                                   *)
(*                                                                         *)
(* Values are small integer codes (the binder maps them to a catalogue of   *)
(* picklable Python values): 0,1,2 numbers (mutually ordered: `sort`),      *)
(* 3 a string-like, 4 None, 5 a nested plain list (comes back as a copy),   *)
(* 6 = PK, a proxy of K (comes back as a live proxy).  Dict keys are codes  *)
(* 1..NKeys, attribute names strings.                                       *)
(*                                                                         *)
(* Callers: threads of the parent process and a child process, each with    *)
(* its own proxies, and "sv": hosted code that calls through a proxy INSIDE *)
(* the server (C.relay(proxy, op, args)); the outcome of the inner call is   *)
(* the outcome of the relay.                                                *)
(*                                                                         *)
(* `act.d` is the outcome of the direct call on the hosted object, `act.r`  *)
(* what the caller of the proxy observes; the property is r = d.            *)
(* Flags (FALSE = code as found, TRUE = repaired design):                   *)
(*   ImulInPlace       `proxy *= k` returns the proxy.  As found the class  *)
(*                     decorator overwrites the hand-written __imul__ with  *)
(*                     a generated one that returns the server's result: a  *)
(*                     detached plain-list copy replaces the proxy (MGR18).   *)
(*   NamespaceProxyOK  As found NamespaceProxy gets a generated             *)
(*                     __getattribute__ METHOD: every attribute access      *)
(*                     recurses, no Namespace proxy can be built (MGR17).     *)
(*   InServerRaise     a call through a proxy inside the server that raises *)
(*                     re-raises the original exception.  As found the      *)
(*                     short-cut path raises the un-pickled RemoteException *)
(*                     wrapper: TypeError("exceptions must derive from      *)
(*                     BaseException") (MGR19).                               *)
(***************************************************************************)
EXTENDS Integers, Sequences, FiniteSets, TLC

CONSTANTS
  Callers,   \* e.g. {"t1", "t2", "ch"}: two threads of the parent (own proxies) and a child process
  Active,    \* subset of {"L", "D", "N", "V", "C", "K"} operated on (exhaustive runs take the objects in groups)
  Vals,      \* value codes used as arguments (subset of 0..5; PK=6 is added where legal)
  NKeys,     \* dict keys 1..NKeys
  MaxLen,    \* bound on list / dict sizes (guards, so that the model is finite)
  MaxN,      \* bound on the counter
  ImulInPlace, NamespaceProxyOK, InServerRaise

VARIABLES
  L, K,      \* sequences of value codes
  D,         \* sequence of [k, v]: dict in insertion order
  N,         \* [Attrs -> code | Absent]
  V,         \* code
  n,         \* counter of C
  hasK,      \* [Callers -> BOOLEAN]: the caller holds a proxy of K
  conn,      \* [Callers -> BOOLEAN]: the caller's connection is usable
  act        \* last call: [c, o, op, a, b, s, d, r]   d, r = [k, v, s, e]

vars == <<L, K, D, N, V, n, hasK, conn, act>>
view == <<L, K, D, N, V, n, hasK, conn>>

PK == 6
NoneV == 4
Absent == -1
Attrs == {"x", "y"}
Keys == 1..NKeys
Nums == {0, 1, 2}
SeqArgs == {<<>>, <<1>>, <<2, 0>>}

\* results
RNone == [k |-> "none", v |-> 0, s |-> <<>>, e |-> ""]
RVal(x) == IF x = PK THEN [k |-> "proxy", v |-> PK, s |-> <<>>, e |-> ""] ELSE [k |-> "val", v |-> x, s |-> <<>>, e |-> ""]
RInt(i) == [k |-> "int", v |-> i, s |-> <<>>, e |-> ""]
RBool(b) == [k |-> "bool", v |-> IF b THEN 1 ELSE 0, s |-> <<>>, e |-> ""]
RSeq(q) == [k |-> "seq", v |-> 0, s |-> q, e |-> ""]
RErr(t) == [k |-> "err", v |-> 0, s |-> <<>>, e |-> t]
Pair(k, v) == k * 100 + v            \* a (key, value) tuple inside a "seq" result

Init ==
  /\ L = <<>> /\ K = <<>> /\ D = <<>> /\ N = [a \in Attrs |-> Absent] /\ V = 0 /\ n = 0
  /\ hasK = [c \in Callers |-> FALSE] /\ conn = [c \in Callers |-> TRUE]
  /\ act = [c |-> "", o |-> "", op |-> "init", a |-> -1, b |-> -1, s |-> <<>>, d |-> RNone, r |-> RNone]

-----------------------------------------------------------------------------
\* sequence helpers
Remove(q, i) == [j \in 1..(Len(q) - 1) |-> IF j < i THEN q[j] ELSE q[j + 1]]
Insert(q, i, x) == [j \in 1..(Len(q) + 1) |-> IF j < i THEN q[j] ELSE IF j = i THEN x ELSE q[j - 1]]
Rev(q) == [j \in 1..Len(q) |-> q[Len(q) + 1 - j]]
Positions(q, x) == {j \in 1..Len(q) : q[j] = x}
Min(S) == CHOOSE x \in S : \A y \in S : x <= y
Count(q, x) == Cardinality(Positions(q, x))
RECURSIVE Rep(_, _)
Rep(q, m) == IF m <= 0 THEN <<>> ELSE q \o Rep(q, m - 1)
RECURSIVE SortNums(_)
SortNums(q) == IF q = <<>> THEN <<>>
               ELSE LET m == Min({q[j] : j \in 1..Len(q)}) IN <<m>> \o SortNums(Remove(q, Min(Positions(q, m))))
DKeys == {D[j].k : j \in 1..Len(D)}
DPos(k) == CHOOSE j \in 1..Len(D) : D[j].k = k
DGet(k) == D[DPos(k)].v
DSet(k, v) == IF k \in DKeys THEN [D EXCEPT ![DPos(k)] = [k |-> k, v |-> v]] ELSE Append(D, [k |-> k, v |-> v])
DDel(k) == Remove(D, DPos(k))
RECURSIVE DUpd(_, _)
DUpd(d, q) == IF q = <<>> THEN d
              ELSE LET kv == Head(q)
                       d2 == IF \E j \in 1..Len(d) : d[j].k = kv.k
                               THEN [d EXCEPT ![CHOOSE j \in 1..Len(d) : d[j].k = kv.k] = kv] ELSE Append(d, kv)
                   IN DUpd(d2, Tail(q))

-----------------------------------------------------------------------------
(* A list operation on sequence q: [q |-> new sequence, r |-> result].  Indices a are 0-based as in Python.          *)
(* `ok` says whether the operation is offered in the given state (size bounds only: errors are results, not guards) *)
ListOp(q, op, a, b, s) ==
  CASE op = "append"   -> [q |-> Append(q, a), r |-> RNone]
    [] op = "pop"      -> IF q = <<>> THEN [q |-> q, r |-> RErr("IndexError")]
                          ELSE [q |-> SubSeq(q, 1, Len(q) - 1), r |-> RVal(q[Len(q)])]
    [] op = "popi"     -> IF a >= Len(q) THEN [q |-> q, r |-> RErr("IndexError")]
                          ELSE [q |-> Remove(q, a + 1), r |-> RVal(q[a + 1])]
    [] op = "getitem"  -> IF a >= Len(q) THEN [q |-> q, r |-> RErr("IndexError")] ELSE [q |-> q, r |-> RVal(q[a + 1])]
    [] op = "setitem"  -> IF a >= Len(q) THEN [q |-> q, r |-> RErr("IndexError")]
                          ELSE [q |-> [q EXCEPT ![a + 1] = b], r |-> RNone]
    [] op = "delitem"  -> IF a >= Len(q) THEN [q |-> q, r |-> RErr("IndexError")] ELSE [q |-> Remove(q, a + 1), r |-> RNone]
    [] op = "len"      -> [q |-> q, r |-> RInt(Len(q))]
    [] op = "contains" -> [q |-> q, r |-> RBool(Positions(q, a) # {})]
    [] op = "count"    -> [q |-> q, r |-> RInt(Count(q, a))]
    [] op = "index"    -> IF Positions(q, a) = {} THEN [q |-> q, r |-> RErr("ValueError")]
                          ELSE [q |-> q, r |-> RInt(Min(Positions(q, a)) - 1)]
    [] op = "insert"   -> [q |-> Insert(q, (IF a > Len(q) THEN Len(q) ELSE a) + 1, b), r |-> RNone]
    [] op = "remove"   -> IF Positions(q, a) = {} THEN [q |-> q, r |-> RErr("ValueError")]
                          ELSE [q |-> Remove(q, Min(Positions(q, a))), r |-> RNone]
    [] op = "reverse"  -> [q |-> Rev(q), r |-> RNone]
    [] op = "reversed" -> [q |-> q, r |-> RSeq(Rev(q))]
    [] op = "extend"   -> [q |-> q \o s, r |-> RNone]
    [] op = "iadd"     -> [q |-> q \o s, r |-> RNone]
    [] op = "sort"     -> [q |-> SortNums(q), r |-> RNone]
    [] op = "add"      -> [q |-> q, r |-> RSeq(q \o s)]
    [] op = "mul"      -> [q |-> q, r |-> RSeq(Rep(q, a))]
    [] op = "rmul"     -> [q |-> q, r |-> RSeq(Rep(q, a))]
    [] op = "imul"     -> [q |-> Rep(q, a), r |-> RNone]
    [] op = "copy"     -> [q |-> q, r |-> RSeq(q)]          \* `proxy[:]`

ListOps == {"append", "pop", "popi", "getitem", "setitem", "delitem", "len", "contains", "count", "index", "insert",
            "remove", "reverse", "reversed", "extend", "iadd", "sort", "add", "mul", "rmul", "imul", "copy"}

\* arguments offered for a list operation (o = "L" may also store PK when the caller has one)
ValArgs(c, o) == Vals \cup (IF o = "L" /\ hasK[c] THEN {PK} ELSE {})
ListArgOK(c, o, q, op, a, b, s) ==
  CASE op \in {"append"}            -> a \in ValArgs(c, o) /\ b = -1 /\ s = <<>> /\ Len(q) < MaxLen
    [] op \in {"pop", "len", "reverse", "reversed", "copy"} -> a = -1 /\ b = -1 /\ s = <<>>
    [] op \in {"popi", "getitem", "delitem"} -> a \in 0..MaxLen /\ b = -1 /\ s = <<>>
    [] op = "setitem"               -> a \in 0..MaxLen /\ b \in ValArgs(c, o) /\ s = <<>>
    [] op \in {"contains", "count", "index", "remove"} -> a \in Vals /\ b = -1 /\ s = <<>>
    [] op = "insert"                -> a \in 0..MaxLen /\ b \in ValArgs(c, o) /\ s = <<>> /\ Len(q) < MaxLen
    [] op \in {"extend", "iadd"}    -> a = -1 /\ b = -1 /\ s \in SeqArgs /\ Len(q) + Len(s) <= MaxLen
    [] op = "add"                   -> a = -1 /\ b = -1 /\ s \in SeqArgs
    [] op = "sort"                  -> a = -1 /\ b = -1 /\ s = <<>> /\ \A j \in 1..Len(q) : q[j] \in Nums
    [] op \in {"mul", "rmul"}       -> a \in 0..2 /\ b = -1 /\ s = <<>>
    [] op = "imul"                  -> a \in 0..2 /\ b = -1 /\ s = <<>> /\ Len(q) * a <= MaxLen

\* dict operation: [d |-> new dict, r |-> result]; a = key, b = value / default (-1: not given)
DictOp(op, a, b, s) ==
  CASE op = "getitem"    -> IF a \in DKeys THEN [d |-> D, r |-> RVal(DGet(a))] ELSE [d |-> D, r |-> RErr("KeyError")]
    [] op = "setitem"    -> [d |-> DSet(a, b), r |-> RNone]
    [] op = "delitem"    -> IF a \in DKeys THEN [d |-> DDel(a), r |-> RNone] ELSE [d |-> D, r |-> RErr("KeyError")]
    [] op = "contains"   -> [d |-> D, r |-> RBool(a \in DKeys)]
    [] op = "len"        -> [d |-> D, r |-> RInt(Len(D))]
    [] op = "get"        -> [d |-> D, r |-> IF a \in DKeys THEN RVal(DGet(a)) ELSE IF b = -1 THEN RVal(NoneV) ELSE RVal(b)]
    [] op = "pop"        -> IF a \in DKeys THEN [d |-> DDel(a), r |-> RVal(DGet(a))]
                            ELSE IF b = -1 THEN [d |-> D, r |-> RErr("KeyError")] ELSE [d |-> D, r |-> RVal(b)]
    [] op = "popitem"    -> IF D = <<>> THEN [d |-> D, r |-> RErr("KeyError")]
                            ELSE [d |-> SubSeq(D, 1, Len(D) - 1), r |-> RSeq(<<Pair(D[Len(D)].k, D[Len(D)].v)>>)]
    [] op = "setdefault" -> IF a \in DKeys THEN [d |-> D, r |-> RVal(DGet(a))] ELSE [d |-> DSet(a, b), r |-> RVal(b)]
    [] op = "update"     -> [d |-> DUpd(D, [j \in 1..Len(s) |-> [k |-> s[j] \div 100, v |-> s[j] % 100]]), r |-> RNone]
    [] op = "clear"      -> [d |-> <<>>, r |-> RNone]
    [] op = "copy"       -> [d |-> D, r |-> RSeq([j \in 1..Len(D) |-> Pair(D[j].k, D[j].v)])]
    [] op = "items"      -> [d |-> D, r |-> RSeq([j \in 1..Len(D) |-> Pair(D[j].k, D[j].v)])]
    [] op = "keys"       -> [d |-> D, r |-> RSeq([j \in 1..Len(D) |-> D[j].k])]
    [] op = "values"     -> [d |-> D, r |-> RSeq([j \in 1..Len(D) |-> D[j].v])]

DictOps == {"getitem", "setitem", "delitem", "contains", "len", "get", "pop", "popitem", "setdefault", "update", "clear",
            "copy", "items", "keys", "values"}
DVals == Vals \ {5}      \* (no nested list inside the dict: keeps `update` arguments small)
UpdArgs == {<<>>, <<Pair(1, 1)>>, <<Pair(2, 0), Pair(1, 2)>>}
DictArgOK(op, a, b, s) ==
  CASE op \in {"getitem", "delitem", "contains"} -> a \in Keys /\ b = -1 /\ s = <<>>
    [] op \in {"setitem", "setdefault"}          -> a \in Keys /\ b \in DVals /\ s = <<>>
    [] op \in {"get", "pop"}                     -> a \in Keys /\ b \in {-1} \cup DVals /\ s = <<>>
    [] op \in {"len", "popitem", "clear", "copy", "items", "keys", "values"} -> a = -1 /\ b = -1 /\ s = <<>>
    [] op = "update"                             -> a = -1 /\ b = -1 /\ s \in UpdArgs /\ (\A j \in 1..Len(s) : s[j] \div 100 \in Keys)

-----------------------------------------------------------------------------
\* what the caller observes, given the outcome d of the direct call (q: the list after an in-place list operation)
Observed(c, o, op, d, q) ==
  IF o \in {"L", "K"} /\ op = "imul" /\ ~ImulInPlace THEN RSeq(q)
  ELSE IF c = "sv" /\ d.k = "err" /\ ~InServerRaise THEN RErr("TypeError")
  ELSE d

Done(c, o, op, a, b, s, d, r) ==
  /\ act' = [c |-> c, o |-> o, op |-> op, a |-> a, b |-> b, s |-> s, d |-> d, r |-> r]
  /\ conn' = conn          \* also after an error: the next call on the same connection works
  /\ hasK' = IF r.k = "proxy" THEN [hasK EXCEPT ![c] = TRUE] ELSE hasK

CallL(c, op, a, b, s) ==
  /\ "L" \in Active /\ conn[c] /\ op \in ListOps /\ ListArgOK(c, "L", L, op, a, b, s)
  /\ LET z == ListOp(L, op, a, b, s) IN L' = z.q /\ Done(c, "L", op, a, b, s, z.r, Observed(c, "L", op, z.r, z.q))
  /\ UNCHANGED <<K, D, N, V, n>>

\* through a proxy obtained from C.items_proxy() or read out of L
CallK(c, op, a, b, s) ==
  /\ "K" \in Active /\ conn[c] /\ hasK[c] /\ op \in ListOps /\ ListArgOK(c, "K", K, op, a, b, s)
  /\ LET z == ListOp(K, op, a, b, s) IN K' = z.q /\ Done(c, "K", op, a, b, s, z.r, Observed(c, "K", op, z.r, z.q))
  /\ UNCHANGED <<L, D, N, V, n>>

CallD(c, op, a, b, s) ==
  /\ "D" \in Active /\ conn[c] /\ op \in DictOps /\ DictArgOK(op, a, b, s)
  /\ (op \in {"setitem", "setdefault"} => Len(D) < MaxLen \/ a \in DKeys)
  /\ LET z == DictOp(op, a, b, s) IN D' = z.d /\ Done(c, "D", op, a, b, s, z.r, Observed(c, "D", op, z.r, <<>>))
  /\ UNCHANGED <<L, K, N, V, n>>

\* Namespace: a = -1, s = <<attr-index>> would be clumsy: the attribute travels in `s` as <<1>> = "x", <<2>> = "y"
AttrOf(s) == IF s = <<1>> THEN "x" ELSE "y"
NOp(op, a, s) ==     \* [n |-> new namespace, r |-> result]
  CASE op = "getattr" -> [n |-> N, r |-> IF N[AttrOf(s)] = Absent THEN RErr("AttributeError") ELSE RVal(N[AttrOf(s)])]
    [] op = "setattr" -> [n |-> [N EXCEPT ![AttrOf(s)] = a], r |-> RNone]
    [] op = "delattr" -> IF N[AttrOf(s)] = Absent THEN [n |-> N, r |-> RErr("AttributeError")]
                         ELSE [n |-> [N EXCEPT ![AttrOf(s)] = Absent], r |-> RNone]
CallN(c, op, a, b, s) ==
  /\ "N" \in Active /\ conn[c] /\ s \in {<<1>>, <<2>>} /\ b = -1 /\ op \in {"getattr", "setattr", "delattr"}
  /\ IF op = "setattr" THEN a \in Vals ELSE a = -1
  /\ LET z == NOp(op, a, s) IN
       IF NamespaceProxyOK THEN N' = z.n /\ Done(c, "N", op, a, b, s, z.r, Observed(c, "N", op, z.r, <<>>))
                           ELSE N' = N /\ Done(c, "N", op, a, b, s, z.r, RErr("RecursionError"))
  /\ UNCHANGED <<L, K, D, V, n>>

CallV(c, op, a, b, s) ==
  /\ "V" \in Active /\ conn[c] /\ b = -1 /\ s = <<>>
  /\ \/ op = "get" /\ a = -1 /\ V' = V /\ Done(c, "V", op, a, b, s, RVal(V), Observed(c, "V", op, RVal(V), <<>>))
     \/ op = "set" /\ a \in Vals /\ V' = a /\ Done(c, "V", op, a, b, s, RNone, Observed(c, "V", op, RNone, <<>>))
  /\ UNCHANGED <<L, K, D, N, n>>

\* the custom class: [n |-> counter, q |-> items, r |-> result]
COp(op, a) ==
  CASE op = "inc"         -> [n |-> n + a, q |-> K, r |-> RInt(n + a)]
    [] op = "get"         -> [n |-> n, q |-> K, r |-> RInt(n)]
    [] op = "fail"        -> [n |-> n, q |-> K, r |-> RErr("ValueError")]         \* raise ValueError('boom', a)
    [] op = "fail_custom" -> [n |-> n, q |-> K, r |-> RErr("CounterError")]       \* a class defined by the harness
    [] op = "push"        -> [n |-> n, q |-> Append(K, a), r |-> RInt(Len(K) + 1)]
    [] op = "size"        -> [n |-> n, q |-> K, r |-> RInt(Len(K))]
    [] op = "items_copy"  -> [n |-> n, q |-> K, r |-> RSeq(K)]
    [] op = "items_proxy" -> [n |-> n, q |-> K, r |-> RVal(PK)]                   \* managed_list(self.items)
CArgOK(op, a) ==
  CASE op = "inc" -> a \in 1..2 /\ n + a <= MaxN
    [] op \in {"fail", "fail_custom"} -> a \in Nums
    [] op = "push" -> a \in Vals /\ Len(K) < MaxLen
    [] op \in {"get", "size", "items_copy"} -> a = -1
    [] op = "items_proxy" -> a = -1 /\ "K" \in Active
CallC(c, op, a, b, s) ==
  /\ "C" \in Active /\ conn[c] /\ b = -1 /\ s = <<>>
  /\ op \in {"inc", "get", "fail", "fail_custom", "push", "size", "items_copy", "items_proxy"} /\ CArgOK(op, a)
  /\ LET z == COp(op, a) IN n' = z.n /\ K' = z.q /\ Done(c, "C", op, a, b, s, z.r, Observed(c, "C", op, z.r, <<>>))
  /\ UNCHANGED <<L, D, N, V>>

NOps == {"getattr", "setattr", "delattr"}
VOps == {"get", "set"}
COps == {"inc", "get", "fail", "fail_custom", "push", "size", "items_copy", "items_proxy"}

Call(c, o, op, a, b, s) ==
  CASE o = "L" -> CallL(c, op, a, b, s)
    [] o = "K" -> CallK(c, op, a, b, s)
    [] o = "D" -> CallD(c, op, a, b, s)
    [] o = "N" -> CallN(c, op, a, b, s)
    [] o = "V" -> CallV(c, op, a, b, s)
    [] o = "C" -> CallC(c, op, a, b, s)

\* candidate argument tuples per operation (a superset of what the ...ArgOK predicates accept; only there to keep the
\* enumeration small)
Arg(a, b, s) == [a |-> a, b |-> b, s |-> s]
ListArgs(c, o, op) ==
  CASE op \in {"append", "contains", "count", "index", "remove"} -> {Arg(v, -1, <<>>) : v \in ValArgs(c, o)}
    [] op \in {"pop", "len", "reverse", "reversed", "copy", "sort"} -> {Arg(-1, -1, <<>>)}
    [] op \in {"popi", "getitem", "delitem"} -> {Arg(i, -1, <<>>) : i \in 0..MaxLen}
    [] op \in {"setitem", "insert"} -> {Arg(i, v, <<>>) : i \in 0..MaxLen, v \in ValArgs(c, o)}
    [] op \in {"extend", "iadd", "add"} -> {Arg(-1, -1, q) : q \in SeqArgs}
    [] op \in {"mul", "rmul", "imul"} -> {Arg(i, -1, <<>>) : i \in 0..2}
DictArgs(op) ==
  CASE op \in {"getitem", "delitem", "contains"} -> {Arg(k, -1, <<>>) : k \in Keys}
    [] op \in {"setitem", "setdefault"} -> {Arg(k, v, <<>>) : k \in Keys, v \in DVals}
    [] op \in {"get", "pop"} -> {Arg(k, v, <<>>) : k \in Keys, v \in {-1} \cup DVals}
    [] op \in {"len", "popitem", "clear", "copy", "items", "keys", "values"} -> {Arg(-1, -1, <<>>)}
    [] op = "update" -> {Arg(-1, -1, q) : q \in UpdArgs}
CArgs(op) == IF op \in {"inc", "fail", "fail_custom"} THEN Nums ELSE IF op = "push" THEN Vals ELSE {-1}

Next ==
  \/ \E c \in Callers, op \in ListOps : \E x \in ListArgs(c, "L", op) : CallL(c, op, x.a, x.b, x.s)
  \/ \E c \in Callers, op \in ListOps : \E x \in ListArgs(c, "K", op) : CallK(c, op, x.a, x.b, x.s)
  \/ \E c \in Callers, op \in DictOps : \E x \in DictArgs(op) : CallD(c, op, x.a, x.b, x.s)
  \/ \E c \in Callers, op \in NOps, a \in {-1} \cup Vals, s \in {<<1>>, <<2>>} : CallN(c, op, a, -1, s)
  \/ \E c \in Callers, op \in VOps, a \in {-1} \cup Vals : CallV(c, op, a, -1, <<>>)
  \/ \E c \in Callers, op \in COps : \E a \in CArgs(op) : CallC(c, op, a, -1, <<>>)

Spec == Init /\ [][Next]_vars

-----------------------------------------------------------------------------
IsVal(x) == x \in 0..6
TypeOK ==
  /\ L \in Seq(0..6) /\ Len(L) <= MaxLen
  /\ K \in Seq(0..5) /\ Len(K) <= MaxLen
  /\ \A j \in 1..Len(D) : D[j].k \in Keys /\ D[j].v \in 0..5
  /\ \A a \in Attrs : N[a] \in {Absent} \cup 0..5
  /\ V \in 0..5 /\ n \in 0..MaxN
\* dict keys are unique (the insertion-ordered representation is a function)
DictFunctional == \A i, j \in 1..Len(D) : D[i].k = D[j].k => i = j
\* a proxy of K exists somewhere (held by a caller or stored in L) only if it was handed out: PK never appears from nowhere,
\* and every PK in L denotes the one list K (aliasing is structural: there is a single K)
ProxyProvenance == (\E j \in 1..Len(L) : L[j] = PK) => \E c \in Callers : hasK[c]
\* "leaves the connection usable"
ConnUsable == \A c \in Callers : conn[c]
\* C14: the caller of the proxy observes what the direct call on the hosted object gives
\* (action properties: `act` is hidden by the VIEW of the exhaustive runs, so state invariants must not mention it)
SameAsDirect == [][act'.r = act'.d]_vars
\* an operation that raised changed nothing (action property)
ErrorsAreNoOps == [][act'.d.k = "err" => UNCHANGED <<L, K, D, N, V, n, hasK, conn>>]_vars
\* what C reports about its list is what operations through the proxy left there
AliasView == [][act'.o = "C" /\ act'.op = "size" => act'.r.v = Len(K')]_vars
=============================================================================
