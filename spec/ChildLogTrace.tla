---------------------------- MODULE ChildLogTrace ----------------------------
(* Validates what the parent observed of REAL children (mbt/bind/childlog.py) against ChildLog (repaired design).      *)
(* Logged, in the parent, in real order: every record the parent's handler handled, join() returning, the child's      *)
(* exit code, the logger thread having ended.  Everything else - the child, both feeder threads, the collector, the     *)
(* logger thread's reads and the records its level filter drops - is silent.                                           *)
(* Nothing logged says that something has NOT yet happened, and in the repaired design every silent step only enables  *)
(* further steps (there is no race left to resolve), so the silent steps are taken eagerly in one fixed order and an    *)
(* event is consumed only when none is enabled: validation is linear in the number of records.  Sizes are rounded      *)
(* down and the capacity up by the binder, so the model's pipe never blocks where the real one did not.                *)
EXTENDS ChildLog, Json, IOUtils, TLCExt

TraceLog == JsonDeserialize(IOEnv.TRACE_FILE)
VARIABLES tid, l
tvars == <<vars, tid, l>>

ParamOf(h) == [n |-> h.n, recs |-> [i \in 1..h.n |-> [s |-> h.s[i], hi |-> h.hi[i]]], P |-> h.P, kind |-> h.kind]
Evs == TraceLog[tid].ev
E == Evs[l]
Is(name) == l <= Len(Evs) /\ E.ev = name
Adv == l' = l + 1 /\ tid' = tid
Silent == l' = l /\ tid' = tid

TraceInit ==
  \E t \in 1..Len(TraceLog) :
     /\ tid = t /\ l = 1
     /\ InitWith(ParamOf(TraceLog[t].p))
     /\ TLCSet(t, <<1, "init", "none">>)

DropHandle == lpc = "handle" /\ ~p.recs[cur.i].hi /\ LoggerHandle

SilentStep ==
  IF EmitEn THEN Emit
  ELSE IF TargetEndEn THEN TargetEnd
  ELSE IF SendResultEn THEN SendResult
  ELSE IF CloseQueueEn THEN CloseQueue
  ELSE IF CFeederTakeEn THEN CFeederTake
  ELSE IF CFeederWriteEn THEN CFeederWrite
  ELSE IF ChildExitEn THEN ChildExit
  ELSE IF CollGotEn THEN CollGot
  ELSE IF CollEndEn THEN CollEnd
  ELSE IF PFeederTakeEn THEN PFeederTake
  ELSE IF PFeederWriteEn THEN PFeederWrite
  ELSE IF LoggerReadEn THEN LoggerRead
  ELSE DropHandle
SilentEnabled ==
  \/ EmitEn \/ TargetEndEn \/ SendResultEn \/ CloseQueueEn \/ CFeederTakeEn \/ CFeederWriteEn \/ ChildExitEn
  \/ CollGotEn \/ CollEndEn \/ PFeederTakeEn \/ PFeederWriteEn \/ LoggerReadEn \/ (lpc = "handle" /\ ~p.recs[cur.i].hi)

THandle  == Is("Handle") /\ lpc = "handle" /\ cur.i = E.i /\ p.recs[cur.i].hi /\ LoggerHandle /\ Adv
TStopped == Is("Stopped") /\ lpc = "stopped" /\ UNCHANGED vars /\ Adv
TJoin    == Is("Join") /\ Join /\ (E.k = "raise") = (p.kind \in {"raise", "exitN"}) /\ Adv
TExit    == Is("Exitcode") /\ cpc = "dead" /\ code = E.c /\ UNCHANGED vars /\ Adv

TraceNext == IF SilentEnabled THEN SilentStep /\ Silent
             ELSE THandle \/ TStopped \/ TJoin \/ TExit
TraceSpec == TraceInit /\ [][TraceNext]_tvars

FailedInv ==
  IF ~TypeOK THEN "TypeOK" ELSE IF ~PipeBound THEN "PipeBound" ELSE IF ~HandledPrefix THEN "HandledPrefix"
  ELSE IF ~NoLoss THEN "NoLoss" ELSE "none"

Progress ==
  IF FailedInv # "none"
    THEN TLCSet(tid, <<TLCGet(tid)[1], TLCGet(tid)[2], FailedInv>>) /\ FALSE
    ELSE IF TLCGet(tid)[1] < l
           THEN TLCSet(tid, <<l, <<cpc, emitted, Len(cbuf), Len(pipe), kpc, lpc, Len(handled)>>, TLCGet(tid)[3]>>)
           ELSE TRUE

Report ==
  \A t \in 1..Len(TraceLog) :
     PrintT(<<"VERDICT", t, TLCGet(t)[1], Len(TraceLog[t].ev), TLCGet(t)[2], TLCGet(t)[3]>>)
=============================================================================
