------------------------ MODULE IterableQueueTrace ------------------------
(* Validates recorded executions of the real IterableQueue over queue.Queue (mbt/bind/iterqueue.py, detsched) against  *)
(* IterableQueue.  Every operation on the main queue and on the token queues is logged under the queue's own mutex      *)
(* (exact linearization order), as is every full() test of the `used` tokens.                                          *)
EXTENDS IterableQueue, Json, IOUtils, TLCExt

TraceLog == JsonDeserialize(IOEnv.TRACE_FILE)
VARIABLES tid, l
tvars == <<vars, tid, l>>

Evs == TraceLog[tid].ev
E == Evs[l]
Is(name) == l <= Len(Evs) /\ E.ev = name
Adv == l' = l + 1 /\ tid' = tid
Silent == l' = l /\ tid' = tid
Same == UNCHANGED vars
LastOf(s) == s[Len(s)]

TraceInit ==
  \E t \in 1..Len(TraceLog) : tid = t /\ l = 1 /\ Init /\ TLCSet(t, <<1, "init", "none">>)

\* main queue
TQPutItem == /\ Is("QPut") /\ E.role = "q" /\ E.kind = "item" /\ E.who = "s"
             /\ SupPut(E.n) /\ LastOf(q') = Item(E.s, E.k, E.r) /\ Adv
TQPutNone == /\ Is("QPut") /\ E.role = "q" /\ E.kind = "none"
             /\ \/ E.who = "s" /\ SupMarker(E.n)
                \/ E.who = "c" /\ PutBack(E.n)
             /\ Adv
TQGet     == /\ Is("QGet") /\ E.role = "q" /\ q # <<>>
             /\ \/ E.kind = "none" /\ Head(q).t = "none"
                \/ E.kind = "item" /\ Head(q) = Item(E.s, E.k, E.r)
             /\ \/ E.who = "c" /\ N2(E.n)
                \/ E.who = "r" /\ Renew2
             /\ Adv
\* token queues
TSpareGet == Is("QGet") /\ E.role = "spare" /\ E.who = "s" /\ spare > 0 /\ SupTakeSpare(E.n) /\ Adv
TApplyPut == Is("QPut") /\ E.role = "applied" /\ E.who = "s" /\ SupApply(E.n) /\ Adv
TApplyGet == Is("QGet") /\ E.role = "applied" /\ E.who = "c" /\ N5(E.n) /\ Adv
TUsedPut  == Is("QPut") /\ E.role = "used" /\ E.who = "c" /\ N6(E.n) /\ Adv
\* the claim: `_extra_lid.put(None, block=False)` into the one-slot queue succeeded (a failed put logs nothing: TSilent)
TClaimGet == Is("QPut") /\ E.role = "extra" /\ E.who = "c" /\ claim = 1 /\ Claim(E.n) /\ Adv
\* `used.full()` by a consumer (N1 / N4 / N7) or by renew()
TFull     == /\ Is("Full") /\ E.role = "used" /\ E.val = (used = M)
             /\ \/ E.who = "c" /\ (N1(E.n) \/ N4(E.n) \/ N7(E.n))
                \/ E.who = "r" /\ Renew1
             /\ Adv
\* renew(): internal token recycling is one step of the model; the harness logs its return
TRenewIgnored == /\ \/ Is("QGet") /\ E.role \in {"used", "extra"}
                    \/ Is("QPut") /\ E.role = "spare"
                 /\ E.who = "r" /\ rpc = "R3" /\ Same /\ Adv
TRenewDone == Is("RenewDone") /\ Renew3 /\ Adv
\* harness observations
TConsDone == Is("ConsDone") /\ cpc[E.n] = "done" /\ Same /\ Adv
TSupDone  == Is("SupDone") /\ spc[E.n] = "done" /\ Same /\ Adv
TRoundOK  == Is("RoundChecked") /\ RoundOver /\ Same /\ Adv

\* stop request scenarios: the harness sets the flag; every blocked party must leave with StopRequested in time
TStopSet  == Is("StopSet") /\ StopRequest /\ Adv
TStopped  == /\ Is("Stopped") /\ ~E.late
             /\ \/ E.who = "c" /\ ConStopped(E.n)
                \/ E.who = "s" /\ SupStopped(E.n)
             /\ Adv
TAllStopped == Is("AllStopped") /\ stop /\ Same /\ Adv

TSilent == /\ \/ \E s \in Sup : SupEndStart(s)
              \/ \E c \in Con : (Claim(c) /\ cpc'[c] = "done")      \* lost the claim: put(block=False) raised Full
           /\ Silent

\* with a stop event the token queues are multiprocessing queues (not observable): the full() test before a get is silent
TSilentStop == MayStop /\ (\E c \in Con : N1(c)) /\ Silent

TraceNext == TSilentStop \/ TQPutItem \/ TQPutNone \/ TQGet \/ TSpareGet \/ TApplyPut \/ TApplyGet \/ TUsedPut \/ TClaimGet \/ TFull
             \/ TRenewIgnored \/ TRenewDone \/ TConsDone \/ TSupDone \/ TRoundOK \/ TStopSet \/ TStopped \/ TAllStopped
             \/ TSilent
TraceSpec == TraceInit /\ [][TraceNext]_tvars

FailedInv ==
  IF ~NoInternalError THEN "NoInternalError" ELSE IF ~NoDuplicate THEN "NoDuplicate"
  ELSE IF ~RoundComplete THEN "RoundComplete" ELSE IF ~CleanStart THEN "CleanStart"
  ELSE IF ~TokenConservation THEN "TokenConservation" ELSE "none"

Progress ==
  IF FailedInv # "none"
    THEN TLCSet(tid, <<TLCGet(tid)[1], TLCGet(tid)[2], FailedInv>>) /\ FALSE
    ELSE IF TLCGet(tid)[1] < l
           THEN TLCSet(tid, <<l, <<round, spc, cpc, Len(q), spare, applied, used, claim, rpc>>, TLCGet(tid)[3]>>)
           ELSE TRUE

Report ==
  \A t \in 1..Len(TraceLog) :
     PrintT(<<"VERDICT", t, TLCGet(t)[1], Len(TraceLog[t].ev), TLCGet(t)[2], TLCGet(t)[3]>>)
=============================================================================
