----------------------------- MODULE SocketMux -----------------------------
(***************************************************************************)
(* socket.py: SocketClient multiplexes the requests of many threads over K *)
(* connections; SocketServer answers each connection in request order.      *)
(*                                                                         *)
(*  requester threads --Submit/Insert--> pending (bounded SingleLane)       *)
(*  K senders (one event loop): Take, WriteRecord, Register(id)   (562-582) *)
(*  per connection, server: Receive (task created) -> Admit to the task     *)
(*    FIFO (asyncio.Queue(backlog)) -> Head taken by the responder, which   *)
(*    awaits it; handlers finish in ANY order; Respond only for the head    *)
(*    (364-433)                                                            *)
(*  K receivers: ClientReceive pops active[id], resolves that future        *)
(*    (584-601); request() returns / stream() yields in input order         *)
(*                                                                         *)
(* A record on a wire is [id, r]: r stands for the opaque payload (and for  *)
(* "the result H(payload[r]) / the exception raised for r" on the way back).*)
(* The payload CLASS p.cls[r] (small, empty, newline, header, big, nested,  *)
(* raises) matters to the binder, which maps it to concrete bytes; byte     *)
(* framing itself (readuntil/readexactly) is exercised, not modelled.       *)
(*                                                                         *)
(* Flags - TRUE describes the code as it is; FALSE is a variant that TLC    *)
(* must refute (sensitivity / vacuity guards; none is an as-found defect):  *)
(*   UniqueLiveIds  request id = id(future): unique among the futures that  *)
(*                  still wait for their response                          *)
(*   LoopOrder      ENVIRONMENT ASSUMPTION the code relies on: the sender   *)
(*                  registers active[id] only AFTER `await write_record`;   *)
(*                  asyncio runs the sender's continuation before it can    *)
(*                  dispatch the response to that very record               *)
(*   RegisterFirst  variant design: register before writing (then the       *)
(*                  assumption is not needed)                               *)
(*   StreamInOrder  stream() waits for the futures in input order           *)
(* and one flag for a deviation that does NOT touch C18 (FALSE = as found): *)
(*   PutRechecks    the pending queue is a SingleLane, documented as single *)
(*                  writer, whose put() does `if full: wait()` without      *)
(*                  re-testing; with several requester threads a woken put  *)
(*                  appends although another thread has refilled the queue: *)
(*                  the queue exceeds `backlog` (PendingBound fails).       *)
(*                  Nothing is lost or reordered by that.                   *)
(* Serves C18 (socket half).                                                *)
(***************************************************************************)
EXTENDS Naturals, Sequences, FiniteSets, TLC

CONSTANTS
  Params,        \* set of scenario records explored from Init
  UniqueLiveIds, LoopOrder, RegisterFirst, StreamInOrder, PutRechecks

VARIABLES
  p,        \* scenario: [K, B (server backlog per connection), PC (client pending capacity),
            \*            cls (payload class per request), stream (requests fed by one stream() call, in input order)]
  rst,      \* requester side: "new" -> "sub" (put called) [-> "blocked" (queue full) -> "woken"] -> "queued" (in pending or
            \* beyond) -> "returned"
  id,       \* id[r]: request id on the wire (0 before Submit)
  pending,  \* the client's queue of requests not yet taken by a sender
  waiters,  \* requests whose put() waits on the queue's not-full condition, in arrival order
  snd,      \* snd[c]: sender of connection c: [st |-> "idle" | "taken" | "mid", r |-> request in its hands]
  active,   \* the client's dict id -> future, as a set of [id, r]
  wcs,      \* wcs[c]: records in flight client -> server
  srx,      \* srx[c]: record the server's receiver holds (task created, not yet in the FIFO); NoRec if none
  fifo,     \* fifo[c]: the per-connection task FIFO
  shd,      \* shd[c]: the task the responder has taken out and awaits; NoRec if none
  hdone,    \* requests whose handler has finished
  wsc,      \* wsc[c]: responses in flight server -> client
  val,      \* val[r]: 0 = future unresolved; q = resolved with the outcome of the handler call made for request q
  nres,     \* nres[r]: how often future r was resolved
  crashed,  \* the client's event loop died (KeyError on active.pop / InvalidStateError)
  yseq,     \* what stream() has yielded so far
  act

vars == <<p, rst, id, pending, waiters, snd, active, wcs, srx, fifo, shd, hdone, wsc, val, nres, crashed, yseq, act>>

Classes == {"small", "empty", "newline", "header", "big", "nested", "raises"}
NoRec == [id |-> 0, r |-> 0]
R == Len(p.cls)
Req == 1..R
Conn == 1..p.K
InStream(r) == \E i \in 1..Len(p.stream) : p.stream[i] = r
StreamPos(r) == CHOOSE i \in 1..Len(p.stream) : p.stream[i] = r
Min(S) == CHOOSE x \in S : \A y \in S : x <= y

InitWith(q) ==
  /\ p = q
  /\ rst = [r \in 1..Len(q.cls) |-> "new"]
  /\ id = [r \in 1..Len(q.cls) |-> 0]
  /\ pending = <<>> /\ waiters = <<>>
  /\ snd = [c \in 1..q.K |-> [st |-> "idle", r |-> 0]]
  /\ active = {}
  /\ wcs = [c \in 1..q.K |-> <<>>] /\ srx = [c \in 1..q.K |-> NoRec] /\ fifo = [c \in 1..q.K |-> <<>>]
  /\ shd = [c \in 1..q.K |-> NoRec] /\ hdone = {} /\ wsc = [c \in 1..q.K |-> <<>>]
  /\ val = [r \in 1..Len(q.cls) |-> 0] /\ nres = [r \in 1..Len(q.cls) |-> 0]
  /\ crashed = FALSE /\ yseq = <<>>
  /\ act = [name |-> "Init", r |-> 0, c |-> 0]

Init == \E q \in Params : InitWith(q)

Did(name, r, c) == act' = [name |-> name, r |-> r, c |-> c]

-----------------------------------------------------------------------------
(* REQUESTERS -- SocketClient._enqueue (641-653), request(), stream()'s feeder thread                              *)

\* ids of the futures that still wait for their response (a future cannot be freed, hence its id(...) not re-used, before)
LiveIds == {id[q] : q \in {x \in Req : rst[x] \in {"sub", "blocked", "woken", "queued"} /\ val[x] = 0}}
FreeIds == (1..R) \ LiveIds

\* `fut = Future()`; `pending.put(((path, data), fut))` begins.  The elements of a stream are fed by ONE thread, in order.
Submit(r, i) ==
  /\ r \in Req
  /\ rst[r] = "new"
  /\ InStream(r) => \A k \in 1..(StreamPos(r) - 1) : rst[p.stream[k]] \in {"queued", "returned"}
  /\ UniqueLiveIds => i \notin LiveIds
  /\ rst' = [rst EXCEPT ![r] = "sub"] /\ id' = [id EXCEPT ![r] = i]
  /\ Did("Submit", r, 0)
  /\ UNCHANGED <<p, pending, waiters, snd, active, wcs, srx, fifo, shd, hdone, wsc, val, nres, crashed, yseq>>

\* SingleLane.put (_queues.py 48-58): under the mutex, `if full: wait()` ... append
Insert(r) ==
  /\ r \in Req
  /\ rst[r] = "sub" /\ Len(pending) < p.PC
  /\ pending' = Append(pending, r) /\ rst' = [rst EXCEPT ![r] = "queued"]
  /\ Did("Insert", r, 0)
  /\ UNCHANGED <<p, id, waiters, snd, active, wcs, srx, fifo, shd, hdone, wsc, val, nres, crashed, yseq>>

Block(r) ==
  /\ r \in Req
  /\ rst[r] = "sub" /\ Len(pending) >= p.PC
  /\ waiters' = Append(waiters, r) /\ rst' = [rst EXCEPT ![r] = "blocked"]
  /\ Did("Block", r, 0)
  /\ UNCHANGED <<p, id, pending, snd, active, wcs, srx, fifo, shd, hdone, wsc, val, nres, crashed, yseq>>

\* a put woken by a get has re-acquired the mutex: as found it appends without testing again
InsertWoken(r) ==
  /\ r \in Req
  /\ rst[r] = "woken"
  /\ IF PutRechecks /\ Len(pending) >= p.PC
       THEN /\ waiters' = Append(waiters, r) /\ rst' = [rst EXCEPT ![r] = "blocked"] /\ pending' = pending
       ELSE /\ pending' = Append(pending, r) /\ rst' = [rst EXCEPT ![r] = "queued"] /\ waiters' = waiters
  /\ Did("InsertWoken", r, 0)
  /\ UNCHANGED <<p, id, snd, active, wcs, srx, fifo, shd, hdone, wsc, val, nres, crashed, yseq>>

\* request() returns its own future's result (or raises its exception)
Return(r) ==
  /\ r \in Req
  /\ ~InStream(r) /\ rst[r] = "queued" /\ val[r] # 0
  /\ rst' = [rst EXCEPT ![r] = "returned"]
  /\ Did("Return", r, 0)
  /\ UNCHANGED <<p, id, pending, waiters, snd, active, wcs, srx, fifo, shd, hdone, wsc, val, nres, crashed, yseq>>

\* stream() yields the next result: it waits for the futures in the order in which they were enqueued (744-761)
Yield(r) ==
  /\ r \in Req
  /\ InStream(r) /\ rst[r] = "queued" /\ val[r] # 0
  /\ StreamInOrder => Len(yseq) + 1 = StreamPos(r)
  /\ yseq' = Append(yseq, r) /\ rst' = [rst EXCEPT ![r] = "returned"]
  /\ Did("Yield", r, 0)
  /\ UNCHANGED <<p, id, pending, waiters, snd, active, wcs, srx, fifo, shd, hdone, wsc, val, nres, crashed>>

-----------------------------------------------------------------------------
(* CLIENT SENDERS -- _keep_sending (562-582), all in one event loop                                               *)

\* `pending.get_nowait()`: pops the head and notifies ONE put waiting for room
Take(c) ==
  /\ c \in Conn
  /\ ~crashed /\ snd[c].st = "idle" /\ pending # <<>>
  /\ snd' = [snd EXCEPT ![c] = [st |-> "taken", r |-> Head(pending)]] /\ pending' = Tail(pending)
  /\ IF waiters # <<>> THEN waiters' = Tail(waiters) /\ rst' = [rst EXCEPT ![Head(waiters)] = "woken"]
                       ELSE waiters' = waiters /\ rst' = rst
  /\ Did("Take", Head(pending), c)
  /\ UNCHANGED <<p, id, active, wcs, srx, fifo, shd, hdone, wsc, val, nres, crashed, yseq>>

\* `await write_record(writer, req_id, x)`: header + payload on the wire (drain() may yield to the loop for a big payload)
WriteRecord(c) ==
  /\ c \in Conn
  /\ ~crashed /\ snd[c].st = (IF RegisterFirst THEN "mid" ELSE "taken")
  /\ wcs' = [wcs EXCEPT ![c] = Append(@, [id |-> id[snd[c].r], r |-> snd[c].r])]
  /\ snd' = [snd EXCEPT ![c] = IF RegisterFirst THEN [st |-> "idle", r |-> 0] ELSE [@ EXCEPT !.st = "mid"]]
  /\ Did("WriteRecord", snd[c].r, c)
  /\ UNCHANGED <<p, rst, id, pending, waiters, active, srx, fifo, shd, hdone, wsc, val, nres, crashed, yseq>>

\* `active[req_id] = fut`
Register(c) ==
  /\ c \in Conn
  /\ ~crashed /\ snd[c].st = (IF RegisterFirst THEN "taken" ELSE "mid")
  /\ active' = {a \in active : a.id # id[snd[c].r]} \cup {[id |-> id[snd[c].r], r |-> snd[c].r]}
  /\ snd' = [snd EXCEPT ![c] = IF RegisterFirst THEN [@ EXCEPT !.st = "mid"] ELSE [st |-> "idle", r |-> 0]]
  /\ Did("Register", snd[c].r, c)
  /\ UNCHANGED <<p, rst, id, pending, waiters, wcs, srx, fifo, shd, hdone, wsc, val, nres, crashed, yseq>>

-----------------------------------------------------------------------------
(* SERVER, per connection -- _handle_connection (364-438)                                                          *)

\* read_record returns; `t = create_task(handle_request(path, data))` - the handler runs from now on
SrvReceive(c) ==
  /\ c \in Conn
  /\ srx[c] = NoRec /\ wcs[c] # <<>>
  /\ srx' = [srx EXCEPT ![c] = Head(wcs[c])] /\ wcs' = [wcs EXCEPT ![c] = Tail(@)]
  /\ Did("SrvReceive", Head(wcs[c]).r, c)
  /\ UNCHANGED <<p, rst, id, pending, waiters, snd, active, fifo, shd, hdone, wsc, val, nres, crashed, yseq>>

\* `await reqs.put((req_id, t))` - blocks while `backlog` tasks are queued
SrvAdmit(c) ==
  /\ c \in Conn
  /\ srx[c] # NoRec /\ Len(fifo[c]) < p.B
  /\ fifo' = [fifo EXCEPT ![c] = Append(@, srx[c])] /\ srx' = [srx EXCEPT ![c] = NoRec]
  /\ Did("SrvAdmit", srx[c].r, c)
  /\ UNCHANGED <<p, rst, id, pending, waiters, snd, active, wcs, shd, hdone, wsc, val, nres, crashed, yseq>>

\* responder: `req_id, t = await reqs.get()`
SrvHead(c) ==
  /\ c \in Conn
  /\ shd[c] = NoRec /\ fifo[c] # <<>>
  /\ shd' = [shd EXCEPT ![c] = Head(fifo[c])] /\ fifo' = [fifo EXCEPT ![c] = Tail(@)]
  /\ Did("SrvHead", Head(fifo[c]).r, c)
  /\ UNCHANGED <<p, rst, id, pending, waiters, snd, active, wcs, srx, hdone, wsc, val, nres, crashed, yseq>>

AtServer(r) == \E c \in Conn : srx[c].r = r \/ shd[c].r = r \/ \E k \in 1..Len(fifo[c]) : fifo[c][k].r = r

\* the handler of ANY received request returns or raises next
HandlerFinish(r) ==
  /\ r \in Req
  /\ AtServer(r) /\ r \notin hdone
  /\ hdone' = hdone \cup {r}
  /\ Did("HandlerFinish", r, 0)
  /\ UNCHANGED <<p, rst, id, pending, waiters, snd, active, wcs, srx, fifo, shd, wsc, val, nres, crashed, yseq>>

\* `z = await t` (an exception becomes RemoteException(e)); `await write_record(writer, req_id, z)` - head of the FIFO only
Respond(c) ==
  /\ c \in Conn
  /\ shd[c] # NoRec /\ shd[c].r \in hdone
  /\ wsc' = [wsc EXCEPT ![c] = Append(@, shd[c])] /\ shd' = [shd EXCEPT ![c] = NoRec]
  /\ Did("Respond", shd[c].r, c)
  /\ UNCHANGED <<p, rst, id, pending, waiters, snd, active, wcs, srx, fifo, hdone, val, nres, crashed, yseq>>

-----------------------------------------------------------------------------
(* CLIENT RECEIVERS -- _keep_receiving (584-601)                                                                   *)

\* read_record returns (id, data); `fut = active.pop(id)`; `fut.set_result / set_exception(data)`
ClientReceive(c) ==
  /\ c \in Conn
  /\ ~crashed /\ wsc[c] # <<>>
  /\ LET m == Head(wsc[c]) IN
     /\ (LoopOrder /\ ~RegisterFirst) => ~(snd[c].st = "mid" /\ snd[c].r = m.r)
     /\ wsc' = [wsc EXCEPT ![c] = Tail(@)]
     /\ IF \E a \in active : a.id = m.id
          THEN LET a == CHOOSE a \in active : a.id = m.id IN
               /\ active' = active \ {a}
               /\ nres' = [nres EXCEPT ![a.r] = @ + 1]
               /\ IF nres[a.r] = 0 THEN val' = [val EXCEPT ![a.r] = m.r] /\ crashed' = crashed
                                   ELSE val' = val /\ crashed' = TRUE
               /\ Did("ClientReceive", a.r, c)
          ELSE /\ crashed' = TRUE /\ UNCHANGED <<active, nres, val>>
               /\ Did("ClientReceive", 0, c)
  /\ UNCHANGED <<p, rst, id, pending, waiters, snd, wcs, srx, fifo, shd, hdone, yseq>>

-----------------------------------------------------------------------------
AllReturned == \A r \in Req : rst[r] = "returned"

\* constant bounds for the quantifiers of Next / Fairness (the scenario `p` is a variable); Req, Conn select from them
AllReq == 1..8
AllConn == 1..2

\* exhaustive runs allocate the smallest free id (what an address-reusing allocator tends to do); without UniqueLiveIds any of two
IdChoice == IF UniqueLiveIds THEN (IF FreeIds = {} THEN {} ELSE {Min(FreeIds)}) ELSE {1, 2}
SubmitSome(r) == \E i \in IdChoice : Submit(r, i)

Next ==
  \/ \E r \in AllReq : SubmitSome(r)
  \/ \E r \in AllReq : Insert(r)
  \/ \E r \in AllReq : Block(r)
  \/ \E r \in AllReq : InsertWoken(r)
  \/ \E r \in AllReq : Return(r)
  \/ \E r \in AllReq : Yield(r)
  \/ \E r \in AllReq : HandlerFinish(r)
  \/ \E c \in AllConn : Take(c)
  \/ \E c \in AllConn : WriteRecord(c)
  \/ \E c \in AllConn : Register(c)
  \/ \E c \in AllConn : SrvReceive(c)
  \/ \E c \in AllConn : SrvAdmit(c)
  \/ \E c \in AllConn : SrvHead(c)
  \/ \E c \in AllConn : Respond(c)
  \/ \E c \in AllConn : ClientReceive(c)
  \/ (AllReturned /\ UNCHANGED vars)

Spec == Init /\ [][Next]_vars

Fairness ==
  /\ \A r \in AllReq : /\ WF_vars(SubmitSome(r)) /\ WF_vars(Insert(r)) /\ WF_vars(Block(r)) /\ WF_vars(InsertWoken(r))
                       /\ WF_vars(Return(r)) /\ WF_vars(Yield(r))
                       /\ WF_vars(HandlerFinish(r))
  /\ \A c \in AllConn : /\ WF_vars(Take(c)) /\ WF_vars(WriteRecord(c))
                        /\ WF_vars(Register(c)) /\ WF_vars(SrvReceive(c))
                        /\ WF_vars(SrvAdmit(c)) /\ WF_vars(SrvHead(c))
                        /\ WF_vars(Respond(c)) /\ WF_vars(ClientReceive(c))
FairSpec == Spec /\ Fairness

-----------------------------------------------------------------------------
IsPrefix(s, t) == Len(s) <= Len(t) /\ \A i \in 1..Len(s) : s[i] = t[i]

TypeOK ==
  /\ p.K \in 1..2 /\ p.B \in 1..8 /\ p.PC \in 1..8
  /\ \A r \in Req : p.cls[r] \in Classes
  /\ rst \in [Req -> {"new", "sub", "blocked", "woken", "queued", "returned"}]
  /\ \A c \in Conn : snd[c].st \in {"idle", "taken", "mid"}
  /\ \A r \in Req : nres[r] \in 0..2 /\ val[r] \in 0..R
  /\ \A c \in Conn : Len(fifo[c]) <= p.B

\* C18: the response (or the handler's exception) goes to exactly the request that caused it
RightRequest == \A r \in Req : val[r] # 0 => val[r] = r
\* ... at most once
AtMostOnce == \A r \in Req : nres[r] <= 1
\* ... and no response finds the dict without its future (the receiver would die, every later request would hang)
ClientAlive == ~crashed
\* a caller returns only with a resolved future
ReturnedResolved == \A r \in Req : rst[r] = "returned" => val[r] # 0
\* C18: stream preserves input order
StreamOrder == IsPrefix(yseq, p.stream)
\* handler calls in progress on one connection: at most backlog + 2 (one being admitted, one being awaited)
InProgressBound ==
  \A c \in Conn : Len(fifo[c]) + (IF srx[c] = NoRec THEN 0 ELSE 1) + (IF shd[c] = NoRec THEN 0 ELSE 1) <= p.B + 2

\* NOT part of C18: the pending queue respects the client's `backlog` (fails as found with more than one requester thread)
PendingBound == Len(pending) <= p.PC

\* C18 (liveness): every request is answered, whatever the order in which the handlers finish
AllAnswered == <>AllReturned

Trap_ResponseBeforeRegister == ~(\E c \in Conn : snd[c].st = "mid" /\ wsc[c] # <<>> /\ Head(wsc[c]).r = snd[c].r)
Trap_IdReused == ~(\E r, q \in Req : r # q /\ id[r] = id[q] /\ id[r] # 0)
Trap_HeadBlocksFinished == ~(\E c \in Conn : shd[c] # NoRec /\ shd[c].r \notin hdone /\ fifo[c] # <<>>
                                             /\ Head(fifo[c]).r \in hdone)
Trap_BacklogFull == ~(\E c \in Conn : srx[c] # NoRec /\ Len(fifo[c]) = p.B /\ wcs[c] # <<>>)
=============================================================================
