---------------------------- MODULE SingleLaneTrace ----------------------------
(* Validates recorded executions of the REAL mpservice._queues.SingleLane (mbt/bind/singlelane.py: one writer and   *)
(* one reader thread under detsched, line mode on _queues.py) against SingleLane.                                   *)
(* Silent as well: the lock-free look at `_closed` with which a call begins (`Begin`).                               *)
(* Logged: every call and its outcome, every acquire / release of the mutex, entering and leaving Condition.wait    *)
(* (with what it returned), every append / popleft of the deque (with the item and the new length), every notify    *)
(* (with the number of waiters it released).  Silent: the pure test of the queue (`Test`) and the moment a blocked   *)
(* waiter is released or gives up (`Woken`, `Timeout`) - revealed by the `Woke` event that follows.                 *)
EXTENDS SingleLane, Json, IOUtils, TLCExt

TraceLog == JsonDeserialize(IOEnv.TRACE_FILE)
VARIABLES tid, l
tvars == <<vars, tid, l>>

ParamOf(h) == [cap |-> h.cap, ops |-> h.ops, mayclose |-> h.mayclose]
Evs == TraceLog[tid].ev
E == Evs[l]
Is(name) == l <= Len(Evs) /\ E.ev = name
Adv == l' = l + 1 /\ tid' = tid
Silent == l' = l /\ tid' = tid
Same == UNCHANGED vars

TraceInit ==
  \E t \in 1..Len(TraceLog) :
     /\ tid = t /\ l = 1 /\ InitWith(ParamOf(TraceLog[t].p))
     /\ TLCSet(t, <<1, "init", "none">>)

TCall   == Is("Call") /\ Start(E.t) /\ Mode(E.t) = E.mode /\ Adv
TLock   == Is("Lock") /\ (Lock(E.t) \/ Reacq(E.t)) /\ Adv
TUnlock == Is("Unlock") /\ (WaitRelease(E.t) \/ Unlock(E.t)) /\ Adv
TWait   == Is("Wait") /\ pc[E.t] = "wait" /\ Same /\ Adv
TWoke   == Is("Woke") /\ Cleanup(E.t) /\ gotit[E.t] = E.gotit /\ Adv
TPut    == Is("Put") /\ IsW(E.t) /\ Mod(E.t) /\ Len(q') = E.qlen /\ q'[Len(q')] = <<E.w, E.n>> /\ Adv
TGet    == Is("Get") /\ ~IsW(E.t) /\ Mod(E.t) /\ Len(q') = E.qlen /\ Head(q) = <<E.w, E.n>> /\ Adv
TNotify == Is("Notify") /\ Notify(E.t) /\ E.n = Cardinality(sig') - Cardinality(sig) /\ Adv
TRet    == /\ Is("Ret") /\ Ret(E.t)
           /\ LET r == res[E.t][Len(res[E.t])] IN r.ok = E.ok /\ r.item = <<E.w, E.n>>
           /\ Adv
\* the run ended with threads blocked for ever: the model must be unable to move, too (and its invariants say why:
\* WaitsOnlyWhenFull / WaitsOnlyWhenEmpty - the blocked side's partner has finished)
TStuck  == /\ Is("Stuck") /\ (\A t \in Threads : ~ENABLED Step(t))
           /\ \A t \in Threads : (pc[t] = "waiting") = (t \in {E.blocked[i] : i \in 1..Len(E.blocked)})
           /\ Same /\ Adv
TClose == Is("Close") /\ Close /\ Adv
TAllDone == Is("AllDone") /\ (\A t \in Threads : pc[t] = "done") /\ Len(q) = E.qlen /\ mutex = 0 /\ Same /\ Adv

TSilent == (\E t \in Threads : Begin(t) \/ Test(t) \/ Woken(t) \/ Timeout(t)) /\ Silent

TraceNext == TClose \/ TCall \/ TLock \/ TUnlock \/ TWait \/ TWoke \/ TPut \/ TGet \/ TNotify \/ TRet \/ TStuck \/ TAllDone \/ TSilent
TraceSpec == TraceInit /\ [][TraceNext]_tvars

FailedInv ==
  IF ~Bound THEN "Bound" ELSE IF ~Fifo THEN "Fifo" ELSE IF ~NoUnderflow THEN "NoUnderflow"
  ELSE IF ~MutexSane THEN "MutexSane" ELSE IF ~NoGhostWaiter THEN "NoGhostWaiter"
  ELSE IF ~WaitsOnlyWhenFull THEN "WaitsOnlyWhenFull" ELSE IF ~WaitsOnlyWhenEmpty THEN "WaitsOnlyWhenEmpty" ELSE "none"

Progress ==
  IF FailedInv # "none"
    THEN TLCSet(tid, <<TLCGet(tid)[1], TLCGet(tid)[2], FailedInv>>) /\ FALSE
    ELSE IF TLCGet(tid)[1] < l
           THEN TLCSet(tid, <<l, <<pc, q, mutex, waitNF, waitNE, sig>>, TLCGet(tid)[3]>>)
           ELSE TRUE

Report ==
  \A t \in 1..Len(TraceLog) :
     PrintT(<<"VERDICT", t, TLCGet(t)[1], Len(TraceLog[t].ev), TLCGet(t)[2], TLCGet(t)[3]>>)
=============================================================================
