-------------------------- MODULE ServerCoreTrace --------------------------
(* Validates recorded executions of the real Server / AsyncServer (mbt/bind/servercore.py, detsched, exact event  *)
(* order, virtual time) against ServerCore.  Logged: ledger insert/pop (with the backlog), queue puts/gets, the     *)
(* gather thread's cancelled()/set_result, cancel(), and what each caller got.  Silent: lock traffic, the capacity  *)
(* test, wait time-outs, deadline expiry, the notification thread.                                                 *)
EXTENDS ServerCore, Json, IOUtils, TLCExt

TraceLog == JsonDeserialize(IOEnv.TRACE_FILE)
VARIABLES tid, l
tvars == <<vars, tid, l>>

Evs == TraceLog[tid].ev
E == Evs[l]
Is(name) == l <= Len(Evs) /\ E.ev = name
Step == l' = l + 1 /\ tid' = tid
Silent == l' = l /\ tid' = tid
Same == UNCHANGED vars

TraceInit ==
  \E t \in 1..Len(TraceLog) :
     /\ tid = t /\ l = 1 /\ InitWith(TraceLog[t].p.kinds)
     /\ TLCSet(t, <<1, "init", "none">>)

\* harness: caller r is about to call / stream source yields r
TStart   == Is("Start") /\ pc[E.r] = "start" /\ Same /\ Step
\* `pipeline[uid] = fut`, `_input_buffer.put((uid, x))` - whichever comes first is CallerFirst
TRecord  == /\ Is("Record")
            /\ \/ LedgerFirst /\ CallerFirst(E.r)
               \/ ~LedgerFirst /\ CallerSecond(E.r)
            /\ Cardinality(ledger') = E.backlog
            /\ Step
TInPut   == /\ Is("InPut")
            /\ \/ LedgerFirst /\ CallerSecond(E.r)
               \/ ~LedgerFirst /\ CallerFirst(E.r)
            /\ Step
TWCall   == Is("WCall") /\ E.r \in inflight /\ Same /\ Step
TOutPut  == Is("OutPut") /\ PipeFinish(E.r) /\ Step
TOutGet  == Is("OutGet") /\ GatherGet /\ gr' = E.r /\ Step
TPop     == /\ Is("Pop") /\ gr = E.r
            /\ \/ E.hit /\ GatherPop
               \/ ~E.hit /\ GatherMiss
            /\ Cardinality(ledger') = E.backlog
            /\ Step
TIsCanc  == Is("IsCancelled") /\ gr = E.r /\ GatherCheck /\ E.val = (fut[E.r] = "cancelled") /\ Step
TSet     == /\ Is("Set")
            /\ \/ ~Async /\ gr = E.r /\ GatherSet /\ E.ok = (fut[E.r] # "cancelled")
               \/ Async /\ LoopSet(E.r) /\ E.ok = (fut[E.r] = "pending")
            /\ Step
\* cancel(): by a timed-out caller, by fifo_stream's finalizer, or (asyncio) by wait_for itself before our own cancel
TCancel  == /\ Is("Cancel")
            /\ \/ CallerCancel(E.r) /\ E.did = (fut[E.r] = "pending")
               \/ StreamAbandon(E.r) /\ E.did = (fut[E.r] = "pending")
               \/ pc[E.r] \in {"timedout", "abandoned"} /\ ~E.did /\ fut[E.r] # "pending" /\ Same   \* repeated cancel
            /\ Step
\* what the caller observed
TRet     == /\ Is("Ret")
            /\ \/ E.out = "done" /\ pc[E.r] = "done"
               \/ E.out = "rejected" /\ pc[E.r] = "rejected"
               \/ E.out = "timedout" /\ pc[E.r] = "timedout"
            /\ ~E.late           \* C06: a rejected / timed-out caller is back by its deadline (virtual time, exact)
            /\ Same /\ Step
\* harness: after a long quiet period the server must be idle with an empty ledger
TIdle    == /\ Is("Idle") /\ inflight = {} /\ outq = <<>> /\ gpc = "get" /\ notifq = 0
            /\ E.backlog = 0 /\ ledger = {}
            /\ Same /\ Step
\* harness: __exit__ returned, no server thread is left
TExit    == Is("Exit") /\ gpc # "dead" /\ E.leftover = 0 /\ Same /\ Step

\* the capacity condition: lock acquired by caller r (first time, or after wait() was notified / timed out)
TLock    == Is("Lock") /\ pc[E.r] = "start" /\ CallerLock(E.r) /\ Step
\* wait(): the backlog was full and the caller is not in backpressure mode
TWait    == Is("Wait") /\ CallerCheck(E.r) /\ pc'[E.r] = "waiting" /\ Step
\* wait() returned, with the lock: notified (ok) or timed out
TWoke    == /\ Is("Woke") /\ CallerLock(E.r)
            /\ \/ E.ok /\ pc[E.r] = "notified"
               \/ ~E.ok /\ pc[E.r] = "wleft"
            /\ Step
TNotify  == Is("Notify") /\ Notify /\ Step

TSilent  == /\ \/ \E r \in Req : \/ (CallerCheck(r) /\ pc'[r] # "waiting")
                                 \/ CallerWaitTimeout(r) \/ CallerWaitLeave(r) \/ CallerWaitReject(r)
                                 \/ CallerNoTimeLeft(r)
                                 \/ CallerGotResult(r) \/ CallerDeadline(r)
               \/ GatherNotify
            /\ Silent

TraceNext == TStart \/ TRecord \/ TInPut \/ TWCall \/ TOutPut \/ TOutGet \/ TPop \/ TIsCanc \/ TSet \/ TCancel
             \/ TRet \/ TIdle \/ TExit \/ TLock \/ TWait \/ TWoke \/ TNotify \/ TSilent
TraceSpec == TraceInit /\ [][TraceNext]_tvars

FailedInv ==
  IF ~CapacityInv THEN "CapacityInv" ELSE IF ~RejectClean THEN "RejectClean"
  ELSE IF ~NoLostResponse THEN "NoLostResponse" ELSE IF ~GatherAlive THEN "GatherAlive"
  ELSE IF ~OwnResult THEN "OwnResult" ELSE "none"

Progress ==
  IF FailedInv # "none"
    THEN TLCSet(tid, <<TLCGet(tid)[1], TLCGet(tid)[2], FailedInv>>) /\ FALSE
    ELSE IF TLCGet(tid)[1] < l
           THEN TLCSet(tid, <<l, <<pc, lock, ledger, inflight, outq, gpc, gr, fut>>, TLCGet(tid)[3]>>)
           ELSE TRUE

Report ==
  \A t \in 1..Len(TraceLog) :
     PrintT(<<"VERDICT", t, TLCGet(t)[1], Len(TraceLog[t].ev), TLCGet(t)[2], TLCGet(t)[3]>>)
=============================================================================
