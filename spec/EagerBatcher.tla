----------------------------- MODULE EagerBatcher -----------------------------
(***************************************************************************)
(* C19 - EagerBatcher.__iter__ (streamer/_streamer.py 801-874), timed.     *)
(*                                                                         *)
(* A producer puts items 1..n and then the end marker into a queue at the  *)
(* times of the arrival schedule `p.arr`.  The batcher loop:               *)
(*     z = q.get()                       GetFirst / SeeEnd   (blocks)      *)
(*     deadline = now + W                                                  *)
(*     while n < b: z = q.get(timeout=max(0, deadline-now))                *)
(*                                       GetMore / SeeEnd / TimerExpire    *)
(*     yield batch                       Yield                             *)
(* Time is the integer `now`; it advances (Tick) only while every role is  *)
(* blocked: the producer until its next arrival time, the batcher in a     *)
(* get() on an empty queue.  Everything else takes no time.                *)
(*                                                                         *)
(* p.eager = TRUE  is the single-threaded harness queue of the spec->code  *)
(*   leg: an arrival whose time has come is in the queue before the        *)
(*   batcher makes its next move (so the model is deterministic and an     *)
(*   arrival exactly AT the deadline is still taken);                      *)
(* p.eager = FALSE is a real queue.Queue fed by a producer thread: a put   *)
(*   and a batcher step that fall on the same instant happen in either     *)
(*   order (an arrival exactly at the deadline may win or lose the race    *)
(*   against the timeout).                                                 *)
(***************************************************************************)
EXTENDS Integers, Sequences, FiniteSets, TLC, Json

CONSTANTS
  MaxItems,   \* items before the end marker: 0..MaxItems
  Gaps,       \* set of inter-arrival gaps
  BSizes,     \* set of batch sizes
  Waits,      \* set of batch_wait_time values
  EagerModes, \* subset of BOOLEAN
  Variant,    \* "code" = the design of the code.  Two deliberately different designs exist only so that TLC can show
              \* that the properties tell them apart (vacuity guard): "restart" restarts the timer with every item,
              \* "strict" lets the timeout win over items that are already queued
  Export      \* print the outcome of every finished eager behaviour

VARIABLES
  p,         \* [b, w, custom, eager, arr]; arr = sequence of [t |-> arrival time, x |-> item number, 0 = end marker]
  now,
  nput,      \* arrivals already put into the queue
  nget,      \* arrivals already taken by the batcher    (queue content = arr[nget+1 .. nput])
  pc,        \* "first" | "more" | "yield" | "done"
  batch,     \* item numbers collected for the current batch
  first,     \* time the first item of the current batch was obtained
  deadline,  \* first + w
  endSeen,   \* the end marker has been read
  out,       \* history of yields: [items, t, first, fi (index in arr of the first item), end (cut by the end marker)]
  act        \* last action (for the binder)

vars == <<p, now, nput, nget, pc, batch, first, deadline, endSeen, out, act>>

Min(a, b) == IF a < b THEN a ELSE b
Max(a, b) == IF a > b THEN a ELSE b

RECURSIVE SumTo(_, _)
SumTo(g, k) == IF k = 0 THEN 0 ELSE g[k] + SumTo(g, k - 1)

\* n items then the end marker; gaps g[1..n+1] between consecutive arrivals (g[1] from time 0)
Schedule(n, g) == [k \in 1..(n + 1) |-> [t |-> SumTo(g, k), x |-> IF k = n + 1 THEN 0 ELSE k]]

InitWith(c) ==
  /\ p = c /\ now = 0 /\ nput = 0 /\ nget = 0 /\ pc = "first" /\ batch = <<>> /\ first = 0 /\ deadline = 0
  /\ endSeen = FALSE /\ out = <<>> /\ act = "Init"

Init ==
  \E n \in 0..MaxItems : \E g \in [1..(n + 1) -> Gaps] : \E b \in BSizes, w \in Waits, cu \in BOOLEAN, ea \in EagerModes :
     InitWith([b |-> b, w |-> w, custom |-> cu, eager |-> ea, arr |-> Schedule(n, g)])

Arr == p.arr
PutEnabled == nput < Len(Arr) /\ Arr[nput + 1].t <= now
QEmpty == nget = nput
Front == Arr[nget + 1]
BatcherMay == ~p.eager \/ ~PutEnabled      \* harness queue: due arrivals are delivered first

-----------------------------------------------------------------------------
\* producer: `q.put(item)` at its arrival time
Put ==
  /\ PutEnabled
  /\ nput' = nput + 1 /\ act' = "Put"
  /\ UNCHANGED <<p, now, nget, pc, batch, first, deadline, endSeen, out>>

\* `z = q_in.get()` returns an item: it opens a batch and starts the timer
GetFirst ==
  /\ pc = "first" /\ ~QEmpty /\ BatcherMay /\ Front.x # 0
  /\ nget' = nget + 1 /\ batch' = << Front.x >> /\ first' = now /\ deadline' = now + p.w
  /\ pc' = IF p.b = 1 THEN "yield" ELSE "more"
  /\ act' = "GetFirst"
  /\ UNCHANGED <<p, now, nput, endSeen, out>>

\* `z = q_in.get(timeout=max(0, deadline - now))` returns an item: it arrived at or before the deadline, or it was
\* already in the queue (then it is taken even past the deadline)
GetMore ==
  /\ pc = "more" /\ ~QEmpty /\ BatcherMay /\ Front.x # 0
  /\ nget' = nget + 1 /\ batch' = Append(batch, Front.x)
  /\ pc' = IF Len(batch) + 1 = p.b THEN "yield" ELSE "more"
  /\ deadline' = IF Variant = "restart" THEN now + p.w ELSE deadline
  /\ act' = "GetMore"
  /\ UNCHANGED <<p, now, nput, first, endSeen, out>>

\* either get returns the end marker: a pending batch is flushed, then the iteration ends
SeeEnd ==
  /\ pc \in {"first", "more"} /\ ~QEmpty /\ BatcherMay /\ Front.x = 0
  /\ nget' = nget + 1 /\ endSeen' = TRUE
  /\ pc' = IF pc = "first" THEN "done" ELSE "yield"
  /\ act' = "SeeEnd"
  /\ UNCHANGED <<p, now, nput, batch, first, deadline, out>>

\* the timed get finds the queue empty at (or after) the deadline: queue.Empty
TimerExpire ==
  /\ pc = "more" /\ (QEmpty \/ Variant = "strict") /\ now >= deadline /\ BatcherMay
  /\ pc' = "yield" /\ act' = "TimerExpire"
  /\ UNCHANGED <<p, now, nput, nget, batch, first, deadline, endSeen, out>>

Yield ==
  /\ pc = "yield" /\ BatcherMay
  /\ out' = Append(out, [items |-> batch, t |-> now, first |-> first, fi |-> batch[1], end |-> endSeen])
  /\ batch' = <<>>
  /\ pc' = IF endSeen THEN "done" ELSE "first"
  /\ act' = "Yield"
  /\ UNCHANGED <<p, now, nput, nget, first, deadline, endSeen>>

\* time passes only while the producer sleeps and the batcher is blocked in a get on the empty queue
BatcherBlocked == QEmpty /\ (pc = "first" \/ (pc = "more" /\ now < deadline))
NextTime ==
  IF nput < Len(Arr)
    THEN (IF pc = "more" THEN Min(Arr[nput + 1].t, deadline) ELSE Arr[nput + 1].t)
    ELSE deadline
Tick ==
  /\ ~PutEnabled /\ BatcherBlocked
  /\ (nput < Len(Arr) \/ pc = "more")
  /\ now' = NextTime /\ act' = "Tick"
  /\ UNCHANGED <<p, nput, nget, pc, batch, first, deadline, endSeen, out>>

\* the iteration is over (terminal state; every other state without a successor is a deadlock = a hang)
Done == pc = "done" /\ UNCHANGED vars

Next == Put \/ GetFirst \/ GetMore \/ SeeEnd \/ TimerExpire \/ Yield \/ Tick \/ Done

Spec == Init /\ [][Next]_vars

-----------------------------------------------------------------------------
(* PROPERTIES                                                              *)
NItems == Len(Arr) - 1
EndIdx == Len(Arr)

TypeOK ==
  /\ nget <= nput /\ nput <= Len(Arr) /\ pc \in {"first", "more", "yield", "done"}
  /\ Len(batch) <= p.b /\ now >= 0

RECURSIVE Concat(_, _)
Concat(o, k) == IF k = 0 THEN <<>> ELSE Concat(o, k - 1) \o o[k].items

\* the batches (and the batch being collected) are consecutive pieces of the input, in order; at the end: all of it
Partition ==
  LET got == Concat(out, Len(out)) \o batch
      n   == nget - (IF endSeen THEN 1 ELSE 0) IN
  /\ got = [i \in 1..n |-> i]
  /\ pc = "done" => /\ batch = <<>> /\ endSeen /\ Len(got) = NItems

BatchSize == \A k \in 1..Len(out) : Len(out[k].items) \in 1..p.b

\* a batch with fewer than b items is yielded only if the end marker was read, or at first + w with no further
\* arrival up to then (with a real queue an arrival exactly at first + w may lose the race against the timeout)
EmitRule ==
  \A k \in 1..Len(out) :
    LET r   == out[k]
        nxt == Arr[r.fi + Len(r.items)] IN      \* the arrival following the batch's last item (exists: end marker)
    Len(r.items) < p.b =>
      \/ r.end
      \/ /\ r.t = r.first + p.w
         /\ IF p.eager THEN nxt.t > r.first + p.w ELSE nxt.t >= r.first + p.w

\* no delay: the first item of a batch is obtained the moment it is there and the batcher is free, and the batch is
\* yielded at exactly min(time it fills, time the end marker is there, first + w)
INF == 1000000
NoDelay ==
  \A k \in 1..Len(out) :
    LET r     == out[k]
        free  == IF k = 1 THEN 0 ELSE out[k - 1].t
        fill  == r.fi + p.b - 1
        tFill == IF fill < EndIdx THEN Max(Arr[fill].t, r.first) ELSE INF
        tEnd  == Max(Arr[EndIdx].t, r.first)
        tW    == r.first + p.w IN
    /\ r.first = Max(Arr[r.fi].t, free)
    /\ r.t = Min(tFill, Min(tEnd, tW))

-----------------------------------------------------------------------------
(* EXPORT of the (unique) behaviour of every eager scenario, for the spec -> code leg:                          *)
(* <<b, w, custom, arrival times (last = end marker), yields <<t, first, items>> >>                            *)
ExportI ==
  IF Export /\ p.eager /\ pc = "done"
    THEN PrintT(ToJson(<< p.b, p.w, p.custom, [k \in 1..Len(Arr) |-> Arr[k].t],
                          [k \in 1..Len(out) |-> << out[k].t, out[k].first, out[k].items >>] >>))
    ELSE TRUE
=============================================================================
