-------------------------------- MODULE Tee --------------------------------
(***************************************************************************)
(* streamer/_tee.py: `tee(instream, n, buffer_size=B)`.  n Fork iterators   *)
(* share the source iterator, a lock around it, a chain of boxes (TeeX)     *)
(* linked through `.next`, and a counting queue (`buffer`, bound B) that    *)
(* limits how far the fastest fork may run ahead of the slowest.            *)
(*                                                                         *)
(* One action per source line of Fork.__next__ that touches shared state,  *)
(* so that preemption between any two lines is explored:                    *)
(*   L1  self.next is None ?            L10 while self.next.next is None    *)
(*   L2  head.value is None ?           L11 instream_lock.acquire(timeout)  *)
(*   L3  take instream_lock             L12 re-test self.next.next          *)
(*   L4  re-test head.value             L13 x = next(instream)              *)
(*   L5  x = next(instream)             L14 self.next.next = box            *)
(*   L6  buffer.put(box)                L15 buffer.put(box)                 *)
(*   L7  head.value = box; unlock       L16 instream_lock.release()         *)
(*   L8/L9 self.next = head.value       L17 box.n += 1; maybe buffer.get()  *)
(*                                      L19 self.next = box.next; return    *)
(*                                                                         *)
(* Flags (FALSE = code as found, TRUE = repaired):                          *)
(*   FirstTimed          first-element path takes the lock with the same    *)
(*                       timed, re-testing loop as the prefetch path        *)
(*                       (as found: unconditional `with lock` -> wedge, D8) *)
(*   ReleaseOnRaise      lock released when the source raises in the        *)
(*                       prefetch path (as found: leaked, peers spin; D9a)  *)
(*   PublishSourceError  the source's exception is linked into the chain as *)
(*                       a terminal box: every fork raises it after having  *)
(*                       yielded every element (as found: the prefetching   *)
(*                       fork raises one element early, peers see           *)
(*                       exhaustion; D9b, D9c)                              *)
(***************************************************************************)
EXTENDS Naturals, Sequences, FiniteSets, TLC

CONSTANTS NF, MaxN, MaxB, FirstTimed, ReleaseOnRaise, PublishSourceError

VARIABLES
  p,        \* [n, srcfail, b]: source length, failing pull (0 = never), buffer_size
  srcPos,   \* successful pulls so far
  srcDead,  \* the source generator has raised (a later next() gives StopIteration)
  linked,   \* linked[i]: box i is reachable through `.next` of box i-1 (box 1: through head.value)
  term,     \* index of the terminal (error) box, 0 = none   [PublishSourceError]
  cnt,      \* cnt[i]: how many forks have consumed box i
  buf,      \* number of boxes in the counting queue
  lock,     \* holder of instream_lock (0 = free)
  pc, nx, st, hx, got, ended
            \* per fork: program counter, self.next (0 = None), self._state, element in hand,
            \* yielded values, how the fork ended ("no" | "stop" | "exc")

vars == <<p, srcPos, srcDead, linked, term, cnt, buf, lock, pc, nx, st, hx, got, ended>>
shared == <<p, srcPos, srcDead, linked, term, cnt, buf, lock>>

Forks == 1..NF
SrcLen == IF p.srcfail = 0 THEN p.n ELSE p.srcfail - 1
Min(S) == CHOOSE x \in S : \A y \in S : x <= y

Params == { c \in [n : 0..MaxN, srcfail : 0..(MaxN+1), b : 2..MaxB] :
              /\ c.srcfail <= c.n + 1 /\ (c.srcfail # 0 => c.n = MaxN) }

InitWith(c) ==
  /\ p = c /\ srcPos = 0 /\ srcDead = FALSE
  /\ linked = [i \in 1..(MaxN+1) |-> FALSE] /\ term = 0
  /\ cnt = [i \in 1..(MaxN+1) |-> 0] /\ buf = 0 /\ lock = 0
  /\ pc = [f \in Forks |-> "idle"] /\ nx = [f \in Forks |-> 0] /\ st = [f \in Forks |-> 0]
  /\ hx = [f \in Forks |-> 0] /\ got = [f \in Forks |-> <<>>] /\ ended = [f \in Forks |-> "no"]

Init == \E c \in Params : InitWith(c)

Goto(f, l) == pc' = [pc EXCEPT ![f] = l]
End(f, how) == pc' = [pc EXCEPT ![f] = "done"] /\ ended' = [ended EXCEPT ![f] = how]

\* outcome of `next(self.instream)`
SrcHasNext == srcPos < SrcLen /\ ~srcDead
SrcRaises  == srcPos = SrcLen /\ p.srcfail # 0 /\ ~srcDead
SrcStops   == (srcPos = SrcLen /\ p.srcfail = 0) \/ srcDead

-----------------------------------------------------------------------------
\* the user asks the fork for its next element
Call(f) == /\ pc[f] = "idle" /\ Goto(f, "L1")
           /\ UNCHANGED <<shared, nx, st, hx, got, ended>>

L1(f) == /\ pc[f] = "L1"
         /\ Goto(f, IF nx[f] = 0 THEN "L2" ELSE "L10")
         /\ UNCHANGED <<shared, nx, st, hx, got, ended>>

\* `if self.head.value is None:` / `elif self._state == 0:` / `else: raise StopIteration`
L2(f) == /\ pc[f] = "L2"
         /\ IF ~linked[1] THEN Goto(f, "L3") /\ ended' = ended
            ELSE IF st[f] = 0 THEN Goto(f, "L9") /\ ended' = ended
            ELSE End(f, "stop")
         /\ UNCHANGED <<shared, nx, st, hx, got>>

\* `with self.instream_lock:`  as found: blocks until the lock is free.
\* repaired: timed acquisition inside `while self.head.value is None`, so a failed attempt re-tests the head
L3(f) == /\ pc[f] = "L3"
         /\ \/ lock = 0 /\ lock' = f /\ Goto(f, "L4")
            \/ FirstTimed /\ lock # 0 /\ lock' = lock /\ Goto(f, "L2")
         /\ UNCHANGED <<p, srcPos, srcDead, linked, term, cnt, buf, nx, st, hx, got, ended>>

L4(f) == /\ pc[f] = "L4" /\ lock = f
         /\ Goto(f, IF ~linked[1] THEN "L5" ELSE "L7r")
         /\ UNCHANGED <<shared, nx, st, hx, got, ended>>

\* `x = next(self.instream)` for the very first element (exceptions leave the `with` block: lock released)
L5(f) == /\ pc[f] = "L5" /\ lock = f
         /\ \/ SrcHasNext /\ srcPos' = srcPos + 1 /\ hx' = [hx EXCEPT ![f] = srcPos + 1] /\ Goto(f, "L6")
               /\ UNCHANGED <<srcDead, lock, linked, term, ended>>
            \/ SrcStops /\ lock' = 0 /\ End(f, "stop") /\ UNCHANGED <<srcPos, srcDead, hx, linked, term>>
            \/ SrcRaises /\ srcDead' = TRUE
               /\ IF PublishSourceError
                    THEN Goto(f, "L5x") /\ UNCHANGED <<srcPos, hx, lock, linked, term, ended>>
                    ELSE lock' = 0 /\ End(f, "exc") /\ UNCHANGED <<srcPos, hx, linked, term>>
         /\ UNCHANGED <<p, cnt, buf, nx, st, got>>

\* repaired: `except Exception as e: self.head.value = TeeX(None, exc=e)` (then the lock is released)
L5x(f) == /\ pc[f] = "L5x" /\ lock = f
          /\ linked' = [linked EXCEPT ![1] = TRUE] /\ term' = 1 /\ Goto(f, "L7r")
          /\ UNCHANGED <<p, srcPos, srcDead, cnt, buf, lock, nx, st, hx, got, ended>>

L6(f) == /\ pc[f] = "L6" /\ lock = f /\ buf < p.b
         /\ buf' = buf + 1 /\ Goto(f, "L7")
         /\ UNCHANGED <<p, srcPos, srcDead, linked, term, cnt, lock, nx, st, hx, got, ended>>

\* `self.head.value = box`, leaving the `with` block
L7(f) == /\ pc[f] = "L7" /\ lock = f
         /\ linked' = [linked EXCEPT ![1] = TRUE] /\ lock' = 0 /\ hx' = [hx EXCEPT ![f] = 0] /\ Goto(f, "L8")
         /\ UNCHANGED <<p, srcPos, srcDead, term, cnt, buf, nx, st, got, ended>>
L7r(f) == /\ pc[f] = "L7r" /\ lock = f
          /\ lock' = 0 /\ Goto(f, "L8")
          /\ UNCHANGED <<p, srcPos, srcDead, linked, term, cnt, buf, nx, st, hx, got, ended>>

\* `self.next = self.head.value; return self.__next__()`
L8(f) == /\ pc[f] \in {"L8", "L9"}
         /\ nx' = [nx EXCEPT ![f] = 1] /\ Goto(f, "L1")
         /\ UNCHANGED <<shared, st, hx, got, ended>>

\* `while self.next.next is None:`   (repaired: a terminal box raises the source's exception here)
L10(f) == /\ pc[f] = "L10"
          /\ IF term = nx[f] /\ term # 0 THEN End(f, "exc")
             ELSE /\ Goto(f, IF linked[nx[f] + 1] THEN "L17" ELSE "L11") /\ ended' = ended
          /\ UNCHANGED <<shared, nx, st, hx, got>>

\* `locked = self.instream_lock.acquire(timeout=0.1)`
L11(f) == /\ pc[f] = "L11"
          /\ \/ lock = 0 /\ lock' = f /\ Goto(f, "L12")
             \/ lock # 0 /\ lock' = lock /\ Goto(f, "L10")
          /\ UNCHANGED <<p, srcPos, srcDead, linked, term, cnt, buf, nx, st, hx, got, ended>>

L12(f) == /\ pc[f] = "L12" /\ lock = f
          /\ Goto(f, IF linked[nx[f] + 1] THEN "L16" ELSE "L13")
          /\ UNCHANGED <<shared, nx, st, hx, got, ended>>

\* `x = next(self.instream)` in the prefetch path
L13(f) == /\ pc[f] = "L13" /\ lock = f
          /\ \/ SrcHasNext /\ srcPos' = srcPos + 1 /\ hx' = [hx EXCEPT ![f] = srcPos + 1] /\ Goto(f, "L14")
                /\ UNCHANGED <<srcDead, lock, linked, term, ended>>
             \/ SrcStops /\ Goto(f, "L16") /\ UNCHANGED <<srcPos, srcDead, hx, lock, linked, term, ended>>
             \/ SrcRaises /\ srcDead' = TRUE
                /\ IF PublishSourceError
                     THEN Goto(f, "L13x") /\ UNCHANGED <<srcPos, hx, lock, linked, term, ended>>
                     ELSE /\ lock' = IF ReleaseOnRaise THEN 0 ELSE lock
                          /\ End(f, "exc") /\ UNCHANGED <<srcPos, hx, linked, term>>
          /\ UNCHANGED <<p, cnt, buf, nx, st, got>>

\* repaired: `except Exception as e: self.next.next = TeeX(None, exc=e)`
L13x(f) == /\ pc[f] = "L13x" /\ lock = f
           /\ linked' = [linked EXCEPT ![nx[f] + 1] = TRUE] /\ term' = nx[f] + 1 /\ Goto(f, "L16")
           /\ UNCHANGED <<p, srcPos, srcDead, cnt, buf, lock, nx, st, hx, got, ended>>

\* `self.next.next = box`  - before the put, so that a peer can already move on
L14(f) == /\ pc[f] = "L14" /\ lock = f
          /\ linked' = [linked EXCEPT ![hx[f]] = TRUE] /\ Goto(f, "L15")
          /\ UNCHANGED <<p, srcPos, srcDead, term, cnt, buf, lock, nx, st, hx, got, ended>>

\* `self.buffer.put(box)` - blocks while the window is full, HOLDING instream_lock
L15(f) == /\ pc[f] = "L15" /\ lock = f /\ buf < p.b
          /\ buf' = buf + 1 /\ hx' = [hx EXCEPT ![f] = 0] /\ Goto(f, "L16")
          /\ UNCHANGED <<p, srcPos, srcDead, linked, term, cnt, lock, nx, st, got, ended>>

L16(f) == /\ pc[f] = "L16" /\ lock = f
          /\ lock' = 0 /\ Goto(f, "L17")
          /\ UNCHANGED <<p, srcPos, srcDead, linked, term, cnt, buf, nx, st, hx, got, ended>>

\* `with box.lock: box.n += 1; if box.n == n_forks: self.buffer.get()`
L17(f) == /\ pc[f] = "L17"
          /\ cnt' = [cnt EXCEPT ![nx[f]] = @ + 1]
          /\ IF cnt[nx[f]] + 1 = NF THEN buf > 0 /\ buf' = buf - 1 ELSE buf' = buf
          /\ Goto(f, "L19")
          /\ UNCHANGED <<p, srcPos, srcDead, linked, term, lock, nx, st, hx, got, ended>>

\* `self.next = box.next; self._state = 1; return box.value`
L19(f) == /\ pc[f] = "L19"
          /\ got' = [got EXCEPT ![f] = Append(@, nx[f])]
          /\ nx' = [nx EXCEPT ![f] = IF linked[nx[f] + 1] THEN nx[f] + 1 ELSE 0]
          /\ st' = [st EXCEPT ![f] = 1] /\ Goto(f, "idle")
          /\ UNCHANGED <<shared, hx, ended>>

Step(f) == Call(f) \/ L1(f) \/ L2(f) \/ L3(f) \/ L4(f) \/ L5(f) \/ L5x(f) \/ L13x(f) \/ L6(f) \/ L7(f) \/ L7r(f) \/ L8(f) \/ L10(f)
           \/ L11(f) \/ L12(f) \/ L13(f) \/ L14(f) \/ L15(f) \/ L16(f) \/ L17(f) \/ L19(f)

AllDone == \A f \in Forks : pc[f] = "done"
Next == (\E f \in Forks : Step(f)) \/ (AllDone /\ UNCHANGED vars)
Spec == Init /\ [][Next]_vars
\* every fork keeps being consumed
FairSpec == Spec /\ \A f \in Forks : WF_vars(Step(f))

-----------------------------------------------------------------------------
TypeOK == /\ srcPos \in 0..MaxN /\ buf \in 0..MaxB /\ lock \in 0..NF /\ term \in 0..(MaxN+1)
          /\ \A f \in Forks : nx[f] \in 0..(MaxN+1) /\ hx[f] \in 0..MaxN /\ st[f] \in 0..1
                              /\ ended[f] \in {"no", "stop", "exc"}

\* C10: each fork yields the source's elements, in order
ForkPrefix == \A f \in Forks : \A k \in 1..Len(got[f]) : got[f][k] = k /\ Len(got[f]) <= SrcLen
\* C10: a fork ends the way the source ended, after having yielded everything the source produced
EndAgree == \A f \in Forks :
               /\ ended[f] = "stop" => p.srcfail = 0 /\ Len(got[f]) = p.n
               /\ ended[f] = "exc" => p.srcfail # 0 /\ Len(got[f]) = SrcLen
\* C10: the source is never pulled more than buffer_size + 2 elements beyond the slowest fork
Window == srcPos - Min({Len(got[f]) : f \in Forks}) <= p.b + 2
BufBound == buf <= p.b
\* the source lock is free when no fork is inside a locked region
LockSane == lock # 0 => pc[lock] \in {"L4", "L5", "L5x", "L6", "L7", "L7r", "L12", "L13", "L13x", "L14", "L15", "L16"}
\* C10: no fork blocks forever as long as every fork keeps being consumed (checked under FairSpec)
AllEnd == <>AllDone

Trap_Wedge == ~(\E f, g \in Forks : pc[f] = "L3" /\ pc[g] = "L15" /\ lock = g /\ buf = p.b)
Trap_WindowFull == ~(buf = p.b /\ \E f \in Forks : pc[f] = "L15")
Trap_FailWhileLocked == ~(\E f \in Forks : pc[f] = "L13" /\ SrcRaises)
=============================================================================
