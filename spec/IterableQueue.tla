--------------------------- MODULE IterableQueue ---------------------------
(***************************************************************************)
(* mpservice/queue.py: IterableQueue over a (possibly bounded) FIFO queue   *)
(* with M suppliers and NC consumers.  Three helper "token" queues (spare,  *)
(* applied, used; M tokens in total) count how many suppliers have ended;   *)
(* `None` in the main queue is the end marker.  One action per queue        *)
(* operation of put / put_end / __next__ / renew.                           *)
(*                                                                         *)
(* Flag ExtraOnce: FALSE = code as found: `used.put(z)` followed by         *)
(* `if used.full(): put(None)` is not atomic, so two consumers can both     *)
(* add the extra end marker; the surplus marker poisons the round after     *)
(* renew() (premature end, lost items) - D14.  TRUE = repaired: the extra   *)
(* marker is added by the one consumer that wins a one-slot claim token.    *)
(*                                                                         *)
(* Stop requests (ResponsiveQueue): a blocked get/put observes the stop     *)
(* flag and raises StopRequested.                                           *)
(***************************************************************************)
EXTENDS Naturals, Sequences, FiniteSets, TLC

CONSTANTS M, NC, K, Rounds, QBound, ExtraOnce, MayStop
\* K items per supplier and round; QBound = 0 means unbounded; MayStop: a stop request may arrive at any time

VARIABLES
  round,      \* current round 1..Rounds
  q,          \* main queue: sequence of <<s, k, r>> items and "none" markers ([t |-> ...])
  spare, applied, used, claim,   \* token counts (claim: 1 = extra marker not yet added in this round)
  spc, left,  \* per supplier: pc and number of items still to put
  cpc,        \* per consumer: pc
  recv,       \* recv[c]: set of items consumer c received in the current round
  allrecv,    \* history: every item ever received (to detect double delivery)
  dup,        \* an item was received twice / out of round
  rpc,        \* renew pc: "idle" | "R2" | "R3"
  stop,       \* stop requested
  bad         \* "none" or the name of an internal error the code would raise (RuntimeError)

vars == <<round, q, spare, applied, used, claim, spc, left, cpc, recv, allrecv, dup, rpc, stop, bad>>

Sup == 1..M
Con == 1..NC
Item(s, k, r) == [t |-> "item", s |-> s, k |-> k, r |-> r]
Marker == [t |-> "none", s |-> 0, k |-> 0, r |-> 0]
Full == QBound # 0 /\ Len(q) >= QBound
Items(r) == {Item(s, k, r) : s \in Sup, k \in 1..K}

Init ==
  /\ round = 1 /\ q = <<>> /\ spare = M /\ applied = 0 /\ used = 0 /\ claim = 1
  /\ spc = [s \in Sup |-> "put"] /\ left = [s \in Sup |-> K]
  /\ cpc = [c \in Con |-> "N1"] /\ recv = [c \in Con |-> {}] /\ allrecv = {} /\ dup = FALSE
  /\ rpc = "idle" /\ stop = FALSE /\ bad = "none"

-----------------------------------------------------------------------------
(* SUPPLIER: put(x) ...; put_end()                                          *)
SupPut(s) ==
  /\ spc[s] = "put" /\ left[s] > 0 /\ ~Full
  /\ q' = Append(q, Item(s, K - left[s] + 1, round)) /\ left' = [left EXCEPT ![s] = @ - 1]
  /\ UNCHANGED <<round, spare, applied, used, claim, spc, cpc, recv, allrecv, dup, rpc, stop, bad>>

SupEndStart(s) ==
  /\ spc[s] = "put" /\ left[s] = 0
  /\ spc' = [spc EXCEPT ![s] = "end1"]
  /\ UNCHANGED <<round, q, spare, applied, used, claim, left, cpc, recv, allrecv, dup, rpc, stop, bad>>

\* `z = self._spare_lids.get(timeout=0.01)`  (empty -> RuntimeError "put_end called more than num_suppliers times")
SupTakeSpare(s) ==
  /\ spc[s] = "end1"
  /\ IF spare > 0 THEN spare' = spare - 1 /\ spc' = [spc EXCEPT ![s] = "end2"] /\ bad' = bad
                  ELSE spare' = spare /\ spc' = [spc EXCEPT ![s] = "done"] /\ bad' = "put_end_without_token"
  /\ UNCHANGED <<round, q, applied, used, claim, left, cpc, recv, allrecv, dup, rpc, stop>>

SupApply(s) ==
  /\ spc[s] = "end2"
  /\ applied' = applied + 1 /\ spc' = [spc EXCEPT ![s] = "end3"]
  /\ UNCHANGED <<round, q, spare, used, claim, left, cpc, recv, allrecv, dup, rpc, stop, bad>>

SupMarker(s) ==
  /\ spc[s] = "end3" /\ ~Full
  /\ q' = Append(q, Marker) /\ spc' = [spc EXCEPT ![s] = "done"]
  /\ UNCHANGED <<round, spare, applied, used, claim, left, cpc, recv, allrecv, dup, rpc, stop, bad>>

-----------------------------------------------------------------------------
(* CONSUMER: __next__                                                       *)
\* `if self._used_lids.full(): raise StopIteration`
N1(c) ==
  /\ cpc[c] = "N1"
  /\ cpc' = [cpc EXCEPT ![c] = IF used = M THEN "done" ELSE "N2"]
  /\ UNCHANGED <<round, q, spare, applied, used, claim, spc, left, recv, allrecv, dup, rpc, stop, bad>>

\* `z = self._q.get()`
N2(c) ==
  /\ cpc[c] = "N2" /\ q # <<>>
  /\ q' = Tail(q)
  /\ IF Head(q).t = "none"
       THEN cpc' = [cpc EXCEPT ![c] = "N4"] /\ UNCHANGED <<recv, allrecv, dup>>
       ELSE /\ cpc' = [cpc EXCEPT ![c] = "N1"]                          \* `return z`, then the next call
            /\ recv' = [recv EXCEPT ![c] = @ \cup {Head(q)}]
            /\ allrecv' = allrecv \cup {Head(q)}
            /\ dup' = (dup \/ Head(q) \in allrecv \/ Head(q).r # round)
  /\ UNCHANGED <<round, spare, applied, used, claim, spc, left, rpc, stop, bad>>

\* got a marker: `if self._used_lids.full():` -> it is the extra marker: put it back, stop
N4(c) ==
  /\ cpc[c] = "N4"
  /\ cpc' = [cpc EXCEPT ![c] = IF used = M THEN "putback" ELSE "N5"]
  /\ UNCHANGED <<round, q, spare, applied, used, claim, spc, left, recv, allrecv, dup, rpc, stop, bad>>

PutBack(c) ==
  /\ cpc[c] \in {"putback", "extra"} /\ ~Full
  /\ q' = Append(q, Marker) /\ cpc' = [cpc EXCEPT ![c] = "done"]
  /\ UNCHANGED <<round, spare, applied, used, claim, spc, left, recv, allrecv, dup, rpc, stop, bad>>

\* `z = self._applied_lids.get()`
N5(c) ==
  /\ cpc[c] = "N5" /\ applied > 0
  /\ applied' = applied - 1 /\ cpc' = [cpc EXCEPT ![c] = "N6"]
  /\ UNCHANGED <<round, q, spare, used, claim, spc, left, recv, allrecv, dup, rpc, stop, bad>>

\* `self._used_lids.put(z)`
N6(c) ==
  /\ cpc[c] = "N6" /\ used < M
  /\ used' = used + 1 /\ cpc' = [cpc EXCEPT ![c] = "N7"]
  /\ UNCHANGED <<round, q, spare, applied, claim, spc, left, recv, allrecv, dup, rpc, stop, bad>>

\* `if self._used_lids.full():` this consumer believes it is the first to see the bottom of the queue
N7(c) ==
  /\ cpc[c] = "N7"
  /\ cpc' = [cpc EXCEPT ![c] = IF used = M THEN "claim" ELSE "N1"]
  /\ UNCHANGED <<round, q, spare, applied, used, claim, spc, left, recv, allrecv, dup, rpc, stop, bad>>

\* repaired: only the consumer that wins the single claim adds the extra marker (`_extra_lid.put(None, block=False)` into a
\* one-slot queue: succeeds or fails at once in every process - D25; `claim` = 1 while the slot is free);
\* as found: every consumer that saw `full` adds one
Claim(c) ==
  /\ cpc[c] = "claim"
  /\ IF ExtraOnce
       THEN IF claim = 1 THEN claim' = 0 /\ cpc' = [cpc EXCEPT ![c] = "extra"]
                         ELSE claim' = claim /\ cpc' = [cpc EXCEPT ![c] = "done"]
       ELSE claim' = claim /\ cpc' = [cpc EXCEPT ![c] = "extra"]
  /\ UNCHANGED <<round, q, spare, applied, used, spc, left, recv, allrecv, dup, rpc, stop, bad>>

-----------------------------------------------------------------------------
(* RENEW (called once by the consuming side after every consumer has finished the round)                 *)
RoundOver == (\A c \in Con : cpc[c] = "done") /\ (\A s \in Sup : spc[s] = "done")

\* `if not self._used_lids.full(): raise RuntimeError`
Renew1 ==
  /\ rpc = "idle" /\ RoundOver /\ round < Rounds /\ bad = "none"
  /\ IF used = M THEN rpc' = "R2" /\ bad' = bad ELSE rpc' = "idle" /\ bad' = "not_renewable"
  /\ UNCHANGED <<round, q, spare, applied, used, claim, spc, left, cpc, recv, allrecv, dup, stop>>

\* `z = self._q.get()  # take out the extra None`  (anything else: RuntimeError)
Renew2 ==
  /\ rpc = "R2" /\ q # <<>>
  /\ q' = Tail(q)
  /\ IF Head(q).t = "none" THEN rpc' = "R3" /\ bad' = bad ELSE rpc' = "idle" /\ bad' = "renew_got_item"
  /\ UNCHANGED <<round, spare, applied, used, claim, spc, left, cpc, recv, allrecv, dup, stop>>

\* recycle the tokens; the suppliers and consumers start the next round
Renew3 ==
  /\ rpc = "R3"
  /\ spare' = spare + used /\ used' = 0 /\ claim' = 1 /\ rpc' = "idle" /\ round' = round + 1
  /\ spc' = [s \in Sup |-> "put"] /\ left' = [s \in Sup |-> K]
  /\ cpc' = [c \in Con |-> "N1"] /\ recv' = [c \in Con |-> {}]
  /\ UNCHANGED <<q, applied, allrecv, dup, stop, bad>>

-----------------------------------------------------------------------------
(* STOP: any party blocked in get/put raises StopRequested once the flag is set                           *)
StopRequest == MayStop /\ ~stop /\ stop' = TRUE
               /\ UNCHANGED <<round, q, spare, applied, used, claim, spc, left, cpc, recv, allrecv, dup, rpc, bad>>
ConStopped(c) == /\ stop /\ cpc[c] = "N2" /\ q = <<>>
                 /\ cpc' = [cpc EXCEPT ![c] = "stopped"]
                 /\ UNCHANGED <<round, q, spare, applied, used, claim, spc, left, recv, allrecv, dup, rpc, stop, bad>>
SupStopped(s) == /\ stop /\ spc[s] \in {"put", "end3"} /\ Full
                 /\ spc' = [spc EXCEPT ![s] = "stopped"]
                 /\ UNCHANGED <<round, q, spare, applied, used, claim, left, cpc, recv, allrecv, dup, rpc, stop, bad>>

Finished == RoundOver /\ round = Rounds
Halted == stop /\ (\A c \in Con : cpc[c] \in {"done", "stopped"}) /\ (\A s \in Sup : spc[s] \in {"done", "stopped"})

Next ==
  \/ \E s \in Sup : SupPut(s) \/ SupEndStart(s) \/ SupTakeSpare(s) \/ SupApply(s) \/ SupMarker(s) \/ SupStopped(s)
  \/ \E c \in Con : N1(c) \/ N2(c) \/ N4(c) \/ PutBack(c) \/ N5(c) \/ N6(c) \/ N7(c) \/ Claim(c) \/ ConStopped(c)
  \/ Renew1 \/ Renew2 \/ Renew3 \/ StopRequest
  \/ ((Finished \/ Halted \/ bad # "none") /\ UNCHANGED vars)

Spec == Init /\ [][Next]_vars
FairSpec == Spec /\ WF_vars(Next)
            /\ \A s \in Sup : WF_vars(SupPut(s) \/ SupEndStart(s) \/ SupTakeSpare(s) \/ SupApply(s) \/ SupMarker(s))
            /\ \A c \in Con : WF_vars(N1(c) \/ N2(c) \/ N4(c) \/ PutBack(c) \/ N5(c) \/ N6(c) \/ N7(c) \/ Claim(c))
            /\ WF_vars(Renew1 \/ Renew2 \/ Renew3)

-----------------------------------------------------------------------------
TypeOK == /\ round \in 1..Rounds /\ spare \in 0..M /\ applied \in 0..M /\ used \in 0..M /\ claim \in 0..1
          /\ rpc \in {"idle", "R2", "R3"} /\ stop \in BOOLEAN

\* C17: the library never hits one of its own "impossible" errors
NoInternalError == bad = "none"
\* C17: an item is received at most once, and only in the round it was put in
NoDuplicate == ~dup
\* C17: when every consumer has finished a round (no stop), together they received exactly the items put in it
RoundComplete ==
  ((\A c \in Con : cpc[c] = "done") /\ ~stop) => UNION {recv[c] : c \in Con} = Items(round)
\* C17: nothing leaks between rounds: when a new round starts the queue is empty and all tokens are spare
CleanStart ==
  ((\A s \in Sup : spc[s] = "put" /\ left[s] = K) /\ (\A c \in Con : cpc[c] = "N1") /\ rpc = "idle")
     => (q = <<>> /\ spare = M /\ applied = 0 /\ used = 0)
TokenConservation == spare + applied + used + Cardinality({s \in Sup : spc[s] = "end2"})
                     + Cardinality({c \in Con : cpc[c] = "N6"}) = M
\* C17: every consumer's iteration ends once all suppliers have ended (checked under FairSpec, without stop)
ConsumersFinish == (\A s \in Sup : spc[s] = "done") ~> (\A c \in Con : cpc[c] \in {"done", "stopped"})
AllRoundsFinish == <>(Finished \/ Halted)

Trap_TwoSeeFull == ~(\E c, d \in Con : c # d /\ cpc[c] = "claim" /\ cpc[d] = "claim")
Trap_Round2 == ~(round = 2 /\ \E c \in Con : recv[c] # {})
=============================================================================
