SPECIFICATION Spec
CONSTANTS
  MaxN = 3
  MaxCap = 2
  MaxConc = 2
  MaxFail = 2
  Modes = {"sync", "async"}
  ForwardBase = TRUE
  AsyncPreFailBinds = TRUE
INVARIANT TypeOK
INVARIANT OutIsPrefix
INVARIANT CalledOnce
INVARIANT EndOK
INVARIANT NoFeederLeak
INVARIANT NoWorkLeak
INVARIANT LookAhead
INVARIANT QueueBound
INVARIANT ConcBound
PROPERTY OutAppendOnly
CHECK_DEADLOCK TRUE
