----------------------------- MODULE SharedPools -----------------------------
(***************************************************************************)
(* mpservice/concurrent/futures: get_shared_thread_pool(name, max_workers) *)
(* (NOT one of the listed properties).  A registry of named executors with *)
(* WEAK values: an executor lives as long as some user holds a reference;  *)
(* a request for an existing name returns the same executor (ValueError if *)
(* an explicit max_workers differs); an executor that was shut down, or    *)
(* that nobody references any more, is replaced by a fresh one.            *)
(***************************************************************************)
EXTENDS Naturals, Sequences, TLC

CONSTANTS Names, Sizes, MaxObj, MaxRefs
\* max_workers requested: a member of Sizes, or 0 for "not specified" (the executor then gets the library default, "def")

VARIABLES
  objs,   \* executors ever created: [name, mw, shut, refs]
  reg,    \* the registry: [Names -> 0..MaxObj]
  act

vars == <<objs, reg, act>>
O == 1..Len(objs)
MW(m) == IF m = 0 THEN "def" ELSE ToString(m)

Init == objs = <<>> /\ reg = [n \in Names |-> 0] /\ act = [name |-> "init", n |-> "", m |-> 0, o |-> 0, ret |-> "none"]

Get(n, m) ==
  LET e == reg[n] IN
  IF e = 0 \/ objs[e].shut
    THEN /\ Len(objs) < MaxObj
         /\ objs' = Append(objs, [name |-> n, mw |-> MW(m), shut |-> FALSE, refs |-> 1])
         /\ reg' = [reg EXCEPT ![n] = Len(objs) + 1]
         /\ act' = [name |-> "get", n |-> n, m |-> m, o |-> 0, ret |-> ToString(Len(objs) + 1)]
    ELSE IF m # 0 /\ MW(m) # objs[e].mw
      THEN UNCHANGED <<objs, reg>> /\ act' = [name |-> "get", n |-> n, m |-> m, o |-> 0, ret |-> "ValueError"]
      ELSE /\ objs[e].refs < MaxRefs
           /\ objs' = [objs EXCEPT ![e].refs = @ + 1] /\ reg' = reg
           /\ act' = [name |-> "get", n |-> n, m |-> m, o |-> 0, ret |-> ToString(e)]

\* a user lets go of one reference; the last one takes the registry entry with it (weak value)
Drop(o) ==
  /\ o \in O /\ objs[o].refs > 0
  /\ objs' = [objs EXCEPT ![o].refs = @ - 1]
  /\ reg' = IF objs[o].refs = 1 /\ reg[objs[o].name] = o THEN [reg EXCEPT ![objs[o].name] = 0] ELSE reg
  /\ act' = [name |-> "drop", n |-> objs[o].name, m |-> 0, o |-> o, ret |-> "none"]

\* (users are told not to, but) a holder shuts the shared executor down: the next request replaces it
Shutdown(o) ==
  /\ o \in O /\ objs[o].refs > 0 /\ ~objs[o].shut
  /\ objs' = [objs EXCEPT ![o].shut = TRUE] /\ reg' = reg
  /\ act' = [name |-> "shutdown", n |-> objs[o].name, m |-> 0, o |-> o, ret |-> "none"]

Next == (\E n \in Names, m \in Sizes \cup {0} : Get(n, m)) \/ (\E o \in O : Drop(o) \/ Shutdown(o))
Spec == Init /\ [][Next]_vars

-----------------------------------------------------------------------------
Live(o) == objs[o].refs > 0 /\ ~objs[o].shut
\* sharing: all users of a name that hold a working executor hold the SAME one
OneLivePerName == \A a, b \in O : (Live(a) /\ Live(b) /\ objs[a].name = objs[b].name) => a = b
\* ... and it is the one the registry hands out
LiveIsListed == \A o \in O : Live(o) => reg[objs[o].name] = o
\* the registry never lists an executor nobody references
ListedIsReferenced == \A n \in Names : reg[n] # 0 => objs[reg[n]].refs > 0 /\ objs[reg[n]].name = n
\* an explicit size is honoured or refused, never silently ignored
SizeHonoured == (act.name = "get" /\ act.m # 0 /\ act.ret # "ValueError") =>
                   LET o == CHOOSE x \in O : ToString(x) = act.ret IN objs[o].mw = MW(act.m)

Trap_Replaced == ~(\E a, b \in O : a < b /\ objs[a].name = objs[b].name /\ objs[a].refs > 0)
Trap_Refused == act.ret # "ValueError"
==============================================================================
