---------------------- MODULE IterableQueueProcTrace ----------------------
(* Validates executions of the REAL IterableQueue over multiprocessing queues, with suppliers and consumers in        *)
(* separate PROCESSES (mbt/bind/iterqueue_proc.py), against IterableQueue.  There is no global order of events across  *)
(* processes: every process logs its own sequence (exact: one thread per process) -                                     *)
(*    supplier s:  Put ... Put, SupDone          (per round)                                                            *)
(*    consumer c:  Got(s, k, r) ..., ConsDone    (per round)                                                            *)
(*    main:        Renewed                        (after every party has reported the end of the round)                *)
(* and TLC searches for an interleaving of these sequences, with all token-queue steps silent, that is a behaviour of   *)
(* the model.  `p.seqs[i]` is the sequence of process i; `pos[i]` the position in it.                                   *)
EXTENDS IterableQueue, Json, IOUtils, TLCExt

TraceLog == JsonDeserialize(IOEnv.TRACE_FILE)
VARIABLES tid, pos
tvars == <<vars, tid, pos>>

Seqs == TraceLog[tid].p.seqs
NP == Len(Seqs)
Can(i) == pos[i] <= Len(Seqs[i])
Ev(i) == Seqs[i][pos[i]]
AdvP(i) == pos' = [pos EXCEPT ![i] = @ + 1] /\ tid' = tid
Same == UNCHANGED vars
\* number of events consumed so far + 1 (the `l` of the other trace specifications)
RECURSIVE SumPos(_)
SumPos(i) == IF i = 0 THEN 0 ELSE (pos[i] - 1) + SumPos(i - 1)
L == 1 + SumPos(NP)

TraceInit ==
  \E t \in 1..Len(TraceLog) :
     /\ tid = t /\ pos = [i \in 1..Len(TraceLog[t].p.seqs) |-> 1] /\ Init
     /\ TLCSet(t, <<1, "init", "none">>)

TPut(i)      == Can(i) /\ Ev(i).ev = "Put" /\ SupPut(Ev(i).n) /\ AdvP(i)
TSupDone(i)  == Can(i) /\ Ev(i).ev = "SupDone" /\ spc[Ev(i).n] = "done" /\ Same /\ AdvP(i)
\* `for z in q:` handed z to the consumer: the model's get must deliver exactly this item
TGot(i)      == /\ Can(i) /\ Ev(i).ev = "Got" /\ q # <<>>
                /\ Head(q) = Item(Ev(i).s, Ev(i).k, Ev(i).r)
                /\ N2(Ev(i).n) /\ AdvP(i)
TConsDone(i) == Can(i) /\ Ev(i).ev = "ConsDone" /\ cpc[Ev(i).n] = "done" /\ Same /\ AdvP(i)
TRenewed(i)  == Can(i) /\ Ev(i).ev = "Renewed" /\ Renew3 /\ AdvP(i)

TSilent ==
  /\ \/ \E s \in Sup : SupEndStart(s) \/ SupTakeSpare(s) \/ SupApply(s) \/ SupMarker(s)
     \/ \E c \in Con : \/ N1(c) \/ N4(c) \/ PutBack(c) \/ N5(c) \/ N6(c) \/ N7(c) \/ Claim(c)
                       \/ (q # <<>> /\ Head(q).t = "none" /\ N2(c))       \* an end marker is never shown to the user
     \/ Renew1 \/ Renew2
  /\ UNCHANGED <<tid, pos>>

TraceNext == (\E i \in 1..NP : TPut(i) \/ TSupDone(i) \/ TGot(i) \/ TConsDone(i) \/ TRenewed(i)) \/ TSilent
TraceSpec == TraceInit /\ [][TraceNext]_tvars

FailedInv ==
  IF ~NoInternalError THEN "NoInternalError" ELSE IF ~NoDuplicate THEN "NoDuplicate"
  ELSE IF ~RoundComplete THEN "RoundComplete" ELSE IF ~CleanStart THEN "CleanStart"
  ELSE IF ~TokenConservation THEN "TokenConservation" ELSE "none"

Progress ==
  IF FailedInv # "none"
    THEN TLCSet(tid, <<TLCGet(tid)[1], TLCGet(tid)[2], FailedInv>>) /\ FALSE
    ELSE IF TLCGet(tid)[1] < L
           THEN TLCSet(tid, <<L, <<round, spc, cpc, Len(q), spare, applied, used, claim, rpc, pos>>, TLCGet(tid)[3]>>)
           ELSE TRUE

Report ==
  \A t \in 1..Len(TraceLog) :
     PrintT(<<"VERDICT", t, TLCGet(t)[1], Len(TraceLog[t].ev), TLCGet(t)[2], TLCGet(t)[3]>>)
=============================================================================
