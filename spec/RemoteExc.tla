----------------------------- MODULE RemoteExc -----------------------------
(***************************************************************************)
(* multiprocessing/remote_exception.py: the life of ONE exception object   *)
(* that is raised, wrapped in RemoteException, pickled to another process   *)
(* ("hop"), re-raised or merely forwarded there, wrapped again, ... and     *)
(* possibly nested as a member of an EnsembleError (mpserver/_servlet.py    *)
(* 608-633) which travels the same way.  Sequential: one action = one       *)
(* statement of user / library code applied to the outermost object.        *)
(*                                                                         *)
(* Data abstraction: a formatted traceback is the sequence of the RAISE     *)
(* SITES whose frames it shows, in the order in which they are printed.     *)
(* Site 1 of a level is its origin marker.  `cls` and `args` are tokens.    *)
(*                                                                         *)
(* lv[1] is the original exception; lv[k+1] is an EnsembleError that holds  *)
(* lv[k] at position lv[k+1].pos of its result list.  Per level:            *)
(*   live     raise sites of the live __traceback__ (<<>> = hasTb FALSE);   *)
(*            re-raising PREPENDS (CPython chains the new frames in front)  *)
(*   remote   text of the RemoteTraceback in __cause__ (<<>> = not remote)  *)
(*   wrapped  the object is (inside) a RemoteException wrapper, `wtext` is  *)
(*            the wrapper's .tb                                            *)
(*   first    history: text made by the first Wrap of this level           *)
(*                                                                         *)
(* Flags (TRUE = the code as it is; FALSE = a variant that must break the   *)
(* property - sensitivity / vacuity guards, none is an as-found defect):    *)
(*   WrapEveryHop         every pickle hop goes through RemoteException     *)
(*                        (the documented rule); FALSE adds BareHop         *)
(*   ReuseRemoteText      wrapping an exception without live traceback      *)
(*                        reuses the remote text (397-449)                  *)
(*   FormatIncludesCause  format_exception prints the RemoteTraceback in    *)
(*                        __cause__ in front of the live frames             *)
(* Serves C15.                                                              *)
(***************************************************************************)
EXTENDS Naturals, Sequences, FiniteSets, TLC

CONSTANTS
  MaxRaise,      \* raise sites per behaviour (origin, re-raises, raise EnsembleError)
  MaxNest,       \* nesting depth inside EnsembleError (0..2)
  MaxSteps,      \* bound on the number of actions when the history is kept (0 = unbounded, history off)
  WrapEveryHop, ReuseRemoteText, FormatIncludesCause

VARIABLES
  lv,        \* sequence of level records, innermost first
  nraise,    \* raise sites used so far
  refused,   \* the last action was a Wrap that raised ValueError ("does not contain traceback info")
  act,       \* name + argument of the last action
  hist       \* history of actions (kept only when MaxSteps > 0; drives the replay into the real code)

vars == <<lv, nraise, refused, act, hist>>

Level(kind, cls, args, pos) ==
  [kind |-> kind, cls |-> cls, args |-> args, pos |-> pos, origin |-> 0, live |-> <<>>, remote |-> <<>>,
   wrapped |-> FALSE, wtext |-> <<>>, first |-> <<>>, hopped |-> FALSE]

Top == lv[Len(lv)]
Nested == Len(lv) - 1
TextOf(L) == IF L.wrapped THEN L.wtext ELSE L.remote
HasTb(L) == L.live # <<>>
IsRemote(L) == L.remote # <<>>
Wrappable(L) == HasTb(L) \/ IsRemote(L)
\* RemoteException(obj) wraps every bare member of an EnsembleError, recursively (452-463): each of them must carry a
\* traceback or a remote text, else the constructor raises ValueError (before it has changed anything)
AllWrappable == \A i \in 1..Len(lv) : lv[i].wrapped \/ Wrappable(lv[i])

Init ==
  /\ lv = << Level("exc", "C", "A", 0) >>
  /\ nraise = 0 /\ refused = FALSE
  /\ act = [name |-> "Init", k |-> 0] /\ hist = <<>>

Log(name, k) ==
  /\ act' = [name |-> name, k |-> k]
  /\ hist' = IF MaxSteps > 0 THEN Append(hist, [name |-> name, k |-> k]) ELSE hist
  /\ (MaxSteps > 0 => Len(hist) < MaxSteps)

\* text that RemoteException.__init__ computes for one object (397-449)
WrapText(L) ==
  IF HasTb(L) THEN (IF FormatIncludesCause THEN L.remote ELSE <<>>) \o L.live
  ELSE IF ReuseRemoteText THEN L.remote ELSE <<>>

WrapLevel(L) ==
  IF L.wrapped THEN L
  ELSE [L EXCEPT !.wrapped = TRUE, !.wtext = WrapText(L),
                 !.first = IF L.first = <<>> THEN WrapText(L) ELSE L.first]

\* pickle.dumps + loads of one object: a RemoteException rebuilds the exception with __cause__ = RemoteTraceback(tb)
\* (376-379, 480-481); a bare exception loses __traceback__ and __cause__.  cls, args (and pos) travel by value.
HopLevel(L) ==
  IF L.wrapped
    THEN [L EXCEPT !.live = <<>>, !.remote = L.wtext, !.wrapped = FALSE, !.wtext = <<>>, !.hopped = TRUE]
    ELSE [L EXCEPT !.live = <<>>, !.remote = <<>>, !.hopped = TRUE]

\* `raise obj` (obj is a BaseException, never the wrapper): a new site in front of the live traceback
Raise ==
  /\ ~Top.wrapped /\ nraise < MaxRaise
  /\ nraise' = nraise + 1
  /\ lv' = [lv EXCEPT ![Len(lv)] = [Top EXCEPT !.live = <<nraise + 1>> \o Top.live,
                                               !.origin = IF Top.origin = 0 THEN nraise + 1 ELSE Top.origin]]
  /\ refused' = FALSE
  /\ Log("Raise", nraise + 1)

\* RemoteException(obj).  For an EnsembleError every member that is a bare exception is wrapped in place (452-463).
Wrap ==
  /\ ~Top.wrapped /\ AllWrappable
  /\ lv' = [i \in 1..Len(lv) |-> WrapLevel(lv[i])]
  /\ refused' = FALSE
  /\ UNCHANGED nraise
  /\ Log("Wrap", 0)

\* RemoteException(obj) on an object (or with a bare member) with neither a traceback nor a remote text: ValueError,
\* nothing changes
WrapRefused ==
  /\ ~Top.wrapped /\ ~AllWrappable /\ ~refused
  /\ refused' = TRUE
  /\ UNCHANGED <<lv, nraise>>
  /\ Log("WrapRefused", 0)

\* pickle.loads(pickle.dumps(wrapper)) - to another process
Hop ==
  /\ Top.wrapped /\ Nested = 0
  /\ lv' = [i \in 1..Len(lv) |-> HopLevel(lv[i])]
  /\ refused' = FALSE
  /\ UNCHANGED nraise
  /\ Log("Hop", 0)

HopEnsemble ==
  /\ Top.wrapped /\ Nested > 0
  /\ lv' = [i \in 1..Len(lv) |-> HopLevel(lv[i])]
  /\ refused' = FALSE
  /\ UNCHANGED nraise
  /\ Log("HopEnsemble", 0)

\* an exception that arrived from another process is passed on without being raised: Wrap + Hop
Forward ==
  /\ ~Top.wrapped /\ ~HasTb(Top) /\ IsRemote(Top) /\ AllWrappable
  /\ lv' = [i \in 1..Len(lv) |-> HopLevel(WrapLevel(lv[i]))]
  /\ refused' = FALSE
  /\ UNCHANGED nraise
  /\ Log("Forward", 0)

\* Ensemble servlet: `y = RemoteException(y)`, `z['y'][k] = y`, `raise EnsembleError(z)` (caught at once)
NestInEnsemble(k) ==
  /\ Nested < MaxNest /\ nraise < MaxRaise
  /\ Top.wrapped \/ AllWrappable
  /\ nraise' = nraise + 1
  /\ lv' = Append([i \in 1..Len(lv) |-> WrapLevel(lv[i])],
                  [Level("ens", "Ens", "Res", k) EXCEPT !.live = <<nraise + 1>>, !.origin = nraise + 1])
  /\ refused' = FALSE
  /\ Log("NestInEnsemble", k)

\* NOT the documented use: the exception object itself is pickled (only if ~WrapEveryHop)
BareHop ==
  /\ ~WrapEveryHop /\ ~Top.wrapped /\ Top.origin # 0
  /\ lv' = [i \in 1..Len(lv) |-> HopLevel(lv[i])]
  /\ refused' = FALSE
  /\ UNCHANGED nraise
  /\ Log("BareHop", 0)

Next == Raise \/ Wrap \/ WrapRefused \/ Hop \/ HopEnsemble \/ Forward \/ BareHop \/ \E k \in 1..2 : NestInEnsemble(k)

Spec == Init /\ [][Next]_vars

-----------------------------------------------------------------------------
IsPrefix(s, t) == Len(s) <= Len(t) /\ \A i \in 1..Len(s) : s[i] = t[i]
InSeq(x, s) == \E i \in 1..Len(s) : s[i] = x

TypeOK ==
  /\ Len(lv) \in 1..(MaxNest + 1) /\ nraise \in 0..MaxRaise /\ refused \in BOOLEAN
  /\ \A i \in 1..Len(lv) : /\ lv[i].kind = (IF i = 1 THEN "exc" ELSE "ens")
                           /\ lv[i].pos \in (IF i = 1 THEN {0} ELSE {1, 2})
                           /\ lv[i].wrapped \in BOOLEAN /\ lv[i].hopped \in BOOLEAN
                           /\ (~lv[i].wrapped => lv[i].wtext = <<>>)

\* C15: "an exception of the original class with the original arguments"
ClassArgsKept ==
  /\ lv[1].cls = "C" /\ lv[1].args = "A"
  /\ \A i \in 2..Len(lv) : lv[i].cls = "Ens" /\ lv[i].args = "Res"

\* C15: after any hop is_remote_exception is true (the wrapper on top of a hopped object always has a text, too)
RemoteAfterHop == \A i \in 1..Len(lv) : lv[i].hopped => TextOf(lv[i]) # <<>>

\* C15: the text names the origin (the function that raised first) ...
OriginInText == \A i \in 1..Len(lv) : lv[i].hopped => InSeq(lv[i].origin, TextOf(lv[i]))

\* ... and contains the originally formatted traceback
ContainsOriginal == \A i \in 1..Len(lv) : lv[i].hopped => (lv[i].first # <<>> /\ IsPrefix(lv[i].first, TextOf(lv[i])))

\* every member below a wrapper is a wrapper itself; a bare member has no live traceback and can be wrapped again
NestedWrappable ==
  \A i \in 1..(Len(lv) - 1) :
      /\ (lv[i + 1].wrapped => lv[i].wrapped)
      /\ (~lv[i].wrapped => ~HasTb(lv[i]) /\ (WrapEveryHop => IsRemote(lv[i])))

\* C15: "identical text when the exception is only forwarded, not re-raised, between hops" - at every level
ForwardKeepsText ==
  [][act'.name = "Forward" => \A i \in 1..Len(lv) : TextOf(lv'[i]) = TextOf(lv[i]) /\ TextOf(lv[i]) # <<>>]_vars

\* a hop never touches class, arguments, nesting
HopKeepsShape ==
  [][act'.name \in {"Hop", "HopEnsemble", "Forward", "BareHop"} =>
       /\ Len(lv') = Len(lv)
       /\ \A i \in 1..Len(lv) : lv'[i].cls = lv[i].cls /\ lv'[i].args = lv[i].args /\ lv'[i].pos = lv[i].pos]_vars

\* the exhaustive run ignores the history; the enumeration run keeps it (every behaviour is a distinct state)
NoHistView == <<lv, nraise, refused, act>>

\* enumeration run: one line per distinct state = per behaviour prefix
Emit == PrintT(<<"ST", hist, lv, refused>>)
=============================================================================
