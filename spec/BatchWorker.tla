---------------------------- MODULE BatchWorker ----------------------------
(***************************************************************************)
(* mpserver/_worker.py: how a Worker turns the shared input queue into     *)
(* calls of `call`.  NW workers of the same servlet compete for one input  *)
(* queue.  batch_size >= 2: each worker has a collector thread             *)
(* (`_build_input_batches`: takes the queue's read lock, blocking first    *)
(* get, greedy further gets while input is there and the batch buffer is   *)
(* short, short-circuits exception values and preprocess failures, decides *)
(* when to let go of the lock) and a consumer (`_get_input_batch`: blocking *)
(* first get from the buffer, further gets bounded by the deadline         *)
(* first-taken + batch_wait_time, end marker put back).  batch_size 0 / 1: *)
(* `_start_single` (bare element / one-element list).                      *)
(*                                                                         *)
(* Time is explicit (integer ticks).  Every step of a thread is urgent:    *)
(* the clock advances (Tick) only when no thread can move and no arrival   *)
(* is due - exactly the semantics of detsched's virtual clock, so call     *)
(* times can be compared EXACTLY.                                          *)
(***************************************************************************)
EXTENDS Naturals, Sequences, FiniteSets, TLC

CONSTANTS NW, MaxItems, MaxT, Bs, Ws, MaxGap,
  Kinds,               \* kinds of arriving elements the schedules are built from (subset of {"ok", "exc", "pre"})
  Extra,               \* the batch buffer holds batch_size + Extra elements (the code: 10)
  SlowSets, SlowDur,   \* scenarios: a call that contains an element of p.slow (a set of ids) takes SlowDur ticks
  WaitRoomBeforeLock,  \* TRUE = the code: a collector whose buffer is full waits for room BEFORE it takes the read lock
                       \* FALSE: it takes the lock regardless (and then blocks in `buffer.put` holding it)
  RoomCheckUnderLock   \* TRUE = repaired: "full?" is tested and the wait begun under the buffer's mutex
                       \* FALSE = as found: `if buffer.full():` (lock-free) and only then `with _not_full: wait()` - a
                       \* `get` in between notifies nobody, the wait then lasts until the NEXT get

VARIABLES
  p,       \* [b, w, arr, slow, dur]: batch_size, batch_wait_time (ticks), arrival schedule: sequence of [gap, kind],
           \* gap = ticks since the previous arrival, kind in {"ok", "exc", "pre"}; a call with an element of the set `slow` takes `dur`
  now, nextArr, due,
  qin,     \* shared input queue: sequence of [id, kind] | end marker [id |-> 0, kind |-> "end"]
  rlock,   \* holder of the input queue's read lock (0 = free)
  cpc,     \* collector pc per worker
  cz,      \* item in the collector's hands
  buf,     \* batch buffer per worker (sequence)
  flag,    \* _batch_get_called per worker
  gpc,     \* consumer pc per worker
  busy,    \* time at which the running `call` of the worker returns
  batch, first, deadline,   \* consumer: batch under construction, time its first element was taken, deadline
  calls,   \* history: sequence of [w, ids, t, first]
  outs,    \* history: set of [id, kind] short-circuited to the output queue
  stopReq  \* the end marker has been put on the input queue

vars == <<p, now, nextArr, due, qin, rlock, cpc, cz, buf, flag, gpc, busy, batch, first, deadline, calls, outs, stopReq>>

Wk == 1..NW
End == [id |-> 0, kind |-> "end"]
NoItem == [id |-> 0, kind |-> "none"]

\* arrival schedules: up to MaxItems items, gaps 0..MaxGap, kinds
Schedules == UNION { [1..n -> [gap : 0..MaxGap, kind : Kinds]] : n \in 0..MaxItems }
Cap == p.b + Extra

InitWith(c) ==
  /\ p = c /\ now = 0 /\ nextArr = 1 /\ due = (IF Len(c.arr) > 0 THEN c.arr[1].gap ELSE 0)
  /\ qin = <<>> /\ rlock = 0
  /\ cpc = [w \in Wk |-> IF c.b >= 2 THEN "top" ELSE "off"] /\ cz = [w \in Wk |-> NoItem]
  /\ buf = [w \in Wk |-> <<>>] /\ flag = [w \in Wk |-> FALSE]
  /\ gpc = [w \in Wk |-> IF c.b >= 2 THEN "first" ELSE "sget"] /\ busy = [w \in Wk |-> 0]
  /\ batch = [w \in Wk |-> <<>>] /\ first = [w \in Wk |-> 0] /\ deadline = [w \in Wk |-> 0]
  /\ calls = <<>> /\ outs = {} /\ stopReq = FALSE

Init == \E b \in Bs, w \in Ws, a \in Schedules, s \in SlowSets :
          /\ (b <= 1 => w = 0 /\ s = {}) /\ (\A i \in s : i <= Len(a) /\ a[i].kind = "ok")
          /\ InitWith([b |-> b, w |-> w, arr |-> a, slow |-> s, dur |-> SlowDur])

-----------------------------------------------------------------------------
(* ENVIRONMENT                                                              *)
Arrive ==
  /\ nextArr <= Len(p.arr) /\ due = now
  /\ qin' = Append(qin, [id |-> nextArr, kind |-> p.arr[nextArr].kind]) /\ nextArr' = nextArr + 1
  /\ due' = IF nextArr < Len(p.arr) THEN now + p.arr[nextArr + 1].gap ELSE due
  /\ UNCHANGED <<p, now, rlock, cpc, cz, buf, flag, gpc, busy, batch, first, deadline, calls, outs, stopReq>>

\* the servlet is stopped after the last arrival: the end marker enters the input queue
Stop ==
  /\ nextArr > Len(p.arr) /\ ~stopReq
  /\ qin' = Append(qin, End) /\ stopReq' = TRUE
  /\ UNCHANGED <<p, now, nextArr, due, rlock, cpc, cz, buf, flag, gpc, busy, batch, first, deadline, calls, outs>>

-----------------------------------------------------------------------------
(* COLLECTOR thread of worker w -- `_build_input_batches`                    *)
\* top of the collector's loop: `if buffer.full(): with buffer._not_full: buffer._not_full.wait()`
CTop(w) ==
  /\ cpc[w] = "top"
  /\ cpc' = [cpc EXCEPT ![w] = IF ~WaitRoomBeforeLock \/ Len(buf[w]) < Cap THEN "lock"
                               ELSE IF RoomCheckUnderLock THEN "waiting" ELSE "towait"]
  /\ UNCHANGED <<p, now, nextArr, due, qin, rlock, cz, buf, flag, gpc, busy, batch, first, deadline, calls, outs, stopReq>>

\* as found: the buffer was seen full WITHOUT its mutex; now the mutex is taken and the wait begins - whatever the buffer
\* holds by now.  Only a LATER get wakes the collector up.
CToWait(w) ==
  /\ cpc[w] = "towait"
  /\ cpc' = [cpc EXCEPT ![w] = "waiting"]
  /\ UNCHANGED <<p, now, nextArr, due, qin, rlock, cz, buf, flag, gpc, busy, batch, first, deadline, calls, outs, stopReq>>

\* `_not_full.notify()` of a get: a waiting collector goes on (to the read lock)
Woken(w) == IF cpc[w] = "waiting" THEN [cpc EXCEPT ![w] = "lock"] ELSE cpc

CLock(w) ==
  /\ cpc[w] = "lock" /\ rlock = 0
  /\ rlock' = w /\ cpc' = [cpc EXCEPT ![w] = "get1"]
  /\ UNCHANGED <<p, now, nextArr, due, qin, cz, buf, flag, gpc, busy, batch, first, deadline, calls, outs, stopReq>>

\* `z = q_in.get()`: the blocking first get, and the greedy further gets
CGet(w) ==
  /\ cpc[w] \in {"get1", "getmore"} /\ rlock = w /\ qin # <<>>
  /\ cz' = [cz EXCEPT ![w] = Head(qin)] /\ qin' = Tail(qin) /\ cpc' = [cpc EXCEPT ![w] = "proc"]
  /\ UNCHANGED <<p, now, nextArr, due, rlock, buf, flag, gpc, busy, batch, first, deadline, calls, outs, stopReq>>

\* end marker: into the buffer, back onto the input queue (for a fellow worker), onto the output queue; thread ends
\* exception value / preprocess failure: short-circuit to the output queue;  genuine input: into the buffer
CProc(w) ==
  /\ cpc[w] = "proc" /\ rlock = w
  /\ cz[w].kind \in {"ok", "end"} => Len(buf[w]) < Cap        \* `buffer.put` blocks while the buffer is full
  /\ IF cz[w].kind = "end"
       THEN /\ buf' = [buf EXCEPT ![w] = Append(@, End)] /\ qin' = Append(qin, End)
            /\ rlock' = 0 /\ cpc' = [cpc EXCEPT ![w] = "done"] /\ outs' = outs
       ELSE IF cz[w].kind \in {"exc", "pre"}
         THEN /\ outs' = outs \cup {[id |-> cz[w].id, kind |-> cz[w].kind]}
              /\ buf' = buf /\ qin' = qin /\ rlock' = rlock /\ cpc' = [cpc EXCEPT ![w] = "more"]
         ELSE /\ buf' = [buf EXCEPT ![w] = Append(@, cz[w])]
              /\ outs' = outs /\ qin' = qin /\ rlock' = rlock /\ cpc' = [cpc EXCEPT ![w] = "more"]
  /\ cz' = [cz EXCEPT ![w] = NoItem]
  /\ UNCHANGED <<p, now, nextArr, due, flag, gpc, busy, batch, first, deadline, calls, stopReq>>

\* `if not q_in.empty() and buffer.qsize() < batchsize: z = q_in.get()`  else decide about the lock
CMore(w) ==
  /\ cpc[w] = "more" /\ rlock = w
  /\ cpc' = [cpc EXCEPT ![w] = IF qin # <<>> /\ Len(buf[w]) < p.b THEN "getmore" ELSE "decide"]
  /\ UNCHANGED <<p, now, nextArr, due, qin, rlock, cz, buf, flag, gpc, busy, batch, first, deadline, calls, outs, stopReq>>

\* `if self._batch_get_called.is_set(): clear; break` / `if buffer.qsize() >= batchsize: break` / else keep the lock
CDecide(w) ==
  /\ cpc[w] = "decide" /\ rlock = w
  /\ IF flag[w] THEN flag' = [flag EXCEPT ![w] = FALSE] /\ rlock' = 0 /\ cpc' = [cpc EXCEPT ![w] = "top"]
     ELSE IF Len(buf[w]) >= p.b THEN flag' = flag /\ rlock' = 0 /\ cpc' = [cpc EXCEPT ![w] = "top"]
     ELSE flag' = flag /\ rlock' = rlock /\ cpc' = [cpc EXCEPT ![w] = "get1"]
  /\ UNCHANGED <<p, now, nextArr, due, qin, cz, buf, gpc, busy, batch, first, deadline, calls, outs, stopReq>>

-----------------------------------------------------------------------------
(* CONSUMER of worker w -- `_get_input_batch` + the call                     *)
\* `out = buffer.get()`: blocks for the first element; the end marker ends the worker
GFirst(w) ==
  /\ gpc[w] = "first" /\ buf[w] # <<>>
  /\ buf' = [buf EXCEPT ![w] = Tail(@)]
  /\ IF Head(buf[w]).kind = "end"
       THEN gpc' = [gpc EXCEPT ![w] = "done"] /\ UNCHANGED <<batch, first, deadline>>
       ELSE /\ gpc' = [gpc EXCEPT ![w] = "more"]
            /\ batch' = [batch EXCEPT ![w] = <<Head(buf[w]).id>>]
            /\ first' = [first EXCEPT ![w] = now] /\ deadline' = [deadline EXCEPT ![w] = now + p.w]
  /\ cpc' = Woken(w)
  /\ UNCHANGED <<p, now, nextArr, due, qin, rlock, cz, flag, busy, calls, outs, stopReq>>

\* `z = buffer.get(timeout=max(0, t))` finds an element (even past the deadline, if it is already there)
GMore(w) ==
  /\ gpc[w] = "more" /\ Len(batch[w]) < p.b /\ buf[w] # <<>>
  /\ IF Head(buf[w]).kind = "end"
       THEN buf' = buf /\ batch' = batch /\ gpc' = [gpc EXCEPT ![w] = "setflag"] /\ cpc' = cpc    \* marker put back
       ELSE /\ buf' = [buf EXCEPT ![w] = Tail(@)] /\ batch' = [batch EXCEPT ![w] = Append(@, Head(buf[w]).id)]
            /\ gpc' = gpc /\ cpc' = Woken(w)
  /\ UNCHANGED <<p, now, nextArr, due, qin, rlock, cz, flag, busy, first, deadline, calls, outs, stopReq>>

\* the batch is full, or the timed get ran into the deadline with nothing there
GClose(w) ==
  /\ gpc[w] = "more"
  /\ \/ Len(batch[w]) = p.b
     \/ Len(batch[w]) < p.b /\ buf[w] = <<>> /\ now >= deadline[w]
  /\ gpc' = [gpc EXCEPT ![w] = "setflag"]
  /\ UNCHANGED <<p, now, nextArr, due, qin, rlock, cpc, cz, buf, flag, busy, batch, first, deadline, calls, outs, stopReq>>

\* `self._batch_get_called.set()` ...
GSetFlag(w) ==
  /\ gpc[w] = "setflag"
  /\ flag' = [flag EXCEPT ![w] = TRUE] /\ gpc' = [gpc EXCEPT ![w] = "call"]
  /\ UNCHANGED <<p, now, nextArr, due, qin, rlock, cpc, cz, buf, busy, batch, first, deadline, calls, outs, stopReq>>

\* ... and the batch goes to `call`
GCall(w) ==
  /\ gpc[w] = "call"
  /\ calls' = Append(calls, [w |-> w, ids |-> batch[w], t |-> now, first |-> first[w]])
  /\ batch' = [batch EXCEPT ![w] = <<>>] /\ gpc' = [gpc EXCEPT ![w] = "incall"]
  /\ busy' = [busy EXCEPT ![w] = now + (IF \E k \in 1..Len(batch[w]) : batch[w][k] \in p.slow THEN p.dur ELSE 0)]
  /\ UNCHANGED <<p, now, nextArr, due, qin, rlock, cpc, cz, buf, flag, first, deadline, outs, stopReq>>

\* `call` returns (a slow one: `dur` ticks later); the consumer asks for its next batch
GReturn(w) ==
  /\ gpc[w] = "incall" /\ now >= busy[w]
  /\ gpc' = [gpc EXCEPT ![w] = "first"]
  /\ UNCHANGED <<p, now, nextArr, due, qin, rlock, cpc, cz, buf, flag, busy, batch, first, deadline, calls, outs, stopReq>>

-----------------------------------------------------------------------------
(* batch_size 0 / 1 -- `_start_single`                                        *)
SGet(w) ==
  /\ gpc[w] = "sget" /\ qin # <<>>
  /\ LET z == Head(qin) IN
       IF z.kind = "end"
         THEN qin' = qin /\ gpc' = [gpc EXCEPT ![w] = "done"] /\ calls' = calls /\ outs' = outs   \* re-broadcast
         ELSE /\ qin' = Tail(qin) /\ gpc' = gpc
              /\ IF z.kind \in {"exc", "pre"}
                   THEN outs' = outs \cup {[id |-> z.id, kind |-> z.kind]} /\ calls' = calls
                   ELSE outs' = outs /\ calls' = Append(calls, [w |-> w, ids |-> <<z.id>>, t |-> now, first |-> now])
  /\ UNCHANGED <<p, now, nextArr, due, rlock, cpc, cz, buf, flag, busy, batch, first, deadline, stopReq>>

-----------------------------------------------------------------------------
Thread == \E w \in Wk : CTop(w) \/ CToWait(w) \/ CLock(w) \/ CGet(w) \/ CProc(w) \/ CMore(w) \/ CDecide(w)
                        \/ GFirst(w) \/ GMore(w) \/ GClose(w) \/ GSetFlag(w) \/ GCall(w) \/ GReturn(w) \/ SGet(w)
Urgent == Arrive \/ Stop \/ Thread
AllDone == stopReq /\ \A w \in Wk : gpc[w] = "done" /\ cpc[w] \in {"done", "off"}

\* time passes only when nothing else can happen
Tick ==
  /\ ~ENABLED Urgent /\ ~AllDone /\ now < MaxT
  /\ now' = now + 1
  /\ UNCHANGED <<p, nextArr, due, qin, rlock, cpc, cz, buf, flag, gpc, busy, batch, first, deadline, calls, outs, stopReq>>

Next == Urgent \/ Tick \/ (AllDone /\ UNCHANGED vars)
Spec == Init /\ [][Next]_vars
FairSpec == Spec /\ WF_vars(Next)

-----------------------------------------------------------------------------
KindOf(id) == p.arr[id].kind
Called == UNION { {c.ids[k] : k \in 1..Len(c.ids)} : c \in {calls[j] : j \in 1..Len(calls)} }

\* C09: `call` only ever sees non-empty lists of at most b genuine inputs (b = 0/1: exactly one element)
WellFormed ==
  \A j \in 1..Len(calls) :
     /\ Len(calls[j].ids) >= 1
     /\ Len(calls[j].ids) <= (IF p.b >= 2 THEN p.b ELSE 1)
     /\ \A k \in 1..Len(calls[j].ids) : KindOf(calls[j].ids[k]) = "ok"
\* C09: an input is passed to `call` at most once over all workers ...
AtMostOnce ==
  \A i, j \in 1..Len(calls) : \A a \in 1..Len(calls[i].ids), b2 \in 1..Len(calls[j].ids) :
     (calls[i].ids[a] = calls[j].ids[b2]) => (i = j /\ a = b2)
\* ... and, once everything has stopped, exactly once; exception values / rejected elements went to the output instead
ExactlyOnceAtEnd ==
  AllDone => /\ Called = {i \in 1..Len(p.arr) : KindOf(i) = "ok"}
             /\ {o.id : o \in outs} = {i \in 1..Len(p.arr) : KindOf(i) # "ok"}
\* C09: a (partial) batch is released no later than batch_wait_time after its first element was taken
Timely == \A j \in 1..Len(calls) : calls[j].t - calls[j].first <= p.w
\* C09: with batch_wait_time 0 a batch is passed on in the very tick its first element was taken
Immediate == p.w = 0 => \A j \in 1..Len(calls) : calls[j].t = calls[j].first
Finishes == <>AllDone

\* C09 (every accepted request reaches a call): a collector waits for room only while its buffer IS full - a collector that
\* waits next to a buffer with room is woken only by the next get, and with an empty buffer there never is one
WaitsOnlyWhenFull == \A w \in Wk : cpc[w] = "waiting" => Len(buf[w]) = Cap
\* C09 (a lone request is served by whichever worker is free): the read lock is never held by a collector that cannot move
LockHolderCanMove == \A w \in Wk : ~(rlock = w /\ cpc[w] = "proc" /\ cz[w].kind \in {"ok", "end"} /\ Len(buf[w]) >= Cap)

Trap_BufferFull == ~(\E w \in Wk : Len(buf[w]) = Cap)
Trap_CollectorWaited == ~(\E w \in Wk : cpc[w] = "waiting")
Trap_PartialByTimeout == ~(\E j \in 1..Len(calls) : p.b >= 2 /\ Len(calls[j].ids) < p.b /\ calls[j].t = calls[j].first + p.w /\ p.w > 0)
Trap_FullBatch == ~(\E j \in 1..Len(calls) : p.b >= 2 /\ Len(calls[j].ids) = p.b)
Trap_TwoWorkersCalled == ~(\E i, j \in 1..Len(calls) : calls[i].w # calls[j].w)
=============================================================================
