------------------------------ MODULE RefCount ------------------------------
(***************************************************************************)
(* multiprocessing/server_process.py: life time of hosted objects.          *)
(*                                                                         *)
(* The server keeps `id_to_refcount[o]` / `id_to_obj[o]`.  A proxy          *)
(* increments on construction and decrements from its finalizer;           *)
(* `__reduce__` increments before the pickle leaves ("transit"             *)
(* reference); `RebuildProxy` constructs the new proxy (+1) and then gives *)
(* back the transit reference (-1); inside the server both are direct      *)
(* method calls.  A reply that carries a proxy is pickled by the server     *)
(* while the server-side proxy object is still referenced by the handler   *)
(* thread (`tmp`); that temporary is released later (one-shot connection:  *)
(* when the handler returns; `serve_client`: when the connection's next    *)
(* request has been processed or the connection is closed).  `decref` that  *)
(* reaches zero deletes the hosted object, which releases the proxies it   *)
(* contains (recursion) and, for a MemoryBlock, unlinks the shared memory.  *)
(*                                                                         *)
(* One action per request handled by the server / per local step:          *)
(*   Create, ManagedReturn   object made, temporary proxy (+1), reply      *)
(*                           pickled (+1)                                  *)
(*   ManagedAgain            managed() of an object that is hosted already *)
(*                           (same identity): +2 on the existing count     *)
(*   ServerDropTmp           the temporary's finalizer (-1)                *)
(*   Pickle                  __reduce__ (+1): to a queue/pipe ("msg"), as   *)
(*                           Process(args=...) of a new child ("args"), as  *)
(*                           argument of a container method ("store")      *)
(*   RebuildInc, RebuildDec  RebuildProxy: constructor +1, then -1          *)
(*   RebuildInheriting       RebuildProxy while the child unpickles its     *)
(*                           Process object (`_inheriting`)                *)
(*   Delete                  finalizer of a client-side proxy (-1)          *)
(*   RemoveFrom / GetFrom    pop (proxy becomes the reply's temporary),     *)
(*                           del (-1), getitem (copy: +1 for the reply)     *)
(*   ProcessExit             a process ends while still holding proxies     *)
(*   DestroyAtZero, ShmUnlink                                              *)
(* (StoreIn(container, proxy) = Pickle "store" + RebuildInc/Dec inside the  *)
(* server with the container as holder.  Definitions with suffix R take    *)
(* the record itself, the same names without suffix address it by id.)      *)
(*                                                                         *)
(* Flags (FALSE = code as found, TRUE = repaired design):                   *)
(*   InheritOwnsRef  the proxy rebuilt while inheriting owns a reference    *)
(*                   (+1, finalizer) and gives back the transit reference.  *)
(*                   As found: no +1, no -1 and no finalizer - the transit  *)
(*                   reference is never released: the object is never       *)
(*                   destroyed (D15).                                       *)
(*   ExitReleases    proxies still referenced when a process exits (module  *)
(*                   globals, the `args` of the Process object itself) are  *)
(*                   released by the exit handler.  As found: the finalizer *)
(*                   has no exitpriority; multiprocessing's exit handler    *)
(*                   discards it unrun (D15b).                              *)
(***************************************************************************)
EXTENDS Naturals, FiniteSets, TLC

CONSTANTS
  Procs,          \* client processes (run a command interpreter in the conformance leg)
  Kids,           \* processes spawned with a proxy in Process(args=...)
  Containers,     \* hosted containers (dict / list)
  Blocks,         \* hosted MemoryBlocks
  MaxId,          \* bound on the number of proxies + pickles ever made
  AllowSelfStore, \* a container may be stored in itself (reference cycle: legitimately immortal)
  InheritOwnsRef, ExitReleases,
  RewrapKeepsCount \* TRUE = the code as it is; FALSE = `create` resets the count of an already hosted object (sensitivity)

VARIABLES
  alive,     \* [Objs -> {"no", "yes", "gone"}]
  refcount,  \* [Objs -> Nat]            server's id_to_refcount (0 when absent)
  shm,       \* [Objs -> {"no", "yes", "released"}]   /dev/shm/<name> of a MemoryBlock
  proxies,   \* set of [id, obj, holder, owns]
  transit,   \* set of [id, obj, to, kind, st, by, src]   pickles not yet (completely) rebuilt (src: what made it)
  tmp,       \* set of [id, obj]                      server-side temporaries awaiting their finalizer
  pstate,    \* [Procs \cup Kids -> {"unborn", "up", "exited"}]
  parent,    \* [Kids -> Procs \cup {None}]: who spawned the child (a parent waits for its children when it exits)
  nextId,
  act        \* last action (history for binding; hidden by VIEW in exhaustive runs)

vars == <<alive, refcount, shm, proxies, transit, tmp, pstate, parent, nextId, act>>
view == <<alive, refcount, shm, proxies, transit, tmp, pstate, parent, nextId>>

Objs == Containers \cup Blocks
Clients == Procs \cup Kids
None == "-"

Init ==
  /\ alive = [o \in Objs |-> "no"]
  /\ refcount = [o \in Objs |-> 0]
  /\ shm = [o \in Objs |-> "no"]
  /\ proxies = {} /\ transit = {} /\ tmp = {}
  /\ pstate = [p \in Clients |-> IF p \in Procs THEN "up" ELSE "unborn"]
  /\ parent = [k \in Kids |-> None]
  /\ nextId = 1
  /\ act = [name |-> "Init"]

\* a process inside a synchronous call (waiting for a reply / for the server to store / rebuilding) does nothing else
Busy(p) == \E t \in transit : t.by = p
Ready(p) == pstate[p] = "up" /\ ~Busy(p)
Holds(p, o) == \E x \in proxies : x.holder = p /\ x.obj = o
Fresh(i) == i = nextId /\ i <= MaxId
Inc(o) == refcount' = [refcount EXCEPT ![o] = @ + 1]
Dec(o) == refcount' = [refcount EXCEPT ![o] = @ - 1]

-----------------------------------------------------------------------------
\* `server.list()` (one-shot connection) or a hosted method returning `managed(x)` (via = "managed"; through the
\* caller's connection): the object starts with its temporary proxy and the pickled reply.
\* via = "again": a hosted method returns `managed(x)` for an x that is ALREADY hosted (same identity, e.g. a method that
\* wraps the same member on every call).  `Server.create` must keep the count of the existing entry: the new temporary
\* and the new reply add two references to those that exist.
Create(p, o, via, i) ==
  /\ Ready(p) /\ Fresh(i) /\ i + 1 <= MaxId
  /\ IF via = "again" THEN alive[o] = "yes" /\ refcount[o] > 0 ELSE alive[o] = "no"
  /\ alive' = [alive EXCEPT ![o] = "yes"]
  /\ refcount' = [refcount EXCEPT ![o] = IF via = "again" /\ RewrapKeepsCount THEN @ + 2 ELSE 2]
  /\ shm' = IF via = "again" THEN shm ELSE [shm EXCEPT ![o] = IF o \in Blocks THEN "yes" ELSE "no"]
  /\ tmp' = tmp \cup {[id |-> i + 1, obj |-> o]}
  /\ transit' = transit \cup {[id |-> i, obj |-> o, to |-> p, kind |-> "reply", st |-> "sent", by |-> p, src |-> via]}
  /\ nextId' = i + 2
  /\ act' = [name |-> IF via = "create" THEN "Create" ELSE IF via = "managed" THEN "ManagedReturn" ELSE "ManagedAgain",
              p |-> p, o |-> o, i |-> i]
  /\ UNCHANGED <<proxies, pstate, parent>>

ServerDropTmpR(t) ==
  /\ t \in tmp
  /\ tmp' = tmp \ {t}
  /\ Dec(t.obj)
  /\ act' = [name |-> "ServerDropTmp", o |-> t.obj, i |-> t.id]
  /\ UNCHANGED <<alive, shm, proxies, transit, pstate, parent, nextId>>

\* __reduce__ of proxy x held by client process x.holder
PickleR(x, kind, dest, i) ==
  /\ x \in proxies /\ x.holder \in Procs /\ Ready(x.holder) /\ Fresh(i)
  /\ \/ kind = "msg" /\ dest \in Procs /\ pstate[dest] = "up"
     \/ kind = "args" /\ dest \in Kids /\ pstate[dest] = "unborn"
                      /\ ~\E t \in transit : t.to = dest
     \/ kind = "store" /\ dest \in Containers /\ Holds(x.holder, dest)
                       /\ (AllowSelfStore \/ x.obj # dest)
  /\ Inc(x.obj)
  /\ transit' = transit \cup {[id |-> i, obj |-> x.obj, to |-> dest, kind |-> kind, st |-> "sent",
                               by |-> IF kind = "store" THEN x.holder ELSE None, src |-> "pickle"]}
  /\ nextId' = i + 1
  /\ parent' = IF kind = "args" THEN [parent EXCEPT ![dest] = x.holder] ELSE parent
  /\ act' = [name |-> "Pickle", x |-> x.id, kind |-> kind, to |-> dest, i |-> i, p |-> x.holder]
  /\ UNCHANGED <<alive, shm, proxies, tmp, pstate>>

\* RebuildProxy, first half: the constructor increments (owning proxy with a finalizer)
RebuildIncR(t) ==
  /\ t \in transit /\ t.st = "sent" /\ t.kind # "args"
  /\ \/ t.kind = "store"
     \/ t.kind = "reply" /\ pstate[t.to] = "up"
     \/ t.kind = "msg" /\ Ready(t.to)
  /\ Inc(t.obj)
  /\ proxies' = proxies \cup {[id |-> t.id, obj |-> t.obj, holder |-> t.to, owns |-> TRUE]}
  /\ transit' = (transit \ {t}) \cup {[t EXCEPT !.st = "rebuilding", !.by = IF t.kind = "msg" THEN t.to ELSE t.by]}
  /\ act' = [name |-> "RebuildInc", i |-> t.id, kind |-> t.kind, to |-> t.to]
  /\ UNCHANGED <<alive, shm, tmp, pstate, parent, nextId>>

\* second half: the transit reference is given back
RebuildDecR(t) ==
  /\ t \in transit /\ t.st = "rebuilding"
  /\ Dec(t.obj)
  /\ transit' = transit \ {t}
  /\ act' = [name |-> "RebuildDec", i |-> t.id, kind |-> t.kind, to |-> t.to, src |-> t.src]
  /\ UNCHANGED <<alive, shm, proxies, tmp, pstate, parent, nextId>>

\* the spawned child unpickles its Process object: current_process()._inheriting is set
RebuildInheritingR(t) ==
  /\ t \in transit /\ t.st = "sent" /\ t.kind = "args" /\ pstate[t.to] = "unborn"
  /\ pstate' = [pstate EXCEPT ![t.to] = "up"]
  /\ IF InheritOwnsRef
       THEN /\ Inc(t.obj)
            /\ proxies' = proxies \cup {[id |-> t.id, obj |-> t.obj, holder |-> t.to, owns |-> TRUE]}
            /\ transit' = (transit \ {t}) \cup {[t EXCEPT !.st = "rebuilding", !.by = t.to]}
       ELSE /\ proxies' = proxies \cup {[id |-> t.id, obj |-> t.obj, holder |-> t.to, owns |-> FALSE]}
            /\ transit' = transit \ {t}
            /\ UNCHANGED refcount
  /\ act' = [name |-> "RebuildInheriting", i |-> t.id, to |-> t.to]
  /\ UNCHANGED <<alive, shm, tmp, parent, nextId>>

\* the last Python reference to a client-side proxy goes away: its finalizer sends decref.  (A child spawned with the
\* proxy in its args cannot do this: the Process object and the frame of run() reference the args until it exits.)
DeleteR(x) ==
  /\ x \in proxies /\ x.holder \in Procs /\ Ready(x.holder)
  /\ proxies' = proxies \ {x}
  /\ IF x.owns THEN Dec(x.obj) ELSE UNCHANGED refcount
  /\ act' = [name |-> "Delete", x |-> x.id, p |-> x.holder]
  /\ UNCHANGED <<alive, shm, transit, tmp, pstate, parent, nextId>>

\* process p (holding a proxy of container c) removes proxy y from c: pop -> y becomes the reply's temporary;
\* del -> y is released at once
RemoveFromR(p, y, mode, i) ==
  /\ y \in proxies /\ y.holder \in Containers /\ p \in Procs /\ Ready(p) /\ Holds(p, y.holder)
  /\ proxies' = proxies \ {y}
  /\ \/ /\ mode = "pop" /\ Fresh(i)
        /\ tmp' = tmp \cup {[id |-> y.id, obj |-> y.obj]}
        /\ transit' = transit \cup {[id |-> i, obj |-> y.obj, to |-> p, kind |-> "reply", st |-> "sent", by |-> p, src |-> "pop"]}
        /\ Inc(y.obj)
        /\ nextId' = i + 1
     \/ /\ mode = "del" /\ i = 0
        /\ Dec(y.obj)
        /\ UNCHANGED <<tmp, transit, nextId>>
  /\ act' = [name |-> "RemoveFrom", p |-> p, c |-> y.holder, y |-> y.id, mode |-> mode, i |-> i]
  /\ UNCHANGED <<alive, shm, pstate, parent>>

\* `c[k]`: the reply carries a copy of the contained proxy
GetFromR(p, y, i) ==
  /\ y \in proxies /\ y.holder \in Containers /\ p \in Procs /\ Ready(p) /\ Holds(p, y.holder) /\ Fresh(i)
  /\ transit' = transit \cup {[id |-> i, obj |-> y.obj, to |-> p, kind |-> "reply", st |-> "sent", by |-> p, src |-> "get"]}
  /\ Inc(y.obj)
  /\ nextId' = i + 1
  /\ act' = [name |-> "GetFrom", p |-> p, c |-> y.holder, y |-> y.id, i |-> i]
  /\ UNCHANGED <<alive, shm, proxies, tmp, pstate, parent>>

\* the process ends while still referencing its proxies.  A pickle addressed to it would never be rebuilt (the
\* property presumes "a process that will deserialize it once"), so it does not exit before.
HeldBy(p, o) == {x \in proxies : x.holder = p /\ x.obj = o /\ x.owns}
ProcessExit(p) ==
  /\ p \in Clients /\ Ready(p) /\ ~\E t \in transit : t.to = p
  /\ \A k \in Kids : parent[k] = p => pstate[k] = "exited"
  /\ pstate' = [pstate EXCEPT ![p] = "exited"]
  /\ proxies' = {x \in proxies : x.holder # p}
  /\ refcount' = [o \in Objs |-> IF ExitReleases THEN refcount[o] - Cardinality(HeldBy(p, o)) ELSE refcount[o]]
  /\ act' = [name |-> "ProcessExit", p |-> p]
  /\ UNCHANGED <<alive, shm, transit, tmp, parent, nextId>>

\* decref reached zero: the hosted object is deleted; the proxies it contains are released with it
DestroyAtZero(o) ==
  /\ alive[o] = "yes" /\ refcount[o] = 0
  /\ alive' = [alive EXCEPT ![o] = "gone"]
  /\ proxies' = {x \in proxies : x.holder # o}
  /\ refcount' = [q \in Objs |-> refcount[q] - Cardinality(HeldBy(o, q))]
  /\ act' = [name |-> "DestroyAtZero", o |-> o]
  /\ UNCHANGED <<shm, transit, tmp, pstate, parent, nextId>>

ShmUnlink(o) ==
  /\ o \in Blocks /\ alive[o] = "gone" /\ shm[o] = "yes"
  /\ shm' = [shm EXCEPT ![o] = "released"]
  /\ act' = [name |-> "ShmUnlink", o |-> o]
  /\ UNCHANGED <<alive, refcount, proxies, transit, tmp, pstate, parent, nextId>>

-----------------------------------------------------------------------------
\* The same actions addressed by id (quantifying over the constant id range makes TLC report coverage per action;
\* the trace spec binds the ids from the log).
Ids == 1..MaxId
ServerDropTmp(i) == \E t \in tmp : t.id = i /\ ServerDropTmpR(t)
\* continuation of a synchronous call: the reply is rebuilt by the caller / the argument by the server
RebuildCont(i) == \E t \in transit : t.id = i /\ t.kind \in {"reply", "store"} /\ RebuildIncR(t)
\* a process takes a pickle out of a queue / pipe
RebuildMsg(i) == \E t \in transit : t.id = i /\ t.kind = "msg" /\ RebuildIncR(t)
RebuildDec(i) == \E t \in transit : t.id = i /\ RebuildDecR(t)
RebuildInheriting(i) == \E t \in transit : t.id = i /\ RebuildInheritingR(t)
Pickle(xi, kind, dest, i) == \E x \in proxies : x.id = xi /\ PickleR(x, kind, dest, i)
Delete(xi) == \E x \in proxies : x.id = xi /\ DeleteR(x)
ManagedReturn(p, o, i) == Create(p, o, "managed", i)
ManagedAgain(p, o, i) == Create(p, o, "again", i)
PopFrom(p, yi, i) == \E y \in proxies : y.id = yi /\ RemoveFromR(p, y, "pop", i)
DelFrom(p, yi) == \E y \in proxies : y.id = yi /\ RemoveFromR(p, y, "del", 0)
GetFrom(p, yi, i) == \E y \in proxies : y.id = yi /\ GetFromR(p, y, i)

Internal ==
  \/ \E i \in Ids : ServerDropTmp(i)
  \/ \E i \in Ids : RebuildCont(i)
  \/ \E i \in Ids : RebuildDec(i)
  \/ \E o \in Objs : DestroyAtZero(o)
  \/ \E o \in Objs : ShmUnlink(o)

External ==
  \/ \E p \in Procs, o \in Objs : Create(p, o, "create", nextId)
  \/ \E p \in Procs, o \in Objs : ManagedReturn(p, o, nextId)
  \/ \E p \in Procs, o \in Objs : ManagedAgain(p, o, nextId)
  \/ \E xi \in Ids, kind \in {"msg", "args", "store"}, dest \in Clients \cup Containers : Pickle(xi, kind, dest, nextId)
  \/ \E i \in Ids : RebuildMsg(i)
  \/ \E i \in Ids : RebuildInheriting(i)
  \/ \E xi \in Ids : Delete(xi)
  \/ \E p \in Procs, yi \in Ids : PopFrom(p, yi, nextId)
  \/ \E p \in Procs, yi \in Ids : DelFrom(p, yi)
  \/ \E p \in Procs, yi \in Ids : GetFrom(p, yi, nextId)
  \/ \E p \in Clients : ProcessExit(p)

Next == Internal \/ External
Spec == Init /\ [][Next]_vars
FairSpec == Spec /\ WF_vars(Internal)

\* Histories for the replay leg: the real harness issues one command at a time and lets the server settle, so a
\* new command starts only when no continuation / internal step is pending.
Pending ==
  \/ tmp # {}
  \/ \E t \in transit : t.st = "rebuilding" \/ t.kind \in {"reply", "store"}
  \/ \E o \in Objs : alive[o] = "yes" /\ refcount[o] = 0
  \/ \E o \in Blocks : alive[o] = "gone" /\ shm[o] = "yes"
SeqNext == IF Pending THEN Internal ELSE External
SeqSpec == Init /\ [][SeqNext]_vars

-----------------------------------------------------------------------------
Refs(o) == Cardinality({x \in proxies : x.obj = o}) + Cardinality({t \in transit : t.obj = o})
           + Cardinality({t \in tmp : t.obj = o})

TypeOK ==
  /\ alive \in [Objs -> {"no", "yes", "gone"}]
  /\ refcount \in [Objs -> Nat]
  /\ shm \in [Objs -> {"no", "yes", "released"}]
  /\ \A x \in proxies : x.obj \in Objs /\ x.holder \in Clients \cup Containers /\ x.id \in 1..MaxId
  /\ \A t \in transit : t.obj \in Objs /\ t.kind \in {"reply", "msg", "args", "store"} /\ t.st \in {"sent", "rebuilding"}
  /\ \A t \in tmp : t.obj \in Objs
  /\ nextId \in 1..(MaxId + 1)

\* C13, first clause: the server's count is exactly the number of references that exist
Count == \A o \in Objs : refcount[o] = Refs(o)
\* "stays alive and usable as long as at least one proxy to it exists anywhere"
NoPrematureDestroy == \A o \in Objs : Refs(o) > 0 => alive[o] = "yes"
\* the shared memory exists exactly as long as the MemoryBlock
ShmSafe == \A b \in Blocks : /\ (alive[b] = "yes" => shm[b] = "yes")
                             /\ (shm[b] = "released" => alive[b] = "gone")
\* a proxy held by a destroyed container or an exited process does not exist
HoldersExist == \A x \in proxies : IF x.holder \in Containers THEN alive[x.holder] = "yes"
                                                               ELSE pstate[x.holder] = "up"

\* "destroyed, with any shared memory block released, once the last such reference is gone"
NoLeak == \A o \in Objs : (alive[o] = "yes" /\ Refs(o) = 0) ~> (alive[o] = "gone")
ShmReleased == \A b \in Blocks : (alive[b] = "gone") ~> (shm[b] = "released")
\* without reference cycles: when every client is gone and nothing is in transit, nothing is left behind
AllGone == (\A p \in Clients : pstate[p] # "up") /\ transit = {}
           ~> (\A o \in Objs : alive[o] # "yes" /\ shm[o] # "yes")

-----------------------------------------------------------------------------
\* Trap invariants (negated reachability goals): TLC prints the shortest history reaching the corner; the replay leg
\* executes it on the real ServerProcess.
Quiet == ~Pending
Trap_LastProxyDroppedInTransit ==
  ~(\E t \in transit : t.kind = "msg" /\ t.st = "sent" /\ ~\E x \in proxies : x.obj = t.obj)
\* (every process still up: under SeqSpec the block's count can then only have reached zero through the cascade)
Trap_CascadeDestroy ==
  ~(act.name = "DestroyAtZero" /\ act.o \in Containers /\ (\A p \in Clients : pstate[p] # "exited")
    /\ \E b \in Blocks : alive[b] = "yes" /\ refcount[b] = 0)
Trap_KidIsLastHolder ==
  ~(\E x \in proxies : x.holder \in Kids /\ Quiet /\ \A y \in proxies : y.obj = x.obj => y = x)
\* the proxy just popped out of a container is the only reference to a MemoryBlock
Trap_PoppedIsOnlyRef ==
  ~(Quiet /\ act.name = "RebuildDec" /\ act.src = "pop"
    /\ \E x \in proxies : x.id = act.i /\ x.obj \in Blocks /\ refcount[x.obj] = 1)
\* (full interleaving only, not replayable: the server-side temporary of a pop is the last reference)
Trap_PopLastRef ==
  ~(transit = {} /\ \E t \in tmp : \A x \in proxies : x.obj # t.obj)
Trap_ExitHoldingTwo ==
  ~(act.name = "ProcessExit" /\ \E o \in Objs : alive[o] = "yes" /\ refcount[o] = 0)
Trap_NestedOnly ==
  ~(Quiet /\ \E b \in Blocks : alive[b] = "yes" /\ (\A x \in proxies : x.obj = b => x.holder \in Containers)
                              /\ \E p \in Procs : pstate[p] = "exited")
Trap_KidWhileOtherExited ==
  ~(\E x \in proxies : x.holder \in Kids /\ Quiet /\ \E p \in Procs : pstate[p] = "exited")
\* an already hosted object has been wrapped a second time and the caller holds the second proxy
Trap_Rewrapped == ~(Quiet /\ act.name = "RebuildDec" /\ act.src = "again")
Trap_SelfStore ==
  ~(Quiet /\ \E x \in proxies : x.holder = x.obj /\ \A y \in proxies : y.obj = x.obj => y = x)
=============================================================================
