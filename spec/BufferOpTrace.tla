--------------------------- MODULE BufferOpTrace ---------------------------
(* Validates recorded executions of the real Buffer / AsyncBuffer (mbt/bind/bufferop.py, detsched, exact event   *)
(* order) against BufferOp.  Silent (unobservable) steps: the producer's flag test, the finalizer's flag set,     *)
(* its empty() test and its timed-out join.                                                                      *)
EXTENDS BufferOp, Json, IOUtils, TLCExt

TraceLog == JsonDeserialize(IOEnv.TRACE_FILE)
VARIABLES tid, l
tvars == <<vars, tid, l>>

ParamOf(h) == [n |-> h.n, maxsize |-> h.maxsize, srcfail |-> h.srcfail, srcbase |-> h.srcbase, maybreak |-> h.maybreak]
Evs == TraceLog[tid].ev
E == Evs[l]
Is(name) == l <= Len(Evs) /\ E.ev = name
Step == l' = l + 1 /\ tid' = tid
Silent == l' = l /\ tid' = tid
LastOf(s) == s[Len(s)]

TraceInit ==
  \E t \in 1..Len(TraceLog) :
     /\ tid = t /\ l = 1 /\ InitWith(ParamOf(TraceLog[t].p))
     /\ TLCSet(t, <<1, "init", "none">>)

TNext     == Is("Next") /\ (ConsStart \/ ConsNext) /\ Step
TPull     == Is("Pull") /\ ProdPull /\ heldP' = E.i /\ Step
TSrcEnd   == Is("SrcEnd") /\ ProdSrcEnd /\ Step
TSrcRaise == Is("SrcRaise") /\ ProdSrcRaise /\ Step
TPut      == /\ Is("Put")
             /\ \/ E.t = "item" /\ ProdPut /\ LastOf(q').x = E.x
                \/ E.t = "fin" /\ ProdPutFin
                \/ E.t = "stopped" /\ ProdPutStopped
                \/ E.t = "exc" /\ ProdPutExc
             /\ Len(q') = E.qlen
             /\ Step
TGet      == /\ Is("Get") /\ q # <<>>
             /\ Head(q).t = E.t /\ Head(q).x = E.x
             /\ (ConsGet \/ ConsGetExc \/ FinDrainOne)
             /\ Len(q') = E.qlen
             /\ Step
TYield    == Is("Yield") /\ ConsYield /\ val = E.x /\ Step
TBreak    == Is("Break") /\ ConsBreak /\ Step
TClosed   == Is("Closed") /\ FinJoin /\ raised = E.k /\ E.wa = FALSE /\ Step
TSilent   == (ProdCheckStop \/ FinSetStop \/ FinDrainEmpty \/ FinJoinTimeout) /\ Silent

TraceNext == TNext \/ TPull \/ TSrcEnd \/ TSrcRaise \/ TPut \/ TGet \/ TYield \/ TBreak \/ TClosed \/ TSilent
TraceSpec == TraceInit /\ [][TraceNext]_tvars

FailedInv ==
  IF ~OutIsPrefix THEN "OutIsPrefix" ELSE IF ~EndOK THEN "EndOK" ELSE IF ~NoLeak THEN "NoLeak"
  ELSE IF ~LookAhead THEN "LookAhead" ELSE IF ~InFlightBound THEN "InFlightBound"
  ELSE IF ~QueueBound THEN "QueueBound" ELSE "none"

Progress ==
  IF FailedInv # "none"
    THEN TLCSet(tid, <<TLCGet(tid)[1], TLCGet(tid)[2], FailedInv>>) /\ FALSE
    ELSE IF TLCGet(tid)[1] < l
           THEN TLCSet(tid, <<l, <<prod, cons, Len(q), heldP, stop>>, TLCGet(tid)[3]>>)
           ELSE TRUE

Report ==
  \A t \in 1..Len(TraceLog) :
     PrintT(<<"VERDICT", t, TLCGet(t)[1], Len(TraceLog[t].ev), TLCGet(t)[2], TLCGet(t)[3]>>)
=============================================================================
