------------------------------ MODULE TeeTrace ------------------------------
(* Validates recorded executions of the real tee() (mbt/bind/tee.py; detsched line mode) against Tee.               *)
(* Logged: calls, source pulls, lock attempts/releases on the shared source lock, puts/gets on the counting queue,  *)
(* yields, endings.  Silent: the pure tests of shared state (L1 L2 L4 L10 L12), head/next assignments (L8 L14) and  *)
(* the consumption count when it does not pop the window (L17).                                                     *)
EXTENDS Tee, Json, IOUtils, TLCExt

TraceLog == JsonDeserialize(IOEnv.TRACE_FILE)
VARIABLES tid, l
tvars == <<vars, tid, l>>

ParamOf(h) == [n |-> h.n, srcfail |-> h.srcfail, b |-> h.b]
Evs == TraceLog[tid].ev
E == Evs[l]
Is(name) == l <= Len(Evs) /\ E.ev = name
Adv == l' = l + 1 /\ tid' = tid
Silent == l' = l /\ tid' = tid
Same == UNCHANGED vars

TraceInit ==
  \E t \in 1..Len(TraceLog) :
     /\ tid = t /\ l = 1 /\ InitWith(ParamOf(TraceLog[t].p))
     /\ TLCSet(t, <<1, "init", "none">>)

TCall   == Is("Call") /\ Call(E.f) /\ Adv
TLock   == /\ Is("Lock")
           /\ \/ pc[E.f] = "L3" /\ L3(E.f)
              \/ pc[E.f] = "L11" /\ L11(E.f)
           /\ E.ok = (lock' = E.f)
           /\ Adv
\* release of the source lock; where the model releases together with another step the event is redundant
TUnlock == /\ Is("Unlock")
           /\ \/ lock = E.f /\ (L7(E.f) \/ L7r(E.f) \/ L16(E.f))
              \/ lock # E.f /\ Same
           /\ Adv
TPull   == /\ Is("Pull") /\ (L5(E.f) \/ L13(E.f)) /\ hx'[E.f] = E.i /\ srcPos' = E.i /\ Adv
TStop   == /\ Is("SrcStop") /\ SrcStops /\ (L5(E.f) \/ L13(E.f)) /\ srcPos' = srcPos /\ Adv
TRaise  == /\ Is("SrcRaise") /\ SrcRaises /\ (L5(E.f) \/ L13(E.f)) /\ srcDead' /\ Adv
TBufPut == /\ Is("BufPut") /\ (L6(E.f) \/ L15(E.f)) /\ buf' = E.qlen /\ Adv
TBufGet == /\ Is("BufGet") /\ L17(E.f) /\ buf' = buf - 1 /\ buf' = E.qlen /\ Adv
TYield  == /\ Is("Yield") /\ L19(E.f) /\ got'[E.f][Len(got'[E.f])] = E.x /\ Adv
TEnd    == /\ Is("End") /\ pc[E.f] = "done" /\ ended[E.f] = E.how /\ Same /\ Adv
TAllDone == Is("AllDone") /\ AllDone /\ lock = 0 /\ ~E.locked /\ Same /\ Adv

TSilent == /\ \E f \in Forks : \/ L1(f) \/ L2(f) \/ L4(f) \/ L5x(f) \/ L8(f) \/ L10(f) \/ L12(f) \/ L13x(f) \/ L14(f)
                               \/ (L17(f) /\ buf' = buf)
           /\ Silent

TraceNext == TCall \/ TLock \/ TUnlock \/ TPull \/ TStop \/ TRaise \/ TBufPut \/ TBufGet \/ TYield \/ TEnd \/ TAllDone
             \/ TSilent
TraceSpec == TraceInit /\ [][TraceNext]_tvars

FailedInv ==
  IF ~ForkPrefix THEN "ForkPrefix" ELSE IF ~EndAgree THEN "EndAgree" ELSE IF ~Window THEN "Window"
  ELSE IF ~BufBound THEN "BufBound" ELSE IF ~LockSane THEN "LockSane" ELSE "none"

Progress ==
  IF FailedInv # "none"
    THEN TLCSet(tid, <<TLCGet(tid)[1], TLCGet(tid)[2], FailedInv>>) /\ FALSE
    ELSE IF TLCGet(tid)[1] < l
           THEN TLCSet(tid, <<l, <<pc, nx, lock, buf, srcPos, term>>, TLCGet(tid)[3]>>)
           ELSE TRUE

Report ==
  \A t \in 1..Len(TraceLog) :
     PrintT(<<"VERDICT", t, TLCGet(t)[1], Len(TraceLog[t].ev), TLCGet(t)[2], TLCGet(t)[3]>>)
=============================================================================
